"""C28 — random arrays are reproducible when seeded and independent when not.

Monitor: three families of checks on the real dask.array.random.

seeded      the same (API, seed, distribution, parameters, size, chunks) is built twice from two fresh
            generator objects (``default_rng(seed)``, ``RandomState(seed)``, or ``da.random.seed(seed)``
            followed by the module-level function).  The first array is computed twice on the sync
            scheduler (recomputation) and the second one on another scheduler (threads; a spawn process
            pool for ~1 case in 15); all three results must be identical (shape, dtype, values).
            Nothing is demanded between different chunkings of the same seed.
unseeded    two arrays created separately without a seed (module-level functions, two ``default_rng()``
            / ``RandomState()`` objects, or one unseeded generator called twice) must have distinct
            ``.name`` and disjoint top-level keys; ``dask.compute(a, b)`` must return for each exactly
            what ``a.compute()`` / ``b.compute()`` return alone (the draw is baked into the graph, which
            is itself verified by recomputing); for continuous distributions with >= 4 elements the
            two draws must differ ("each keeps its own draw").
choice      ``choice(population, size, replace=False[, p])``: result shape == size, elements are members
            of the population and pairwise distinct, for sizes up to the population size; size >
            population (NumPy raises) -> rejected unless dask returns a result, which is then necessarily
            a violation.  ``permutation(x)``: a permutation of x along the first axis (multiset of rows).

Unseeded witnesses cannot be replayed value-for-value (OS entropy); the witness records names and values.

Calibration
* choice(replace=False) with a multi-chunk output is documented as unsupported (NotImplementedError):
  counted as ``unsupported``; kept in the stream (~1 choice case in 5, split along any one axis) so that
  an implementation that samples per chunk is caught by the distinctness check.
* permutation(x) is x[index] with an index drawn on the host: its name is a function of (x, index), so two
  unseeded permutations share a name exactly when they drew the same index (certain for len(x) <= 1); the
  distinct-name demand is therefore not applied to permutation, only "computed together == alone".
* Labels: the module-level functions are methods of one cached RandomState and are labelled RandomState; with
  disjoint graphs a "together != alone" difference can only be a draw that is not baked into the graph and is
  labelled as the recompute mechanism.
* Generator objects are stateful: calling one generator twice gives two different arrays by design, so
  "same seed" always means a fresh generator object.

* Parameter audit: a population of more than 40 members is held as int64 (its members must be pairwise distinct, int8
  wraps around); NumPy's RandomState.random_integers converts its bounds with int(), multinomial / multivariate_
  hypergeometric take vector parameters: no array-valued parameters for these; a nested list cannot express a
  zero-length later axis (permutation of a list input).
* Labels of the audit findings are per mechanism, not per API / family: ``wrap:Generator.integers:array-valued-high:*``,
  ``wrap:multivariate_hypergeometric:result-axis-not-declared``, ``permutation:array-like-input:*``.

Parameter audit (input classes added after the seeded-defect rounds; each has a counter with a floor):
every distribution method of both APIs (38 methods, incl. multinomial's extra axis, RandomState-only random_integers /
tomaxint / random, Generator-only multivariate_hypergeometric); an array-valued parameter at ANY position (NumPy or dask
array over the trailing axes, optionally with length-1 axes that broadcast), parameters by keyword; size as int / list /
None (0-d, or inferred from a full-size array parameter); chunks as tuple of ints / -1 / bytes string / dict / explicit
irregular with >= 3 blocks / blocks of more than 255 elements; integers/randint dtype=, the one-argument form, endpoint=;
seed forms (int beyond 2**64, array_like, SeedSequence, BitGenerator PCG64 / MT19937 / Philox, a NumPy Generator;
RandomState: array_like, an object re-seeded through .seed() after use; da.random.seed(array_like)); STATE: 1-3 arrays
drawn from the same generator object (and a refused call) before the array under test, replayed identically in the
rebuild; choice: p as list / dask array with several blocks, size as int / None, axis=0 / shuffle=False keywords,
populations of 300 members, 3-d samples without replacement, the seeded sample without replacement rebuilt from a fresh
generator, the NotImplementedError refusal observed per (API, population kind, split axis); permutation of NumPy arrays /
lists / 3-d dask arrays with irregular first-axis chunks.  Sibling parameters added: replace, integers dtype, the values
of an array-valued parameter; Generator.choice takes part in the sibling facet (its draws are a function of the graph
since the recompute fix).

Sibling facet (vf/mon/siblings.py): every case is also built a second time with ONE result-relevant parameter changed
(seeded arrays only: same seed and another distribution parameter / size / chunks / dtype / endpoint / p).
The two lazily built collections must not share output keys unless their stand-alone values are equal (label
``<op>:<param>-not-in-name:siblings-share-keys``); for a seeded ~15 % of the cases both are also computed in one graph and
compared with their stand-alone values (``<op>:<param>:differs-when-computed-with-sibling``).  Counters siblings_built /
siblings_computed_together / siblings_with_different_values have floors.
"""
from __future__ import annotations

import random
import warnings

import numpy as np

from ..gen import arrays as A
from ..mon import siblings as S
from ..mon.compare import compare_arrays

PROP = "C28"
RULE = ("cases = seeded (API Generator|RandomState|module, every distribution method (38), parameters incl. NumPy/dask array "
        "parameters at any position / by keyword, size 0-3 d with lengths 0-6 (tuple|int|list|None) and long axes with blocks > 255, "
        "explicit/irregular/int/tuple/-1/bytes/dict/auto chunks, seed in every documented form, arrays drawn from the generator "
        "before, second scheduler threads|processes), "
        "unseeded pairs (creation mode x distribution x size x chunks x scheduler) and choice(replace=False)/permutation "
        "(population int|numpy|dask, size int|tuple up to and beyond the population, p, chunks). non-trivial = the array has "
        ">= 2 chunks (seeded/unseeded/permutation) or the sample has >= 2 elements (choice); distinct = distinct case "
        "description including the seed.")
ASSUMPTIONS = ["numpy.random defines the per-chunk draws", "spawn process pool (1 worker) reused within a shard",
               "unseeded generators draw OS entropy: their witnesses are not replayable value-for-value"]
BUDGET = {"quick": 90, "thorough": 560}
FLOORS = {"quick": {"evaluations": 1350, "distinct_nontrivial": 550,
                    "counters": {"seeded_compared": 680, "seeded_processes": 39, "seeded_threads": 630, "unseeded_pairs": 300,
                                 "together_vs_alone": 600, "own_draw_checked": 69, "choice_checked": 150, "permutation_checked": 90},
                    "sets": {"seeded_api_dist": 50, "unseeded_mode_dist": 75}, "max_skipped_fraction": 0.15},
          "thorough": {"evaluations": 10000, "distinct_nontrivial": 4800,
                       "counters": {"seeded_compared": 5000, "seeded_processes": 300, "seeded_threads": 4500, "unseeded_pairs": 2600,
                                    "together_vs_alone": 5000, "own_draw_checked": 600, "choice_checked": 1500, "permutation_checked": 650},
                       "sets": {"seeded_api_dist": 36, "unseeded_mode_dist": 60}, "max_skipped_fraction": 0.15}}
# sibling facet (vf/mon/siblings.py): ~45 % of the smallest count of the five quick seeds on the unchanged tree; thorough =
# quick floor x (thorough / quick stream size) x 0.6.  A run in which the facet never executed is INCONCLUSIVE.
FLOORS["quick"]["counters"].update({"siblings_built": 630, "siblings_computed_together": 80, "siblings_with_different_values": 71})
FLOORS["thorough"]["counters"].update({"siblings_built": 3400, "siblings_computed_together": 430, "siblings_with_different_values": 380})
# parameter audit: input classes (~45 % of the smallest count of the five quick seeds; thorough = quick floor x 9 (stream ratio) x 0.6)
_AUDIT = {"array_param_broadcast_len1": 31, "array_param_first": 82, "array_param_not_first": 39, "choice_axis_shuffle_keywords": 8,
          "choice_noreplace_3d": 8, "choice_noreplace_int_population_Generator": 30, "choice_noreplace_int_population_RandomState": 28,
          "choice_noreplace_p_da": 12, "choice_noreplace_p_list": 13, "choice_noreplace_population_over_255": 10,
          "choice_noreplace_rebuilt": 105, "choice_p_da": 11, "choice_p_list": 4, "chunks_form_-1": 25, "chunks_form_bytes": 34,
          "chunks_form_dict": 26, "chunks_form_tuple": 49, "dist_added_by_audit": 360, "generator_refused_call_before": 64,
          "generator_used_before": 235, "integers_dtype": 22, "integers_endpoint": 14, "integers_one_argument": 12,
          "layout_block_over_255": 16, "layout_irregular_ge3_blocks": 85, "params_by_keyword": 99, "permutation_array_like_input": 17,
          "permutation_irregular_ge3_blocks": 5, "seed_form_not_int": 248, "size_form_int": 58, "size_form_list": 71,
          "size_form_none": 157}
FLOORS["quick"]["counters"].update(_AUDIT)
FLOORS["thorough"]["counters"].update({k: int(v * 9 * 0.6) for k, v in _AUDIT.items()})
# every (API, distribution) with one block and with several blocks; every seed form; the refusal of a multi-block sample
# without replacement on every (API, population kind, split axis); samples without replacement on every (API, population kind, p)
for _t in ("quick", "thorough"):
    FLOORS[_t]["sets"].update({"api_dist_blocks": 110, "seed_forms": 9, "choice_noreplace_paths": 8, "choice_noreplace_refused_paths": 7,
                               "irregular3_api_family": 4})
EXHAUSTIVE_SPACE = None
CLAIM = ("Every generated seeded array was rebuilt from a fresh generator and computed three times (sync twice, then threads "
         "or a process pool) with identical results; every generated pair of unseeded arrays had distinct names/keys and kept "
         "its own draw when computed together; every choice(replace=False) sample was distinct, inside the population and of "
         "the requested shape; held = no deviation on the executions observed.")
LEVEL_NOTE = "trusts numpy.random bit generators; schedulers are the real sync/threads/multiprocessing ones"
TECHNIQUE = "runtime monitoring: recomputation/scheduler differential, key-distinctness and sample-distinctness monitors"
CASE_TIMEOUT = 90
PENDING = {
    "wrap:zero-size-array-param:IndexError":
        "any distribution with an array-valued parameter of size 0 (e.g. normal(loc=np.empty((0, 3)), size=(0, 3))) raises "
        "IndexError in _wrap_func (element 0 of the parameter is taken for meta inference); NumPy returns an empty array",
    # parameter audit (fix patches in /verif/fixes_ready/C28_0[123]_*.patch)
    "wrap:Generator.integers:array-valued-high:ValueError":
        "Generator.integers(low, high=<NumPy or dask array>) cannot be computed: array-valued keyword arguments are written into "
        "the tasks of _wrap_func as bare tuples that nothing resolves",
    "wrap:multivariate_hypergeometric:result-axis-not-declared":
        "Generator.multivariate_hypergeometric does not declare the trailing len(colors) axis: lazy shape != computed shape for "
        "one block, several blocks cannot be assembled (ValueError: could not broadcast input array)",
    "permutation:array-like-input:AttributeError@array/slicing.py:shuffle_slice":
        "Generator.permutation / RandomState.permutation of a NumPy array or a list raises AttributeError (no .chunks)",
}

# (Generator method, RandomState method, parameter names, continuous?)
DISTS = {
    "random": ("random", "random_sample", (), True),
    "standard_normal": ("standard_normal", "standard_normal", (), True),
    "normal": ("normal", "normal", ("loc", "scale"), True),
    "uniform": ("uniform", "uniform", ("low", "high"), True),
    "integers": ("integers", "randint", ("low", "high"), False),
    "poisson": ("poisson", "poisson", ("lam",), False),
    "binomial": ("binomial", "binomial", ("n", "p"), False),
    "exponential": ("exponential", "exponential", ("scale",), True),
    "gamma": ("gamma", "gamma", ("shape", "scale"), True),
    "beta": ("beta", "beta", ("a", "b"), True),
    "chisquare": ("chisquare", "chisquare", ("df",), True),
    "choice": ("choice", "choice", (), False),
    "permutation": ("permutation", "permutation", (), False),
    # ---- parameter audit: the remaining distributions of both APIs (None = the API has no such method)
    "f": ("f", "f", ("dfnum", "dfden"), True),
    "geometric": ("geometric", "geometric", ("p",), False),
    "gumbel": ("gumbel", "gumbel", ("loc", "scale"), True),
    "hypergeometric": ("hypergeometric", "hypergeometric", ("ngood", "nbad", "nsample"), False),
    "laplace": ("laplace", "laplace", ("loc", "scale"), True),
    "logistic": ("logistic", "logistic", ("loc", "scale"), True),
    "lognormal": ("lognormal", "lognormal", ("mean", "sigma"), True),
    "logseries": ("logseries", "logseries", ("p",), False),
    "multinomial": ("multinomial", "multinomial", ("n", "pvals"), False),
    "multivariate_hypergeometric": ("multivariate_hypergeometric", None, ("colors", "nsample"), False),
    "negative_binomial": ("negative_binomial", "negative_binomial", ("n", "p"), False),
    "noncentral_chisquare": ("noncentral_chisquare", "noncentral_chisquare", ("df", "nonc"), True),
    "noncentral_f": ("noncentral_f", "noncentral_f", ("dfnum", "dfden", "nonc"), True),
    "pareto": ("pareto", "pareto", ("a",), True),
    "power": ("power", "power", ("a",), True),
    "rayleigh": ("rayleigh", "rayleigh", ("scale",), True),
    "standard_cauchy": ("standard_cauchy", "standard_cauchy", (), True),
    "standard_exponential": ("standard_exponential", "standard_exponential", (), True),
    "standard_gamma": ("standard_gamma", "standard_gamma", ("shape",), True),
    "standard_t": ("standard_t", "standard_t", ("df",), True),
    "triangular": ("triangular", "triangular", ("left", "mode", "right"), True),
    "vonmises": ("vonmises", "vonmises", ("mu", "kappa"), True),
    "wald": ("wald", "wald", ("mean", "scale"), True),
    "weibull": ("weibull", "weibull", ("a",), True),
    "zipf": ("zipf", "zipf", ("a",), False),
    "random_integers": (None, "random_integers", ("low", "high"), False),
    "tomaxint": (None, "tomaxint", (), False),
    "random-alias": (None, "random", (), True),          # RandomState.random / da.random.random = random_sample
}
OLD = ["random", "standard_normal", "normal", "uniform", "integers", "poisson", "binomial", "exponential", "gamma", "beta",
       "chisquare", "choice", "permutation"]
WRAPPED = [d for d in DISTS if d not in ("choice", "permutation")]
NO_MODULE_FUNC = {"tomaxint", "multivariate_hypergeometric"}       # no module-level function of that name
NO_ARRAY_PARAM = {"pvals", "colors"}                                # vector-valued by themselves
EXTRA_DIM = {"multinomial", "multivariate_hypergeometric"}          # result has one more axis than size
_POOL = {}


def _apis(dist):
    g, r = DISTS[dist][0], DISTS[dist][1]
    out = []
    if g:
        out += ["gen", "gen"]
    if r:
        out += ["rs", "rs"]
        if dist not in NO_MODULE_FUNC:
            out.append("mod")
    return out


def _params(rng, dist):
    if dist == "normal":
        return {"loc": rng.choice((0.0, -2.5, 10.0)), "scale": rng.choice((1.0, 0.1, 3.0))}
    if dist == "uniform":
        lo = rng.choice((0.0, -1.0, 5.0))
        return {"low": lo, "high": lo + rng.choice((1.0, 0.5, 10.0))}
    if dist == "integers":
        lo = rng.choice((0, -5, 3))
        return {"low": lo, "high": lo + rng.choice((1, 2, 10, 1000))}
    if dist == "poisson":
        return {"lam": rng.choice((0.5, 1.0, 4.0, 30.0))}
    if dist == "binomial":
        return {"n": rng.choice((1, 5, 20)), "p": rng.choice((0.1, 0.5, 0.9))}
    if dist == "exponential":
        return {"scale": rng.choice((1.0, 0.2, 5.0))}
    if dist == "gamma":
        return {"shape": rng.choice((0.5, 1.0, 2.0, 9.0)), "scale": rng.choice((1.0, 2.0))}
    if dist == "beta":
        return {"a": rng.choice((0.5, 1.0, 2.0)), "b": rng.choice((0.5, 1.0, 3.0))}
    if dist == "chisquare":
        return {"df": rng.choice((1.0, 2.0, 5.0))}
    if dist in ("gumbel", "laplace", "logistic"):
        return {"loc": rng.choice((0.0, -2.5, 10.0)), "scale": rng.choice((1.0, 0.1, 3.0))}
    if dist == "lognormal":
        return {"mean": rng.choice((0.0, -1.0, 2.0)), "sigma": rng.choice((1.0, 0.25))}
    if dist == "f":
        return {"dfnum": rng.choice((1.0, 3.0, 10.0)), "dfden": rng.choice((2.0, 5.0, 40.0))}
    if dist == "noncentral_f":
        return {"dfnum": rng.choice((1.0, 3.0, 10.0)), "dfden": rng.choice((2.0, 5.0, 40.0)), "nonc": rng.choice((0.0, 1.0, 4.0))}
    if dist == "noncentral_chisquare":
        return {"df": rng.choice((1.0, 2.0, 5.0)), "nonc": rng.choice((0.0, 1.0, 4.0))}
    if dist in ("geometric", "logseries"):
        return {"p": rng.choice((0.3, 0.6, 0.9))}
    if dist == "negative_binomial":
        return {"n": rng.choice((1, 5, 20)), "p": rng.choice((0.1, 0.5, 0.9))}
    if dist == "hypergeometric":
        return {"ngood": rng.choice((4, 7, 30)), "nbad": rng.choice((3, 9)), "nsample": rng.choice((3, 5, 6))}
    if dist == "multinomial":
        return {"n": rng.choice((1, 5, 20)), "pvals": rng.choice(([0.5, 0.5], [0.2, 0.3, 0.5], [0.1, 0.2, 0.3, 0.4], [1.0]))}
    if dist == "multivariate_hypergeometric":
        return {"colors": rng.choice(([3, 4, 5], [10, 2], [6, 6, 6, 6])), "nsample": rng.choice((1, 4, 8))}
    if dist in ("pareto", "power", "weibull"):
        return {"a": rng.choice((0.5, 1.0, 3.0))}
    if dist == "zipf":
        return {"a": rng.choice((1.5, 2.0, 4.0))}
    if dist == "rayleigh":
        return {"scale": rng.choice((1.0, 0.2, 5.0))}
    if dist == "standard_gamma":
        return {"shape": rng.choice((0.5, 1.0, 2.0, 9.0))}
    if dist == "standard_t":
        return {"df": rng.choice((1.0, 2.0, 5.0))}
    if dist == "triangular":
        lo = rng.choice((0.0, -1.0, 5.0))
        md = lo + rng.choice((1.0, 2.0))
        return {"left": lo, "mode": md, "right": md + rng.choice((0.5, 3.0))}
    if dist == "vonmises":
        return {"mu": rng.choice((0.0, 1.0, -2.0)), "kappa": rng.choice((0.5, 1.0, 4.0))}
    if dist == "wald":
        return {"mean": rng.choice((0.5, 1.0, 3.0)), "scale": rng.choice((1.0, 2.0))}
    if dist == "random_integers":
        lo = rng.choice((0, -5, 3))
        return {"low": lo, "high": lo + rng.choice((0, 1, 10, 1000))}
    return {}


def _is_irr3(c):
    """>= 3 blocks that are not 'equal blocks with a shorter last one' (what an int chunk size gives)"""
    c = list(c)
    return len(c) >= 3 and (len(set(c[:-1])) > 1 or c[-1] > c[0])


def _irr3(rng, n):
    for _ in range(20):
        k = rng.randint(2, min(n - 1, 5))
        cuts = sorted(rng.sample(range(1, n), k))
        b = [0] + cuts + [n]
        c = [y - x for x, y in zip(b, b[1:])]
        if _is_irr3(c):
            return c
    return [1, n - 3, 2]


def _chunk_desc(rng, shape):
    u = rng.random()
    if not shape:
        return {"t": "explicit", "v": []} if u < 0.7 else {"t": "auto"}
    if u < 0.5:
        return {"t": "explicit", "v": [list(c) for c in A.rand_chunks(rng, shape)]}
    if u < 0.62:
        # explicit irregular chunks: >= 3 blocks on the longest axis, a short block before a longer one
        v = [list(c) for c in A.rand_chunks(rng, shape)]
        ax = max(range(len(shape)), key=lambda a: shape[a])
        if shape[ax] >= 4:
            v[ax] = _irr3(rng, shape[ax])
        return {"t": "explicit", "v": v}
    if u < 0.72:
        return {"t": "int", "v": rng.randint(1, max(max(shape), 1))}
    if u < 0.80:
        return {"t": "tuple", "v": [rng.randint(1, max(n, 1) + 1) for n in shape]}
    if u < 0.84:
        return {"t": "-1"}
    if u < 0.89:
        return {"t": "bytes", "v": rng.choice((8, 16, 32, 64, 256))}
    if u < 0.93:
        axes = [a for a in range(len(shape)) if rng.random() < 0.6] or [0]
        return {"t": "dict", "v": [[a, rng.randint(1, max(shape[a], 1))] for a in axes]}
    return {"t": "auto"}


def _chunks_arg(d):
    t = d["t"]
    if t == "explicit":
        return tuple(tuple(c) for c in d["v"])
    if t == "int":
        return d["v"]
    if t == "tuple":
        return tuple(d["v"])
    if t == "-1":
        return -1
    if t == "bytes":
        return "%d B" % d["v"]
    if t == "dict":
        return {int(a): c for a, c in d["v"]}
    return "auto"


def _seed_desc(rng, api):
    """(seed value, seed kind).  int seeds as before; the other documented seed forms of each API"""
    base = rng.choice((0, 1, 42, rng.randrange(2 ** 32)))
    u = rng.random()
    if api == "gen":
        if u < 0.55:
            return base, "int"
        return base, rng.choice(("bigint", "array", "seedseq", "bitgen-PCG64", "bitgen-MT19937", "bitgen-Philox", "npgen"))
    if api == "rs":
        if u < 0.6:
            return base, "int"
        return base, rng.choice(("array", "reseed", "reseed"))
    return base, ("int" if u < 0.75 else "array")


def _big_shape(rng):
    """a shape with a block of more than 255 elements along one axis and >= 3 irregular blocks"""
    n = rng.randint(300, 700)
    a = rng.randint(256, n - 20)
    b = rng.randint(1, n - a - 1)
    c = [a, b, n - a - b]
    rng.shuffle(c)
    if rng.random() < 0.5:
        return [n], {"t": "explicit", "v": [c]}
    if rng.random() < 0.5:
        return [2, n], {"t": "explicit", "v": [[1, 1], c]}
    return [n], {"t": rng.choice(("int", "bytes")), "v": rng.choice((256, 2048))}


def _wrapped_extras(rng, d, dist, api, shape):
    """the parameter-passing forms of a wrapped distribution (in place)"""
    # (multinomial / multivariate_hypergeometric take vectors; NumPy's random_integers converts its bounds with int())
    pn = [k for k in DISTS[dist][2] if k not in NO_ARRAY_PARAM and dist not in EXTRA_DIM and dist != "random_integers"]
    if pn and shape and rng.random() < 0.3:
        drop = rng.randint(0, len(shape) - 1)
        kept = len(shape) - drop
        d["arr"] = {"kind": rng.choice(("np", "da")), "drop": drop, "c": rng.randrange(2 ** 16),
                    "pos": DISTS[dist][2].index(rng.choice(pn)),
                    "ones": [rng.random() < 0.2 for _ in range(kept)]}
    if dist == "random" and api == "gen" and rng.random() < 0.3:
        d["f32"] = True
    if dist == "integers":
        if api == "gen" and rng.random() < 0.45:
            d["endpoint"] = True
        u = rng.random()
        if u < 0.3:
            d["idtype"] = rng.choice(("int8", "uint8", "int32", "uint64", "int16"))
            lo = rng.choice((0, 3))
            d["P"] = {"low": lo, "high": lo + rng.choice((1, 2, 10, 100))}
        if rng.random() < 0.2 and not d.get("arr"):
            d["hnone"] = True           # integers(high) / randint(high): the one-argument form
            d["P"] = {"low": max(d["P"]["high"], 1), "high": None}
    # size forms: tuple (default), int for 1-d, list, None (0-d, or the shape of a full-size array parameter)
    u = rng.random()
    if len(shape) == 1 and u < 0.25:
        d["sform"] = "int"
    elif shape and u < (0.35 if len(shape) == 1 else 0.15):
        d["sform"] = "list"
    elif u < 0.6 and (not shape or (d.get("arr") and d["arr"]["drop"] == 0 and not any(d["arr"]["ones"]))):
        d["sform"] = "none"
    if DISTS[dist][2] and rng.random() < 0.15 and not d.get("hnone"):
        d["kwform"] = True              # parameters passed by keyword
    if rng.random() < 0.025 and dist not in EXTRA_DIM and not d.get("arr"):
        d["shape"], d["chunks"] = _big_shape(rng)
        d.pop("sform", None)


def cases(tier, seed):
    rng = random.Random(seed * 6151 + 28)
    n = 3000 if tier == "quick" else 27000
    pool = OLD * 3 + [d for d in DISTS if d not in OLD] + ["integers"] * 5 + ["choice"] * 3
    upool = ([d for d in OLD if d not in ("choice", "permutation")] * 3 + [d for d in WRAPPED if d not in OLD] + ["choice"] * 6
             + ["permutation"] * 2 + ["integers"] * 3)
    for i in range(n):
        u = rng.random()
        if u < 0.52:
            # ---- seeded reproducibility ------------------------------------------------------------
            dist = rng.choice(pool)
            shape = A.rand_shape(rng, maxnd=3, maxlen=6)
            api = rng.choice(_apis(dist))
            sv, sk = _seed_desc(rng, api)
            d = {"k": "seeded", "api": api, "dist": dist, "P": _params(rng, dist), "shape": list(shape),
                 "chunks": _chunk_desc(rng, shape), "seed": sv, "skind": sk,
                 "sched": "processes" if rng.random() < 1 / 15 else "threads"}
            if dist in WRAPPED:
                _wrapped_extras(rng, d, dist, api, shape)
            if dist == "choice":
                d["pop"] = _population(rng)
                d["p"] = rng.random() < 0.4
                _choice_extras(rng, d, api, shape)
            if dist == "permutation":
                d.update(_perm_input(rng))
            # STATE: other arrays drawn from the same generator object before this one (and a refused call)
            if rng.random() < 0.35:
                d["pre"] = [rng.choice(([3, 2], [1, 1], [5, 5], [4, 3], "fail", [0, 1])) for _ in range(rng.randint(1, 3))]
            yield d
        elif u < 0.76:
            # ---- unseeded pairs -----------------------------------------------------------------------
            dist = rng.choice(upool)
            shape = A.rand_shape(rng, maxnd=3, maxlen=6)
            modes = {"gen": ("default_rng-twice", "default_rng-twice", "one-generator-twice"),
                     "rs": ("RandomState-twice", "one-RandomState-twice"), "mod": ("module", "module")}
            mode = rng.choice([m for a in sorted(set(_apis(dist))) for m in modes[a]])
            api = {"module": "mod", "default_rng-twice": "gen", "one-generator-twice": "gen", "RandomState-twice": "rs",
                   "one-RandomState-twice": "rs"}[mode]
            d = {"k": "unseeded", "mode": mode,
                 "dist": dist, "P": _params(rng, dist), "shape": list(shape), "chunks": _chunk_desc(rng, shape),
                 "sched": rng.choice(("sync", "threads", "threads")), "i": i}
            if dist in WRAPPED:
                _wrapped_extras(rng, d, dist, api, shape)
            if dist == "choice":
                d["pop"] = _population(rng)
                d["p"] = rng.random() < 0.3
                _choice_extras(rng, d, api, shape)
            if dist == "permutation":
                d.update(_perm_input(rng))
            yield d
        elif u < 0.93:
            # ---- choice without replacement ---------------------------------------------------------
            pop = _population(rng)
            n_pop = pop["n"]
            v = rng.random()
            if v < 0.12:
                size = [n_pop + rng.randint(1, 3)]
            elif v < 0.3:
                size = [n_pop]
            elif v < 0.75 or n_pop < 2:
                size = [rng.randint(0, n_pop)]
            else:
                a = rng.randint(1, max(1, n_pop // 2))
                size = [a, rng.randint(1, max(1, n_pop // a))]
                if n_pop >= 6 and rng.random() < 0.7:
                    # 3-d sample: only the last axis (or a middle one) may be split below
                    b_ = rng.randint(1, max(1, n_pop // (a * 2)))
                    size = [a, b_, max(1, n_pop // (a * b_))]
            form = "int" if len(size) == 1 and rng.random() < 0.5 else ("list" if rng.random() < 0.15 else "tuple")
            if rng.random() < 0.05:
                size, form = [], "none"
            ch = [[s] for s in size]
            splittable = [ax for ax, s in enumerate(size) if s >= 2]
            if rng.random() < (0.5 if len(size) > 1 else 0.2) and splittable:
                ax = rng.choice(splittable)
                ch[ax] = list(A.rand_comp(rng, size[ax], flavour=rng.choice(("two", "ones", "irregular"))))
            yield {"k": "choice", "api": rng.choice(("gen", "gen", "rs", "mod")), "pop": pop, "size": size, "form": form,
                   "p": rng.random() < 0.4, "pform": rng.choice(("np", "np", "list", "da")), "pseed": rng.randrange(2 ** 16), "c": ch, "cform": rng.choice(("explicit", "explicit", "auto", "-1")),
                   "seed": rng.choice((None, 0, rng.randrange(2 ** 32))), "shuffle": rng.random() < 0.8,
                   "sched": rng.choice(("sync", "threads"))}
        else:
            d = {"k": "perm", "api": rng.choice(("gen", "gen", "rs", "mod")), "seed": rng.choice((None, 0, rng.randrange(2 ** 32))),
                 "sched": rng.choice(("sync", "threads"))}
            d.update(_perm_input(rng))
            yield d


def _choice_extras(rng, d, api, shape):
    """with-replacement choice inside the seeded / unseeded families: forms of p and size, the axis / shuffle keywords"""
    d["pform"] = rng.choice(("np", "list", "da", "da"))
    if len(shape) == 1 and rng.random() < 0.3:
        d["sform"] = "int"
    elif not shape and rng.random() < 0.5:
        d["sform"] = "none"
    if api == "gen" and rng.random() < 0.3:
        d["ckw"] = rng.choice(("axis", "shuffle", "both"))


def _population(rng):
    n = rng.choice((1, 2, 3, 4, 5, 6, 8, 12, 20, 20, 300))
    kind = rng.choice(("int", "int", "numpy", "dask", "list"))
    d = {"kind": kind, "n": n, "dtype": rng.choice(("int64", "float64", "int8")), "mult": rng.choice((1, 3, -2))}
    if kind == "dask":
        d["c"] = list(A.rand_comp(rng, n))
    return d


def _perm_input(rng):
    if rng.random() < 0.3:
        return {"x": {"kind": "int", "n": rng.choice((0, 1, 2, 5, 9, 300))}}
    shape = A.rand_shape(rng, maxnd=3, maxlen=7, minnd=1)
    c = [list(c) for c in A.rand_chunks(rng, shape)]
    if shape[0] >= 4 and rng.random() < 0.7:
        c[0] = _irr3(rng, shape[0])
    # numpy / list: NumPy's documented array_like input (a dask array is the usual one)
    return {"x": {"kind": rng.choice(("dask", "dask", "dask", "dask", "numpy", "list")), "shape": list(shape), "c": c,
                  "dup": rng.random() < 0.3}}


# ---------------------------------------------------------------------------------------------
# builders
# ---------------------------------------------------------------------------------------------

def _proc_pool():
    if "p" not in _POOL:
        import multiprocessing
        from concurrent.futures import ProcessPoolExecutor

        _POOL["p"] = ProcessPoolExecutor(1, mp_context=multiprocessing.get_context("spawn"))
    return _POOL["p"]


def shard_finish():
    p = _POOL.pop("p", None)
    if p is not None:
        p.shutdown(wait=True, cancel_futures=True)
    return {}


def _compute(arrs, sched):
    import dask

    if sched == "processes":
        return dask.compute(*arrs, scheduler="processes", pool=_proc_pool())
    if sched == "threads":
        return dask.compute(*arrs, scheduler="threads", num_workers=4)
    return dask.compute(*arrs, scheduler="sync")


def _pop_value(pop):
    import dask.array as da

    if pop["kind"] == "int":
        return pop["n"], np.arange(pop["n"])
    # pairwise distinct members (a long population does not fit into int8)
    vals = (np.arange(pop["n"]) * pop["mult"] + 7).astype(pop["dtype"] if pop["n"] <= 40 else "int64")
    if pop["kind"] == "numpy":
        return vals, vals
    if pop["kind"] == "list":
        return vals.tolist(), np.asarray(vals.tolist())
    return da.from_array(vals, chunks=(tuple(pop["c"]),)), vals


def _p_vector(n, pseed, need):
    r = np.random.default_rng(pseed)
    p = r.random(n) + 0.05
    need = max(need, 1)
    if n > need and r.random() < 0.4:   # some zero-probability members, still enough non-zero ones
        z = r.choice(n, size=min(n - need, max(1, n // 3)), replace=False)
        p[z] = 0
    return p / p.sum()


def _perm_value(x):
    import dask.array as da

    if x["kind"] == "int":
        return x["n"], np.arange(x["n"])
    n = int(np.prod(x["shape"])) if x["shape"] else 1
    vals = np.arange(n).reshape(x["shape"])
    if x.get("dup"):
        vals = vals // 2
    if x["kind"] == "numpy":
        return vals, vals
    if x["kind"] == "list":
        if 0 in x["shape"] and len(x["shape"]) > 1:
            return vals, vals          # a nested list cannot express a zero-length axis next to other axes
        return vals.tolist(), vals
    return da.from_array(vals, chunks=A.chunks_of_desc(x["c"])), vals


def _generator(api, seed, skind="int"):
    """A fresh generator object; seed None = unseeded.  skind = the documented form in which the seed is handed over."""
    import dask.array as da

    if seed is None:
        if api == "gen":
            return da.random.default_rng()
        if api == "rs":
            return da.random.RandomState()
        return da.random
    arr = [seed % 1000, 7, seed % 2 ** 31]
    if api == "gen":
        if skind == "bigint":
            return da.random.default_rng(seed + 2 ** 70)
        if skind == "array":
            return da.random.default_rng(arr)
        if skind == "seedseq":
            return da.random.default_rng(np.random.SeedSequence(seed))
        if skind.startswith("bitgen-"):
            return da.random.default_rng(getattr(np.random, skind[7:])(seed))
        if skind == "npgen":
            return da.random.default_rng(np.random.default_rng(seed))
        return da.random.default_rng(seed)
    if api == "rs":
        if skind == "array":
            return da.random.RandomState(arr)
        if skind == "reseed":
            # an object that was created unseeded, used, and then re-seeded through its seed() method
            g = da.random.RandomState()
            g.random_sample(size=(3,), chunks=2)
            g.seed(seed)
            return g
        return da.random.RandomState(seed)
    da.random.seed(arr if skind == "array" else seed)
    return da.random        # module-level functions (RandomState API)


def _pre(g, api, pre):
    """STATE: arrays drawn earlier from the same generator object (built, never computed) and refused calls"""
    for it in pre or ():
        meth = getattr(g, "random" if api == "gen" else "random_sample")
        if it == "fail":
            try:
                meth(size=(2,), chunks=((3,),))
            except ValueError:
                pass
        else:
            meth(size=(it[0],), chunks=max(it[1], 1))


def _arr_shape(case):
    ar = case["arr"]
    shp = list(case["shape"][ar["drop"]:])
    for i, one in enumerate(ar.get("ones") or ()):
        if one and i < len(shp):
            shp[i] = 1
    return tuple(shp)


def _array_param(case, pname, value, size):
    """the array-valued form of one distribution parameter: NumPy or dask array over the trailing axes of size,
    optionally with length-1 axes (broadcast), values = value + a small per-element offset that keeps the
    parameter valid"""
    import dask.array as da

    ar = case["arr"]
    dist = case["dist"]
    shp = _arr_shape(case)
    base = np.arange(int(np.prod(shp)) if shp else 1).reshape(shp) % 3
    if isinstance(value, int) and not isinstance(value, bool):
        if pname == "nsample":
            arr0 = (value - base).astype("int64")
        elif pname == "low":
            arr0 = (base + value).astype("int64")
            hi = case["P"].get("high")
            if hi is not None and dist == "integers":
                arr0 = np.minimum(arr0, hi - 1)
            elif hi is not None:
                arr0 = np.minimum(arr0, hi)
        else:
            arr0 = (base + value).astype("int64")
        if case.get("idtype"):
            arr0 = arr0.astype(case["idtype"])
    elif pname == "p":
        arr0 = value + base * 0.02
    elif pname in ("left",):
        arr0 = value - base * 0.25
    elif pname in ("mode",):
        arr0 = value + base * 0.125
    else:
        arr0 = base * 0.25 + value
    if ar["kind"] == "da":
        r = random.Random(ar["c"])
        arr0 = da.from_array(arr0, chunks=A.rand_chunks(r, shp))
    return arr0


def _draw(g, api, case):
    """Build one random array from generator object g as the case describes."""
    import dask.array as da

    dist = case["dist"]
    gname, rsname, pnames, _ = DISTS[dist]
    meth = getattr(g, gname if api == "gen" else rsname)
    size = tuple(case["shape"])
    ck = _chunks_arg(case["chunks"])
    sform = case.get("sform", "tuple")
    size_arg = None if sform == "none" else (size[0] if sform == "int" else (list(size) if sform == "list" else size))
    if dist == "permutation":
        return meth(_perm_value(case["x"])[0])
    if dist == "choice":
        a, _ = _pop_value(case["pop"])
        p = _p_form(_p_vector(case["pop"]["n"], 5, 0), case.get("pform", "np")) if case.get("p") else None
        kw = {}
        if case.get("ckw") in ("axis", "both"):
            kw["axis"] = 0
        if case.get("ckw") in ("shuffle", "both"):
            kw["shuffle"] = False
        return meth(a, size=size_arg, replace=case.get("replace", True), p=p, chunks=ck, **kw)
    P = dict(case["P"])
    args = [P[k] for k in pnames]
    if case.get("hnone"):
        args = args[:1]
    if case.get("arr") and args:
        i = min(case["arr"].get("pos", 0), len(args) - 1)
        args[i] = _array_param(case, pnames[i], args[i], size)
    kw = {}
    if case.get("f32"):
        kw["dtype"] = np.float32
    if case.get("endpoint"):
        kw["endpoint"] = True
    if case.get("idtype"):
        kw["dtype"] = case["idtype"]
    if case.get("kwform"):
        kw.update(dict(zip(pnames, args)))
        args = []
    return meth(*args, size=size_arg, chunks=ck, **kw)


def _p_form(p, form):
    import dask.array as da

    if form == "list":
        return p.tolist()
    if form == "da":
        return da.from_array(p, chunks=max(1, len(p) // 2))       # several blocks when the population has >= 2 members
    return p


def _wrap_exception(ctx, ex, case, api, pre):
    """dask raised while building / computing a wrapped distribution: one label per mechanism"""
    dist = case["dist"]
    arr = case.get("arr")
    if dist == "permutation" and case["x"]["kind"] in ("numpy", "list"):
        # one mechanism for both APIs: x is handed to shuffle_slice as it is
        ctx.exception(ex, prefix="permutation:array-like-input")
    elif arr and 0 in _arr_shape(case):
        # one mechanism: _wrap_func indexes element 0 of every array-valued parameter
        ctx.violation("wrap:zero-size-array-param:%s" % type(ex).__name__, "%s: %s" % (type(ex).__name__, str(ex)[:300]),
                      api=api, dist=dist, param_kind=arr["kind"])
    elif arr and dist == "integers" and api == "gen" and DISTS[dist][2][min(arr.get("pos", 0), 1)] == "high" and not case.get("hnone"):
        # one mechanism: `high` reaches _wrap_func as a keyword and array-valued keywords are put into the graph in a
        # form that is never resolved (NumPy and dask arrays, every chunking, every scheduler)
        ctx.violation("wrap:Generator.integers:array-valued-high:%s" % type(ex).__name__, "%s: %s" % (type(ex).__name__, str(ex)[:300]),
                      param_kind=arr["kind"], family=case["k"])
    elif dist == "multivariate_hypergeometric":
        # one mechanism: the result has a trailing axis of len(colors) that the wrapper does not declare (a one-block
        # result computes with a shape that contradicts the lazy one, several blocks cannot be assembled)
        ctx.violation("wrap:multivariate_hypergeometric:result-axis-not-declared", "%s: %s" % (type(ex).__name__, str(ex)[:300]),
                      family=case["k"])
    else:
        ctx.exception(ex, prefix=pre)


def _count_classes(ctx, case, api, a):
    """Input classes of the parameter audit (floored: a generator change that loses a class is INCONCLUSIVE)"""
    dist = case["dist"]
    fam = case["k"]
    multi = A.has_split(a.chunks)
    ctx.distinct("api_dist_blocks", (_apiname(api), dist, "multi" if multi else "single"))
    if any(_is_irr3([c for c in cs if c == c]) for cs in a.chunks):
        ctx.count("layout_irregular_ge3_blocks")
        ctx.distinct("irregular3_api_family", (_apiname(api), _family(dist)))
    if any(c > 255 for cs in a.chunks for c in cs if c == c):
        ctx.count("layout_block_over_255")
    if case["chunks"]["t"] in ("tuple", "-1", "bytes", "dict"):
        ctx.count("chunks_form_" + case["chunks"]["t"])
    if dist not in OLD:
        ctx.count("dist_added_by_audit")
    arr = case.get("arr")
    if arr:
        ctx.count("array_param_not_first" if arr.get("pos", 0) else "array_param_first")
        if any(arr.get("ones") or ()):
            ctx.count("array_param_broadcast_len1")
    if case.get("sform") in ("int", "list", "none"):
        ctx.count("size_form_" + case["sform"])
    if case.get("kwform"):
        ctx.count("params_by_keyword")
    if case.get("idtype"):
        ctx.count("integers_dtype")
    if case.get("hnone"):
        ctx.count("integers_one_argument")
    if case.get("endpoint"):
        ctx.count("integers_endpoint")
    if fam == "seeded":
        if case.get("skind", "int") != "int":
            ctx.count("seed_form_not_int")
            ctx.distinct("seed_forms", (api, case["skind"]))
        if case.get("pre"):
            ctx.count("generator_used_before")
            if "fail" in case["pre"]:
                ctx.count("generator_refused_call_before")
    if dist == "choice":
        if case.get("p") and case.get("pform") in ("list", "da"):
            ctx.count("choice_p_" + case["pform"])
        if case.get("ckw"):
            ctx.count("choice_axis_shuffle_keywords")


def _family(dist):
    return dist if dist in ("choice", "permutation") else "wrap"


def _apiname(api):
    # the module-level functions are methods of one cached RandomState: same code path, same label (mode is in the detail)
    return {"gen": "Generator", "rs": "RandomState", "mod": "RandomState"}[api]


def _top_keys(a):
    from dask.core import flatten

    return set(flatten(a.__dask_keys__()))


# ---------------------------------------------------------------------------------------------
# run
# ---------------------------------------------------------------------------------------------

def run_case(case, ctx):
    with warnings.catch_warnings():
        warnings.simplefilter("ignore")
        k = case["k"]
        if k == "seeded":
            _run_seeded(case, ctx)
        elif k == "unseeded":
            _run_unseeded(case, ctx)
        elif k == "choice":
            _run_choice(case, ctx)
        else:
            _run_perm(case, ctx)


def _run_seeded(case, ctx):
    api, dist = case["api"], case["dist"]
    ctx.op("seeded:%s.%s" % (_apiname(api), dist))
    pre = "seeded:%s:%s" % (_apiname(api), _family(dist))
    def build(c):
        g = _generator(api, c["seed"], c.get("skind", "int"))
        _pre(g, api, c.get("pre"))
        return _draw(g, api, c)

    try:
        a1 = build(case)
        a2 = build(case)
        (v1,) = _compute([a1], "sync")
        (v1b,) = _compute([a1], "sync")
        (v2,) = _compute([a2], case["sched"])
    except NotImplementedError as ex:
        ctx.unsupported(str(ex))
        return
    except Exception as ex:  # noqa: BLE001
        _wrap_exception(ctx, ex, case, api, pre)
        return
    ctx.nontrivial = A.has_split(a1.chunks)
    ctx.count("seeded_compared")
    ctx.count("seeded_" + case["sched"])
    ctx.distinct("seeded_api_dist", (api, dist))
    m = compare_arrays(v1b, v1, exact=True)
    if m:
        ctx.violation("recompute:%s:%s:%s" % (_apiname(api), _family(dist), m[0]), m[1], name=a1.name, seeded=True)
    m = compare_arrays(v2, v1, exact=True)
    if m:
        ctx.violation("%s:rebuilt:%s" % (pre, m[0]), m[1], names=[a1.name, a2.name], scheduler=case["sched"],
                      array_param=bool(case.get("arr")))
    if tuple(np.shape(v1)) != tuple(a1.shape):
        if dist == "multivariate_hypergeometric":
            ctx.violation("wrap:multivariate_hypergeometric:result-axis-not-declared", "computed shape %s, lazy %s" % (np.shape(v1), a1.shape))
        else:
            ctx.violation("%s:lazy-shape" % pre, "computed shape %s, lazy %s" % (np.shape(v1), a1.shape))
    if a1.name == a2.name:
        ctx.count("seeded_same_name")
    _count_classes(ctx, case, api, a1)
    ctx.sample = {"dist": dist, "api": api, "chunks": str(a1.chunks), "sched": case["sched"], "same_name": a1.name == a2.name}
    # ---- sibling facet: same seed, ONE other distribution parameter / size / chunking / dtype: the arrays hold different
    # draws and must not share keys.  Only for draws that are a function of the graph (seeded AND recomputation agreed);
    # permutation is named from (x, index).
    if dist not in ("permutation",) and compare_arrays(v1b, v1, exact=True) is None:
        sib = _sibling(case, single=not A.has_split(a1.chunks))
        if sib is not None:
            param, c2 = sib
            S.check(ctx, "seeded:%s:%s" % (_apiname(api), _family(dist)), param, a1,
                    (lambda: build(c2)), va=v1,
                    describe={k: v for k, v in c2.items() if case.get(k) != v})


_TWEAK = {"loc": lambda v: v + 1.0, "scale": lambda v: v * 2.0, "low": lambda v: v - 1, "high": lambda v: v + 1,
          "lam": lambda v: v + 1.0, "n": lambda v: v + 1, "p": lambda v: 0.25 if v == 0.5 else 0.5, "shape": lambda v: v + 1.0,
          "a": lambda v: v + 1.0, "b": lambda v: v + 1.0, "df": lambda v: v + 1.0,
          "dfnum": lambda v: v + 1.0, "dfden": lambda v: v + 1.0, "nonc": lambda v: v + 1.0, "mean": lambda v: v + 1.0,
          "sigma": lambda v: v * 2.0, "ngood": lambda v: v + 1, "nbad": lambda v: v + 1, "nsample": lambda v: v - 1,
          "pvals": lambda v: ([0.25, 0.75] if len(v) == 1 else list(v[1:]) + list(v[:1])) if len(set(v)) != 1 or len(v) == 1 else [0.9] + [0.1 / (len(v) - 1)] * (len(v) - 1),
          "colors": lambda v: [v[0] + 1] + list(v[1:]), "left": lambda v: v - 1.0, "mode": lambda v: v + 0.25,
          "right": lambda v: v + 1.0, "mu": lambda v: v + 1.0, "kappa": lambda v: v + 1.0}


def _sibling(case, single=False):
    """(parameter, seeded case with that ONE parameter changed) or None"""
    dist, api = case["dist"], case["api"]
    shape = list(case["shape"])
    srng = S.rng_for(case)
    c2 = dict(case)
    opts = []
    if case["P"]:
        opts += ["param", "param"]
    if shape:
        opts.append("size")
    if case["chunks"]["t"] == "explicit" and any(n >= 2 for n in shape):
        opts.append("chunks")
    if dist == "random" and api == "gen":
        opts.append("dtype")
    if dist == "integers" and api == "gen":
        opts.append("endpoint")
    if dist == "choice":
        opts += ["p", "replace"] if single else ["p"]
    if case.get("idtype"):
        opts.append("integers-dtype")
    if case.get("arr"):
        opts += ["array-parameter", "array-parameter"]
    if not opts:
        return None
    what = srng.choice(opts)
    if what == "array-parameter":
        # the same array-valued parameter with other values (dask or NumPy array: it has to reach the name)
        pn = DISTS[dist][2][min(case["arr"].get("pos", 0), len(DISTS[dist][2]) - 1)]
        if pn in ("low", "nsample") or case.get("hnone"):
            what = "param"
        else:
            c2["P"] = dict(case["P"], **{pn: _TWEAK[pn](case["P"][pn])})
            return "array-valued-parameter", c2
    if what == "integers-dtype":
        c2["idtype"] = srng.choice([t for t in ("int8", "uint8", "int32", "uint64", "int16") if t != case["idtype"]])
        return "dtype", c2
    if what == "replace":
        # without replacement needs a one-block sample that fits into the population
        n_el = int(np.prod(shape)) if shape else 1
        if n_el > case["pop"]["n"] or case.get("p") or case.get("sform") == "none":
            what = "p"
        else:
            c2["replace"] = False
            return "replace", c2
    if what == "param":
        keys = sorted(k for k in case["P"] if case["P"][k] is not None)
        if case.get("arr") and dist in ("integers", "random_integers"):
            keys = ["high"]        # the array-valued `low` is built below `high`
        if case.get("hnone"):
            keys = ["low"]
        if dist == "hypergeometric" and case.get("arr"):
            keys = ["ngood", "nbad"]
        if dist == "triangular":
            keys = ["right"] if case.get("arr") else ["left", "right"]
        if dist == "multinomial" and len(case["P"]["pvals"]) == 1:
            keys = ["n"]                # pvals = [1.0]: every count is n whatever else changes
        k = srng.choice(keys)
        c2["P"] = dict(case["P"], **{k: (case["P"][k] + 1) if case.get("hnone") else _TWEAK[k](case["P"][k])})
        # one label for all of loc/scale/low/high/lam/n/p/a/b/df/shape: they reach the name through one token (_wrap_func);
        # which parameter was changed is in the witness detail
        return "distribution-parameter", c2
    if what == "size":
        ax = srng.randrange(len(shape))
        shape[ax] += 1
        c2["shape"] = shape
        if case["chunks"]["t"] == "explicit":
            v = [list(c) for c in case["chunks"]["v"]]
            v[ax][-1] += 1
            c2["chunks"] = {"t": "explicit", "v": v}
        return "size", c2
    if what == "chunks":
        for _ in range(8):
            v = [list(c) for c in A.rand_chunks(srng, shape)]
            if v != case["chunks"]["v"]:
                c2["chunks"] = {"t": "explicit", "v": v}
                return "chunks", c2
        return None
    if what == "dtype":
        c2["f32"] = not case.get("f32")
        return "dtype", c2
    if what == "endpoint":
        c2["endpoint"] = not case.get("endpoint")
        return "endpoint", c2
    c2["p"] = not case.get("p")
    return "p", c2


def _run_unseeded(case, ctx):
    mode, dist = case["mode"], case["dist"]
    api = {"module": "mod", "default_rng-twice": "gen", "one-generator-twice": "gen", "RandomState-twice": "rs",
           "one-RandomState-twice": "rs"}[mode]
    ctx.op("unseeded:%s.%s" % (mode, dist))
    pre = "unseeded-pair:%s:%s" % (_apiname(api), _family(dist))
    try:
        g1 = _generator(api, None)
        g2 = g1 if mode.startswith("one-") or mode == "module" else _generator(api, None)
        a = _draw(g1, api, case)
        b = _draw(g2, api, case)
    except NotImplementedError as ex:
        ctx.unsupported(str(ex))
        return
    except Exception as ex:  # noqa: BLE001
        _wrap_exception(ctx, ex, case, api, pre)
        return
    ctx.nontrivial = A.has_split(a.chunks)
    ctx.count("unseeded_pairs")
    _count_classes(ctx, case, api, a)
    ctx.distinct("unseeded_mode_dist", (mode, dist))
    # Calibration: permutation(x) is x[index] with a host-side index; its name is a function of (x, index), so two
    # unseeded permutations share a name exactly when they drew the same index (certain for len(x) <= 1)
    named = dist != "permutation"
    if named and a.name == b.name:
        # shared keys and mixed-up results when computed together follow from the shared name: one label
        ctx.violation(pre + ":same-name", "both arrays are named %s" % a.name, mode=mode, dist=dist)
        return
    shared = _top_keys(a) & _top_keys(b) if named else ()
    if shared:
        ctx.violation(pre + ":shared-keys", "%d top-level keys shared, e.g. %r" % (len(shared), sorted(map(str, shared))[:2]),
                      mode=mode, dist=dist)
    try:
        ra, rb = _compute([a, b], case["sched"])
        (va,) = _compute([a], "sync")
        (vb,) = _compute([b], "sync")
        (va2,) = _compute([a], case["sched"])
    except Exception as ex:  # noqa: BLE001
        _wrap_exception(ctx, ex, case, api, pre)
        return
    m = compare_arrays(va2, va, exact=True)
    if m:
        # the draw is not baked into the graph: comparing "together" with "alone" has no meaning then
        ctx.violation("recompute:%s:%s:%s" % (_apiname(api), _family(dist), m[0]), m[1], name=a.name, seeded=False)
        return
    for nm, together, alone in (("first", ra, va), ("second", rb, vb)):
        ctx.count("together_vs_alone")
        m = compare_arrays(together, alone, exact=True)
        if m and not shared and a.name != b.name:
            # disjoint graphs: a difference between two computations of one array can only be a draw that is not
            # baked into the graph, i.e. the recomputation mechanism
            ctx.violation("recompute:%s:%s:%s" % (_apiname(api), _family(dist), m[0]), "%s array, computed together vs alone: %s" % (nm, m[1]),
                          name=a.name, seeded=False)
            break
        if m:
            ctx.violation(pre + ":computed-together-differs:" + m[0], "%s array: %s" % (nm, m[1]), names=[a.name, b.name],
                          together=np.asarray(together).ravel()[:6], alone=np.asarray(alone).ravel()[:6])
    if DISTS[dist][3] and np.size(va) >= 4:
        ctx.count("own_draw_checked")
        if np.array_equal(va, vb):
            ctx.violation(pre + ":identical-draws", "two unseeded arrays hold the same %d values" % np.size(va),
                          names=[a.name, b.name], values=np.asarray(va).ravel()[:6])
    ctx.sample = {"mode": mode, "dist": dist, "names": [a.name[:24], b.name[:24]], "chunks": str(a.chunks)}


def _run_choice(case, ctx):
    api = case["api"]
    pop = case["pop"]
    size = tuple(case["size"])
    n_pop = pop["n"]
    want = int(np.prod(size)) if size else 1
    ctx.op("choice-noreplace:%s" % _apiname(api))
    multi = any(len(c) > 1 for c in case["c"])
    split = "single-chunk" if not multi else ("split-axis0" if len(case["c"][0]) > 1 else "split-later-axis")
    pre = "choice-noreplace:%s:%s" % (_apiname(api), split)
    a, members = _pop_value(pop)
    p = _p_vector(n_pop, case["pseed"], min(want, n_pop)) if case["p"] else None
    size_arg = None if case["form"] == "none" else (size[0] if case["form"] == "int" else (list(size) if case["form"] == "list" else size))
    if multi or case["cform"] == "explicit":
        ck = tuple(tuple(c) for c in case["c"])
    else:
        ck = "auto" if case["cform"] == "auto" else -1
    # ---- reference -------------------------------------------------------------------------------
    ref_err = None
    try:
        npg = np.random.default_rng(0) if api == "gen" else np.random.RandomState(0)
        npg.choice(members if pop["kind"] != "int" else n_pop, size=size_arg, replace=False, p=p)
    except Exception as ex:  # noqa: BLE001
        ref_err = ex
    try:
        g = _generator(api, case["seed"])
        kw = {"shuffle": False} if (api == "gen" and not case["shuffle"]) else {}
        pd = _p_form(p, case.get("pform", "np")) if p is not None else None
        r = g.choice(a, size=size_arg, replace=False, p=pd, chunks=ck, **kw)
        (v,) = _compute([r], case["sched"])
        v_again = None
        if case["seed"] is not None:
            # seeded: the sample without replacement is reproducible from a fresh generator as well
            r2 = _generator(api, case["seed"]).choice(_pop_value(pop)[0], size=size_arg, replace=False,
                                                      p=_p_form(p, case.get("pform", "np")) if p is not None else None, chunks=ck, **kw)
            (v_again,) = _compute([r2], "sync")
    except NotImplementedError as ex:
        ctx.unsupported(str(ex))
        if multi:
            # the documented refusal of a multi-block sample, seen on every API path / population kind / split axis
            ctx.distinct("choice_noreplace_refused_paths", (_apiname(api), "int" if pop["kind"] == "int" else "array", split))
        return
    except Exception as ex:  # noqa: BLE001
        if ref_err is not None:
            ctx.count("choice_both_raise")
            ctx.reject("numpy: %s: %s" % (type(ref_err).__name__, ref_err))
            return
        if size_arg is None:
            # one mechanism for all three APIs (shared validation helper): 0-d output
            ctx.exception(ex, prefix="choice-noreplace:size=None")
        else:
            ctx.exception(ex, prefix=pre)
        return
    v = np.asarray(v)
    ctx.count("choice_checked")
    ctx.distinct("choice_noreplace_paths", (_apiname(api), "int" if pop["kind"] == "int" else "array", split, bool(case["p"])))
    if pop["kind"] == "int":
        ctx.count("choice_noreplace_int_population_" + _apiname(api))
    if n_pop > 255:
        ctx.count("choice_noreplace_population_over_255")
    if len(size) >= 3:
        ctx.count("choice_noreplace_3d")
    if p is not None and case.get("pform") in ("list", "da"):
        ctx.count("choice_noreplace_p_" + case["pform"])
    if v_again is not None:
        ctx.count("choice_noreplace_rebuilt")
        m = compare_arrays(np.asarray(v_again), v, exact=True)
        if m:
            ctx.violation("seeded:%s:choice-noreplace:rebuilt:%s" % (_apiname(api), m[0]), m[1], scheduler=case["sched"])
    ctx.nontrivial = want >= 2
    if want > n_pop:
        ctx.violation(pre + ":size>population:no-error", "returned %d elements from a population of %d" % (v.size, n_pop))
        return
    if ref_err is not None:
        ctx.reject("numpy: %s: %s" % (type(ref_err).__name__, ref_err))
        return
    if v.shape != size:
        ctx.violation(pre + ":shape", "shape %s, requested %s" % (v.shape, size))
    if tuple(r.shape) != size:
        ctx.violation(pre + ":lazy-shape", "lazy shape %s, requested %s" % (r.shape, size))
    flat = v.ravel()
    if not np.isin(flat, members).all():
        ctx.violation(pre + ":not-in-population", "values %s not all in %s" % (flat[:10], members[:10]))
    if len(np.unique(flat)) != flat.size:
        ctx.violation(pre + ":duplicates", "%d elements, %d distinct: %s" % (flat.size, len(np.unique(flat)), flat[:12]))
    ctx.distinct("choice_forms", (api, pop["kind"], case["form"], bool(case["p"]), len(size)))
    ctx.sample = {"population": n_pop, "size": list(size), "p": bool(case["p"]), "result": flat[:8].tolist()}


def _run_perm(case, ctx):
    api = case["api"]
    ctx.op("permutation:%s" % _apiname(api))
    kind = case["x"]["kind"]
    pre = "permutation:%s:%s" % (_apiname(api), kind) if kind in ("int", "dask") else "permutation:array-like-input"
    x, vals = _perm_value(case["x"])
    if kind in ("numpy", "list"):
        ctx.count("permutation_array_like_input")      # counted when attempted: the class is floored, not its success
    try:
        g = _generator(api, case["seed"])
        r = g.permutation(x)
        (v,) = _compute([r], case["sched"])
    except NotImplementedError as ex:
        ctx.unsupported(str(ex))
        return
    except Exception as ex:  # noqa: BLE001
        ctx.exception(ex, prefix=pre)
        return
    v = np.asarray(v)
    ctx.count("permutation_checked")
    ctx.nontrivial = A.has_split(r.chunks) or (case["x"]["kind"] == "dask" and A.has_split(A.chunks_of_desc(case["x"]["c"])))
    if any(_is_irr3(cs) for cs in r.chunks):
        ctx.count("permutation_irregular_ge3_blocks")
    if v.shape != vals.shape:
        ctx.violation(pre + ":shape", "shape %s, input %s" % (v.shape, vals.shape))
        return
    w = int(np.prod(v.shape[1:]))
    rows_v = sorted(map(tuple, v.reshape(len(v), w).tolist())) if v.ndim else []
    rows_x = sorted(map(tuple, vals.reshape(len(vals), w).tolist())) if vals.ndim else []
    if rows_v != rows_x:
        ctx.violation(pre + ":not-a-permutation", "rows %s vs input rows %s" % (rows_v[:6], rows_x[:6]))
    ctx.sample = {"input": case["x"], "result": v.ravel()[:8].tolist()}
