"""C11 — equal task nodes compute equal values.

Monitor.  A case is one random *base term* (harness term language of
``vf/gen/c08_legacy.py``: calls with tagged, order-sensitive functions, keyword
arguments, nested List/Tuple/Set/Dict containers, nested ``Task(None, ..)``, TaskRef /
Alias references to named keys, raw literals and DataNode-wrapped literals) and a batch
of *derived terms*: argument permutation, element permutation inside a container,
re-nesting, Dict value re-pairing and key<->value swap, Dict pair reordering, keyword value
swap / rename, function swap, reference renaming and swapping, List<->Tuple<->Set container
type, literal vs reference to a same-named key, literal change (``1``/``True``/``1.0``),
DataNode wrapping, argument drop / duplication, node key change — plus identical rebuilds,
``copy()`` and pickle / cloudpickle round trips of the base node.

Both terms of a pair are built with the real task-spec classes (as a keyed ``Task`` /
``Alias`` / ``DataNode`` or as a bare ``List/Tuple/Set/Dict`` node).  The monitor reads
``a == b``, ``tokenize(a) == tokenize(b)`` and ``hash(a) == hash(b)`` and, whenever ``a == b`` or
the tokens agree, evaluates both nodes (``node(values)``) on the same 3 random assignments
of distinct values to the referenced keys; the results must be equal (``==``, with
list/tuple/dict/set container types distinguished).  That is exactly the statement; pairs
that are unequal with different tokens are only counted.  Identical rebuilds and round
trips are the guaranteed-positive pairs: how many of them were equal is a floor-guarded
counter (a monitor that never sees an equal pair gives INCONCLUSIVE), not a verdict —
the statement does not promise that identical constructions are equal.

Second family ("method" cases): the derived node is made by the node's OWN methods from one
source node — ``substitute`` (reference rename / swap / swap with an unreferenced key / rename there
and back / rename after a pickle round trip or a ``copy()`` / inlining a DataNode or a Task for a key,
with and without ``key=``), no-op substitutions, ``substitute({}, key=..)``, ``copy()``, pickle /
cloudpickle, and ``GraphNode.fuse(producer, node)`` before vs after a substitution — either AFTER the
source node's token has been computed and cached (by a random one of ``hash(a)``, ``tokenize(a)``,
``a == rebuild``, tokenizing an enclosing Task / List / python tuple) or BEFORE any token exists
(control).  Same oracle; each pair is also judged inside freshly built enclosing ``Task`` / ``List`` nodes.
The source may be a keyed Task, a bare List/Tuple/Set/Dict holding nested Tasks, an Alias or a DataNode.

Third family ("samecode" cases): functions that share ONE code object and differ only in what is bound around it —
``__defaults__`` (the ``[lambda x, k=k: .. for k in ..]`` idiom), ``__kwdefaults__``, both, a function attribute the body
reads (``me.tag``), the value of a global the body reads (``types.FunctionType(code, other_globals)``), closure cells,
plus callable instances / bound methods of one class with different state.  Every family holds 3-5 functions over
near-identical bound values (``1``/``True``/``1.0``/``"1"``..) and one exact twin (same code, equal bindings: the
guaranteed-positive pair, counted, not demanded).  Each function is put at the same place of 3-4 node shapes: the
function of a keyed Task, of a ``Task(None, ..)`` nested in a List / Tuple / Dict argument, a keyword value, a positional
callable argument, an element of a List / value of a Dict argument (as positional and as keyword argument), wrapped in
``functools.partial`` or a DataNode, and inside bare List / Dict nodes.  All pairs of one shape get the same oracle.

Label: pairs whose terms are equal up to the order of the elements inside List/Tuple
containers and of the flattened key/value sequence of Dict containers get the single label
of that mechanism; every other alarm is labelled by the derivation that produced the pair.

Calibration (unchanged tree)
----------------------------
* ``List([a, b])`` means ``List(a, b)``: raw container literals inside containers are wrapped in DataNode.
* Set elements must be hashable: a pair whose evaluation raises ``TypeError: unhashable`` in the
  python ``set()`` constructor is skipped (python refuses), counted in ``pairs_python_refuses``.
* ``List(..).copy()`` / ``Dict(..).copy()`` raise (TypeError / AssertionError in ``Task.copy``): ``copy()`` pairs are
  made for Task / Alias / DataNode nodes only; the statement does not speak about ``copy``.
* ``substitute`` is documented for values that are keys or GraphNodes: ``Alias.substitute({'x': TaskRef('y')})`` returns the
  bare TaskRef (not a node, not callable); TaskRef values are not generated.
* same-code functions return the TYPE of the bound value next to the value (``1 == True`` in python, yet two functions
  bound to ``1`` and ``True`` are told apart by their tokens: with a type-blind digest the pair would look like a
  "different identity, equal values" pair and add nothing; with it the monitor sees one more differing pair).  A bound
  method / callable instance pair with equal state is a twin like any other.
* Nodes are compared with ``==`` only against nodes: ``GraphNode.__eq__`` is type-strict, Alias/DataNode
  are unhashable (``__eq__`` without ``__hash__``); hash is read only where it exists.
"""
from __future__ import annotations

import pickle
import random

PROP = "C11"
RULE = ("cases = (seed) -> one random base node term (call / keyword call / bare List, Tuple, Set, Dict / Alias / DataNode, "
        "0-3 referenced keys out of 6 names, nesting depth <= 3) and up to 14 derived terms (21 derivation kinds) plus identical "
        "rebuild, copy, pickle and cloudpickle round trips; each pair is built with the real classes and, when == or tokens "
        "agree, evaluated on 3 random value assignments; non-trivial = the base term has a container or a reference and at "
        "least one derived pair was judged; distinct = distinct base terms; 'method' cases = (seed, order) -> one source node, its "
        "token forced (or not) by one of 6 ways, 8-17 nodes derived by substitute/copy/pickle/fuse, each pair judged bare and "
        "inside an enclosing Task and List; 'samecode' cases = (seed) -> one family of 3-5 functions sharing one code object "
        "(defaults / kwdefaults / both / function attribute / globals binding / closure / callable instance / bound method) "
        "placed in 3-4 of 14 node shapes, all pairs of a shape judged")
ASSUMPTIONS = ["the tagged functions f/g/h digest their arguments order- and type-sensitively, so different arguments give different results",
               "python == on plain values (tuples of strings, lists, dicts, sets) is the equality of results"]
BUDGET = {"quick": 75, "thorough": 600}
FLOORS = {
    # measured on the current tree (quick, 5 seeds): 3800 cases, ~3250 distinct non-trivial; constructor family ~22.7k pairs,
    # ~10k judged, ~600 derived pairs judged; method family 1600 cases, ~22.8k pairs (+ ~44.7k enclosed), ~32k judged,
    # ~35k pairs with different values (the monitor had a chance), ~890 source nodes with a cached token, ~430 fuse pairs
    "quick": {"evaluations": 2200, "distinct_nontrivial": 1800, "max_skipped_fraction": 0.2,
              "counters": {"pairs": 10000, "identical_pairs": 4000, "identical_pairs_equal_and_same_token": 4000,
                           "pairs_judged": 4500, "pairs_judged_equal_values": 4000, "derived_pairs_judged": 250,
                           "pairs_differing_by_container_order_or_pairing_only": 1000, "pairs_different_identity": 4500,
                           "method_cases_tokenized-first": 500, "method_cases_derived-first": 220,
                           "method_pairs": 10000, "method_pairs_tokenized-first": 7000, "method_pairs_derived-first": 3200,
                           "method_enclosed_pairs": 20000, "method_pairs_judged": 14000,
                           "method_pairs_with_different_values_tokenized-first": 10000,
                           "method_pairs_with_different_values_derived-first": 5000,
                           "source_nodes_with_cached_token": 400, "method_fuse_pairs": 190,
                           # samecode family (700 cases): ~13.3k pairs, ~11k with different values (~8k of them in the families
                           # without closure cells / instance state), ~2.2k twin pairs judged (all of them equal)
                           "samecode_pairs": 6000, "samecode_pairs_with_different_values": 5000,
                           "samecode_twin_pairs_judged": 1000, "samecode_pairs_no_closure_different_values": 3500,
                           "samecode_differing_pairs:defaults": 850, "samecode_differing_pairs:kwdefaults": 950,
                           "samecode_differing_pairs:defaults+kwdefaults": 700, "samecode_differing_pairs:function-attribute": 350,
                           "samecode_differing_pairs:globals-binding": 450, "samecode_differing_pairs:closure": 440,
                           "samecode_differing_pairs:callable-instance": 450, "samecode_differing_pairs:bound-method": 400}},
    "thorough": {"evaluations": 33000, "distinct_nontrivial": 26000, "max_skipped_fraction": 0.2,
                 "counters": {"pairs": 180000, "identical_pairs": 75000, "identical_pairs_equal_and_same_token": 75000,
                              "pairs_judged": 80000, "pairs_judged_equal_values": 75000, "derived_pairs_judged": 4500,
                              "pairs_differing_by_container_order_or_pairing_only": 18000,
                              "pairs_different_identity": 85000,
                              "method_cases_tokenized-first": 6000, "method_cases_derived-first": 2600,
                              "method_pairs": 125000, "method_pairs_tokenized-first": 85000,
                              "method_pairs_derived-first": 38000, "method_enclosed_pairs": 250000,
                              "method_pairs_judged": 175000,
                              "method_pairs_with_different_values_tokenized-first": 130000,
                              "method_pairs_with_different_values_derived-first": 58000,
                              "source_nodes_with_cached_token": 5000, "method_fuse_pairs": 2500,
                              "samecode_pairs": 75000, "samecode_pairs_with_different_values": 62000,
                              "samecode_twin_pairs_judged": 12500, "samecode_pairs_no_closure_different_values": 44000,
                              "samecode_differing_pairs:defaults": 10500, "samecode_differing_pairs:kwdefaults": 11500,
                              "samecode_differing_pairs:defaults+kwdefaults": 8500, "samecode_differing_pairs:function-attribute": 4300,
                              "samecode_differing_pairs:globals-binding": 5500, "samecode_differing_pairs:closure": 5400,
                              "samecode_differing_pairs:callable-instance": 5500, "samecode_differing_pairs:bound-method": 5000}},
}
EXHAUSTIVE_SPACE = None
LEVEL_NOTE = "trusts python equality of plain values and the harness term evaluator is not even needed: both sides are evaluated by dask"
CLAIM = ("For every generated pair of nodes that compared equal or had equal tokens, both nodes were evaluated on the same "
         "three random dependency assignments and gave equal results; pairs that differ only by element order in List/Tuple "
         "or by Dict pairing are generated in every case, and nodes derived by substitute/copy/pickle/fuse from a source node "
         "whose token was already cached are compared with it in the same way.")
TECHNIQUE = "runtime monitoring: ==/tokenize/hash of derived node pairs + differential evaluation node(values) on shared inputs"

LABEL_ORDER = "nested-container:List-Tuple-element-order-or-Dict-pairing-differs:equal-and-same-token-but-different-values"
# Fixed in /repo by e1d3253 (order-preserving tokens for List/Tuple, pair tokens for Dict): found by this monitor on the
# tree before that commit (List(x, 1) == List(1, x), Dict(a=x, b=2) == Dict(a=2, b=x)); the label stays as the
# classification of that mechanism should it come back.
PENDING = {}

NAMES = ["x", "y", "z", "w", ("x", 1), 7]
SCALARS = [1, 2, 3, "a", "b", "x", "y", 2.5, None, True, b"a", 0, "z", 7]
DKEYS = ["a", "b", "c", "x", 1, ("t", 9), "y"]
QUICK_CASES = 2200
THOROUGH_CASES = 40000
QUICK_METHOD_CASES = 1600
THOROUGH_METHOD_CASES = 20000
QUICK_SAMECODE_CASES = 700
THOROUGH_SAMECODE_CASES = 9000


def cases(tier, seed):
    rng = random.Random(seed * 9973 + 11)
    for _ in range(QUICK_CASES if tier == "quick" else THOROUGH_CASES):
        yield {"seed": rng.randrange(2 ** 31)}
    # pairs derived with the node's own methods, before / after the node's token has been computed and cached
    rng = random.Random(seed * 7717 + 5)
    for _ in range(QUICK_METHOD_CASES if tier == "quick" else THOROUGH_METHOD_CASES):
        yield {"seed": rng.randrange(2 ** 31), "kind": "method",
               "order": "tokenized-first" if rng.random() < 0.7 else "derived-first"}
    # functions sharing one code object (same source location, other defaults / kwdefaults / attributes / globals)
    rng = random.Random(seed * 6151 + 3)
    for _ in range(QUICK_SAMECODE_CASES if tier == "quick" else THOROUGH_SAMECODE_CASES):
        yield {"seed": rng.randrange(2 ** 31), "kind": "samecode"}


# ---------------------------------------------------------------------------------------------
# term surgery

def _with_children(a, ch):
    t = a[0]
    if t in ("list", "tuple"):
        return (t, list(ch))
    if t == "dict":
        return ("dict", [(k, c) for (k, _), c in zip(a[1], ch)])
    if t in ("ntuple", "set"):
        return (t, a[1], list(ch))
    if t == "call":
        return ("call", a[1], list(ch))
    if t == "kwcall":
        n = len(a[2])
        return ("kwcall", a[1], list(ch[:n]), [(k, c) for (k, _), c in zip(a[3], ch[n:])], a[4])
    return a


def _subterms(a, path=()):
    from vf.gen.c08_legacy import children

    yield path, a
    for i, c in enumerate(children(a)):
        yield from _subterms(c, path + (i,))


def _replace(a, path, new):
    from vf.gen.c08_legacy import children

    if not path:
        return new
    ch = children(a)
    ch[path[0]] = _replace(ch[path[0]], path[1:], new)
    return _with_children(a, ch)


def _map_refs(a, fn):
    from vf.gen.c08_legacy import children

    if a[0] == "ref":
        return ("ref", fn(a[1])) + tuple(a[2:])
    return _with_children(a, [_map_refs(c, fn) for c in children(a)])


def _perm(rng, xs):
    xs = list(xs)
    for _ in range(6):
        ys = xs[:]
        rng.shuffle(ys)
        if ys != xs:
            return ys
    return None


def _canon(a, sort_containers):
    """string form of a term; with sort_containers the order inside list/tuple and the flattened key/value
    sequence of dicts is forgotten (pairs equal under this form differ only by what the statement calls
    'order of elements in List and Tuple containers and pairing of keys with values in Dict')"""
    from vf.gen.c08_legacy import canon

    t = a[0]
    if t == "ref":
        return "%s<%r>" % ("alias" if len(a) > 2 and a[2] == "alias" else "ref", a[1])
    if t == "lit":
        return "lit<%s>" % canon(a[1])
    if t == "q":
        return "%s<%s>" % ("data" if a[2] == "data" or isinstance(a[1], (list, tuple, dict, set, frozenset)) else "lit", canon(a[1]))
    if t in ("list", "tuple"):
        xs = [_canon(x, sort_containers) for x in a[1]]
        return t + "[" + ",".join(sorted(xs) if sort_containers else xs) + "]"
    if t == "set":
        xs = [_canon(x, sort_containers) for x in a[2]]
        return "set[" + ",".join(sorted(xs) if sort_containers else xs) + "]"
    if t == "dict":
        if sort_containers:
            xs = []
            for k, v in a[1]:
                xs.append("lit<%s>" % canon(k))
                xs.append(_canon(v, True))
            return "dict[" + ",".join(sorted(xs)) + "]"
        return "dict[" + ",".join("%s=>%s" % (canon(k), _canon(v, False)) for k, v in a[1]) + "]"
    if t == "call":
        return "%s(%s)" % (a[1], ",".join(_canon(x, sort_containers) for x in a[2]))
    if t == "kwcall":
        return "%s(%s;%s)" % (a[1], ",".join(_canon(x, sort_containers) for x in a[2]),
                              ",".join(sorted("%s=%s" % (k, _canon(v, sort_containers)) for k, v in a[3])))
    return repr(a)


# ---------------------------------------------------------------------------------------------
# base terms

class _G:
    def __init__(self, rng):
        self.rng = rng

    def scalar(self):
        return ("lit", self.rng.choice(SCALARS))

    def ref(self, pool):
        j = self.rng.choice(pool)
        return ("ref", j, "alias") if self.rng.random() < 0.25 else ("ref", j)

    def elem(self, pool, depth):
        rng = self.rng
        r = rng.random()
        if pool and r < 0.35:
            return self.ref(pool)
        if r < 0.6 or depth >= 3:
            return self.scalar()
        if r < 0.66:
            return ("q", rng.choice(([1, 2], (1, 2), {"a": 1}, [], "x", 1)), "data")
        if r < 0.8:
            return ("call", rng.choice(("f", "g", "h")), [self.elem(pool, depth + 1) for _ in range(rng.randint(0, 3))])
        return self.container(pool, depth + 1)

    def container(self, pool, depth, kind=None):
        rng = self.rng
        kind = kind or rng.choice(("list", "list", "tuple", "tuple", "dict", "dict", "set"))
        n = rng.randint(0 if rng.random() < 0.1 else 2, 4)
        if kind == "dict":
            ks = rng.sample(DKEYS, min(n, len(DKEYS)))
            return ("dict", [(k, self.elem(pool, depth)) for k in ks])
        if kind == "set":
            xs = []
            for _ in range(n):
                e = self.elem(pool, 3)      # scalars / refs only: hashable
                if e not in xs:
                    xs.append(e)
            return ("set", "set", xs)
        return (kind, [self.elem(pool, depth) for _ in range(n)])

    def base(self):
        rng = self.rng
        pool = rng.sample(range(len(NAMES)), rng.choice((0, 1, 2, 2, 3)))
        r = rng.random()
        if r < 0.36:
            args = [self.elem(pool, 1) for _ in range(rng.randint(1, 4))]
            return ("call", rng.choice(("f", "g", "h", "lst", "tup")), args)
        if r < 0.52:
            args = [self.elem(pool, 1) for _ in range(rng.randint(0, 2))]
            kws = [("kw%d" % q, self.elem(pool, 1)) for q in range(rng.randint(1, 3))]
            return ("kwcall", rng.choice(("f", "g", "kwpack")), args, kws, "dictcall")
        if r < 0.92:
            return self.container(pool, 1)
        if r < 0.96 and pool:
            return ("ref", pool[0])
        return ("q", rng.choice(SCALARS + [[1, 2], (1, 2), {"a": 1}]), "data")


# ---------------------------------------------------------------------------------------------
# derivations: each returns a new term or None when it does not apply

def _pick(rng, term, pred):
    c = [(p, s) for p, s in _subterms(term) if pred(s)]
    return rng.choice(c) if c else (None, None)


def d_arg_perm(rng, t):
    p, s = _pick(rng, t, lambda s: s[0] in ("call", "kwcall") and len(s[2]) >= 2)
    if s is None:
        return None
    xs = _perm(rng, s[2])
    if xs is None:
        return None
    return _replace(t, p, (s[0], s[1], xs) + tuple(s[3:]))


def d_elem_perm(rng, t):
    p, s = _pick(rng, t, lambda s: s[0] in ("list", "tuple") and len(s[1]) >= 2 or s[0] == "set" and len(s[2]) >= 2)
    if s is None:
        return None
    if s[0] == "set":
        xs = _perm(rng, s[2])
        return None if xs is None else _replace(t, p, ("set", s[1], xs))
    xs = _perm(rng, s[1])
    return None if xs is None else _replace(t, p, (s[0], xs))


def d_dict_repair(rng, t):
    p, s = _pick(rng, t, lambda s: s[0] == "dict" and len(s[1]) >= 2)
    if s is None:
        return None
    vs = _perm(rng, [v for _, v in s[1]])
    if vs is None:
        return None
    return _replace(t, p, ("dict", [(k, v) for (k, _), v in zip(s[1], vs)]))


def d_dict_keyvalue(rng, t):
    def ok(s):
        return s[0] == "dict" and any(v[0] == "lit" and isinstance(v[1], (str, int, tuple)) and not isinstance(v[1], bool)
                                      for _, v in s[1])
    p, s = _pick(rng, t, ok)
    if s is None:
        return None
    items = list(s[1])
    idx = [i for i, (_, v) in enumerate(items) if v[0] == "lit" and isinstance(v[1], (str, int, tuple)) and not isinstance(v[1], bool)]
    i = rng.choice(idx)
    k, v = items[i]
    if any(kk == v[1] for j, (kk, _) in enumerate(items) if j != i):
        return None
    items[i] = (v[1], ("lit", k))
    return _replace(t, p, ("dict", items))


def d_dict_pair_order(rng, t):
    p, s = _pick(rng, t, lambda s: s[0] == "dict" and len(s[1]) >= 2)
    if s is None:
        return None
    xs = _perm(rng, s[1])
    return None if xs is None else _replace(t, p, ("dict", xs))


def d_kwarg_swap(rng, t):
    p, s = _pick(rng, t, lambda s: s[0] == "kwcall" and len(s[3]) >= 2)
    if s is None:
        return None
    vs = _perm(rng, [v for _, v in s[3]])
    if vs is None:
        return None
    return _replace(t, p, ("kwcall", s[1], s[2], [(k, v) for (k, _), v in zip(s[3], vs)], s[4]))


def d_kwarg_rename(rng, t):
    p, s = _pick(rng, t, lambda s: s[0] == "kwcall" and len(s[3]) >= 1)
    if s is None:
        return None
    kws = list(s[3])
    i = rng.randrange(len(kws))
    kws[i] = ("other", kws[i][1])
    return _replace(t, p, ("kwcall", s[1], s[2], kws, s[4]))


def d_kwarg_drop(rng, t):
    p, s = _pick(rng, t, lambda s: s[0] == "kwcall" and len(s[3]) >= 1)
    if s is None:
        return None
    kws = list(s[3])
    kws.pop(rng.randrange(len(kws)))
    return _replace(t, p, ("kwcall", s[1], s[2], kws, s[4]) if kws else ("call", s[1], s[2]))


def d_kwarg_to_positional(rng, t):
    p, s = _pick(rng, t, lambda s: s[0] == "kwcall" and len(s[3]) >= 1)
    if s is None:
        return None
    kws = list(s[3])
    k, v = kws.pop(rng.randrange(len(kws)))
    return _replace(t, p, ("kwcall", s[1], list(s[2]) + [v], kws, s[4]) if kws else ("call", s[1], list(s[2]) + [v]))


def d_func_swap(rng, t):
    p, s = _pick(rng, t, lambda s: s[0] in ("call", "kwcall"))
    if s is None:
        return None
    pool = [x for x in (("f", "g", "h", "kwpack") if s[0] == "kwcall" else ("f", "g", "h", "lst", "tup")) if x != s[1]]
    return _replace(t, p, (s[0], rng.choice(pool)) + tuple(s[2:]))


def d_ref_rename(rng, t):
    from vf.gen.c08_legacy import refs_of

    rs = sorted(refs_of(t))
    if not rs:
        return None
    a = rng.choice(rs)
    b = rng.choice([j for j in range(len(NAMES)) if j != a])
    return _map_refs(t, lambda j: b if j == a else j)


def d_ref_swap(rng, t):
    from vf.gen.c08_legacy import refs_of

    rs = sorted(refs_of(t))
    if len(rs) < 2:
        return None
    a, b = rng.sample(rs, 2)
    return _map_refs(t, lambda j: b if j == a else (a if j == b else j))


def d_container_type(rng, t):
    p, s = _pick(rng, t, lambda s: s[0] in ("list", "tuple", "set"))
    if s is None:
        return None
    xs = s[2] if s[0] == "set" else s[1]
    new = rng.choice([k for k in ("list", "tuple", "set") if k != s[0]])
    if new == "set":
        ys = []
        for x in xs:
            if x not in ys:
                ys.append(x)
        return _replace(t, p, ("set", "set", ys))
    return _replace(t, p, (new, list(xs)))


def d_lit_vs_ref(rng, t):
    def ok(s):
        return s[0] == "ref" or (s[0] == "lit" and any(type(s[1]) is type(n) and s[1] == n for n in NAMES))
    p, s = _pick(rng, t, ok)
    if s is None or not p:
        return None
    if s[0] == "ref":
        return _replace(t, p, ("lit", NAMES[s[1]]))
    return _replace(t, p, ("ref", [i for i, n in enumerate(NAMES) if type(n) is type(s[1]) and n == s[1]][0]))


def d_ref_form(rng, t):
    p, s = _pick(rng, t, lambda s: s[0] == "ref")
    if s is None or not p:
        return None
    return _replace(t, p, ("ref", s[1]) if len(s) > 2 else ("ref", s[1], "alias"))


def d_lit_change(rng, t):
    """change a literal (raw or DataNode-wrapped) to a near value: other type with equal ==, its str(), list<->tuple"""
    p, s = _pick(rng, t, lambda s: s[0] in ("lit", "q"))
    if s is None:
        return None
    v = s[1]
    near = {("int", 1): [True, 1.0, 2], ("int", 0): [False, 0.0], ("str", "a"): [b"a", "b"], ("bytes", b"a"): ["a"],
            ("int", 2): [2.0, 3], ("NoneType", None): [0, "None"], ("bool", True): [1, 1.0], ("int", 7): [7.0, "7"]}
    try:
        cand = list(near.get((type(v).__name__, v)) or [])
    except TypeError:
        cand = []
    if type(v) is list:
        cand += [tuple(v), v + [1], v[::-1] if v[::-1] != v else v + [2]]
    elif type(v) is tuple:
        cand += [list(v), v + (1,)]
    elif type(v) is dict:
        cand += [{k2: k for k, k2 in v.items()} if all(isinstance(x, (int, str)) for x in v.values()) else {"a": 2}, list(v.items())]
    if not isinstance(v, str):
        cand.append(str(v))
        cand.append(repr(v))
    cand = [c for c in cand if not (type(c) is type(v) and c == v)]
    if cand and rng.random() < 0.75:
        new = rng.choice(cand)
    else:
        new = rng.choice([x for x in SCALARS if not (type(x) is type(v) and x == v)])
    return _replace(t, p, ("lit", new) if s[0] == "lit" else ("q", new, s[2]))


def d_renest(rng, t):
    p, s = _pick(rng, t, lambda s: s[0] in ("list", "tuple") and len(s[1]) >= 2 or s[0] in ("call", "kwcall") and len(s[2]) >= 2)
    if s is None:
        return None
    xs = list(s[2] if s[0] in ("call", "kwcall") else s[1])
    i = rng.randrange(len(xs) - 1)
    j = rng.randint(i + 1, len(xs))
    kind = s[0] if s[0] in ("list", "tuple") else rng.choice(("list", "tuple"))
    ys = xs[:i] + [(kind, xs[i:j])] + xs[j:]
    if s[0] in ("call", "kwcall"):
        return _replace(t, p, (s[0], s[1], ys) + tuple(s[3:]))
    return _replace(t, p, (s[0], ys))


def d_flatten(rng, t):
    def ok(s):
        return s[0] in ("list", "tuple") and any(x[0] == s[0] for x in s[1])
    p, s = _pick(rng, t, ok)
    if s is None:
        return None
    ys = []
    done = False
    for x in s[1]:
        if x[0] == s[0] and not done:
            ys.extend(x[1])
            done = True
        else:
            ys.append(x)
    return _replace(t, p, (s[0], ys))


def d_data_wrap(rng, t):
    p, s = _pick(rng, t, lambda s: s[0] == "lit")
    if s is None or not p:
        return None
    return _replace(t, p, ("q", s[1], "data"))


def d_drop(rng, t):
    p, s = _pick(rng, t, lambda s: s[0] in ("list", "tuple") and len(s[1]) >= 1 or s[0] in ("call", "kwcall") and len(s[2]) >= 1)
    if s is None:
        return None
    xs = list(s[2] if s[0] in ("call", "kwcall") else s[1])
    xs.pop(rng.randrange(len(xs)))
    return _replace(t, p, (s[0], s[1], xs) + tuple(s[3:]) if s[0] in ("call", "kwcall") else (s[0], xs))


def d_dup(rng, t):
    p, s = _pick(rng, t, lambda s: s[0] in ("list", "tuple") and len(s[1]) >= 1 or s[0] in ("call", "kwcall") and len(s[2]) >= 1)
    if s is None:
        return None
    xs = list(s[2] if s[0] in ("call", "kwcall") else s[1])
    i = rng.randrange(len(xs))
    xs.insert(i, xs[i])
    return _replace(t, p, (s[0], s[1], xs) + tuple(s[3:]) if s[0] in ("call", "kwcall") else (s[0], xs))


DERIVATIONS = [
    ("arg-permutation", d_arg_perm), ("element-permutation", d_elem_perm), ("dict-value-repairing", d_dict_repair),
    ("dict-key-value-swap", d_dict_keyvalue), ("dict-pair-order", d_dict_pair_order), ("kwarg-value-swap", d_kwarg_swap),
    ("kwarg-rename", d_kwarg_rename), ("kwarg-drop", d_kwarg_drop), ("kwarg-to-positional", d_kwarg_to_positional),
    ("function-swap", d_func_swap), ("reference-rename", d_ref_rename), ("reference-swap", d_ref_swap),
    ("container-type", d_container_type), ("literal-vs-reference", d_lit_vs_ref), ("taskref-vs-alias", d_ref_form),
    ("literal-change", d_lit_change), ("re-nesting", d_renest), ("flatten", d_flatten), ("datanode-wrap", d_data_wrap),
    ("argument-drop", d_drop), ("argument-duplicate", d_dup),
]


def _build(term, keyed, key):
    """real task-spec node for a term"""
    from vf.gen.c08_legacy import SpecBuilder

    b = SpecBuilder(lambda j: NAMES[j], parse=False)
    if term[0] in ("list", "tuple", "set", "dict") and not keyed:
        return b.arg(term)                 # bare NestedContainer node
    return b.node(key, term)


def _assignments(seed):
    rng = random.Random(seed)
    out = []
    for _ in range(3):
        vals = {}
        used = set()
        for n in NAMES:
            while True:
                v = rng.choice((rng.randrange(10 ** 6), "v%d" % rng.randrange(10 ** 6), ("t", rng.randrange(10 ** 6))))
                if v not in used:
                    used.add(v)
                    break
            vals[n] = v
        out.append(vals)
    return out


def _evaluate(node, assigns):
    out = []
    for vals in assigns:
        out.append(node(vals))
    return out


def run_case(case, ctx):
    from dask.tokenize import tokenize
    from vf.gen import c08_legacy as L

    if case.get("kind") == "method":
        return _run_method_case(case, ctx)
    if case.get("kind") == "samecode":
        return _run_samecode_case(case, ctx)
    rng = random.Random(case["seed"])
    g = _G(rng)
    base = g.base()
    keyed = rng.random() < 0.5
    tags = L.tags_of(base)
    assigns = _assignments(case["seed"] ^ 0x5A5A)
    try:
        a = _build(base, keyed, "node")
    except Exception as e:  # noqa: BLE001
        ctx.exception(e, prefix="build")
        return
    ctx.sig = _canon(base, False)
    ctx.op("base:" + type(a).__name__)
    try:
        va = _evaluate(a, assigns)
    except TypeError as e:
        if "unhashable" in str(e):
            ctx.reject("python refuses: %s" % e)
            return
        ctx.exception(e, prefix="evaluate-base")
        return
    except Exception as e:  # noqa: BLE001
        ctx.exception(e, prefix="evaluate-base")
        return

    pairs = []
    # guaranteed-meaning-preserving pairs
    pairs.append(("identical-rebuild", base, lambda: _build(base, keyed, "node")))
    pairs.append(("key-change", base, lambda: _build(base, keyed, "other-key")))
    from dask._task_spec import NestedContainer

    if not isinstance(a, NestedContainer):      # NestedContainer.copy() raises (not the subject of C11)
        pairs.append(("copy", base, lambda: a.copy()))
    pairs.append(("pickle", base, lambda: pickle.loads(pickle.dumps(a))))
    if rng.random() < 0.5:
        import cloudpickle

        pairs.append(("cloudpickle", base, lambda: cloudpickle.loads(cloudpickle.dumps(a))))
    # derived pairs: every applicable order/pairing derivation + a random selection of the others
    always = ("element-permutation", "dict-value-repairing", "dict-key-value-swap", "arg-permutation", "kwarg-value-swap")
    ders = [d for d in DERIVATIONS if d[0] in always] + rng.sample([d for d in DERIVATIONS if d[0] not in always], 9)
    for name, fn in ders:
        try:
            t2 = fn(rng, base)
        except Exception as e:  # noqa: BLE001 - harness bug must be visible
            raise AssertionError("harness: derivation %s failed on %r: %r" % (name, base, e))
        if t2 is None or _canon(t2, False) == _canon(base, False):
            continue
        pairs.append((name, t2, (lambda t2=t2: _build(t2, keyed, "node"))))

    judged = 0
    for name, t2, mk in pairs:
        ctx.count("pairs")
        ctx.op("derivation:" + name)
        try:
            b = mk()
        except Exception as e:  # noqa: BLE001
            ctx.exception(e, prefix="build:" + name)
            continue
        try:
            eq = bool(a == b)
            eq2 = bool(b == a)
            ta, tb = tokenize(a), tokenize(b)
        except Exception as e:  # noqa: BLE001
            ctx.exception(e, prefix="compare:" + name)
            continue
        teq = ta == tb
        try:
            heq = hash(a) == hash(b)
        except TypeError:
            heq = None
        meaning_kept = name in ("identical-rebuild", "key-change", "copy", "pickle", "cloudpickle")
        order_only = not meaning_kept and _canon(base, True) == _canon(t2, True)
        if order_only:
            ctx.count("pairs_differing_by_container_order_or_pairing_only")
        if meaning_kept:
            ctx.count("identical_pairs")
            if eq and teq:
                ctx.count("identical_pairs_equal_and_same_token")
            if heq:
                ctx.count("identical_pairs_same_hash")
        if eq:
            ctx.count("pairs_equal")
        if teq:
            ctx.count("pairs_same_token")
        if eq != eq2:
            ctx.count("asymmetric_eq")
        if not (eq or eq2 or teq):
            ctx.count("pairs_different_identity")
            continue
        # ---- the statement: equal or same token => equal results on the same dependency values ----------
        try:
            vb = _evaluate(b, assigns)
        except TypeError as e:
            if "unhashable" in str(e):
                ctx.count("pairs_python_refuses")
                continue
            ctx.exception(e, prefix="evaluate:" + name)
            continue
        except Exception as e:  # noqa: BLE001
            ctx.exception(e, prefix="evaluate:" + name)
            continue
        judged += 1
        ctx.count("pairs_judged")
        if not meaning_kept:
            ctx.count("derived_pairs_judged")
        bad = [i for i in range(len(assigns)) if not L.equalish(va[i], vb[i])]
        if not bad:
            ctx.count("pairs_judged_equal_values")
            continue
        i = bad[0]
        how = "+".join(x for x, y in (("==", eq or eq2), ("same-token", teq), ("same-hash", bool(heq))) if y)
        if order_only:
            label = LABEL_ORDER
        else:
            label = "derived-pair:%s:equal-or-same-token-but-different-values" % name
        ctx.violation(label,
                      "%s (%s): a=%r b=%r are %s but a(values)=%r, b(values)=%r for values %r"
                      % (name, how, a, b, how, va[i], vb[i], {repr(k): v for k, v in assigns[i].items()}),
                      term_a=_canon(base, False), term_b=_canon(t2, False), derivation=name)
    ctx.nontrivial = bool(judged and (tags & {"list", "tuple", "dict", "set", "ref", "nested-call"}))
    ctx.sample = {"base": _canon(base, False)[:200], "node": repr(a)[:120], "pairs": len(pairs), "judged": judged}


# ---------------------------------------------------------------------------------------------
# pairs derived with the node's own methods, with or without a cached token on the source node

FORCERS = ("hash", "tokenize", "eq-with-rebuild", "enclosing-task", "enclosing-list", "enclosing-python-tuple")


def _force_token(rng, a, rebuild):
    """make dask compute (and cache, where it caches) the token of `a` and of everything nested in it"""
    from dask._task_spec import List, Task
    from dask.tokenize import tokenize
    from vf.gen.c08_legacy import FUNCS

    ways = list(FORCERS)
    rng.shuffle(ways)
    for way in ways:
        if way == "hash":
            try:
                hash(a)
            except TypeError:       # Alias / DataNode define __eq__ without __hash__
                continue
        elif way == "tokenize":
            tokenize(a)
        elif way == "eq-with-rebuild":
            a == rebuild()          # noqa: B015 - evaluated for its side effect on the cached token
        elif way == "enclosing-task":
            tokenize(Task("outer", FUNCS["f"], a, 1))
        elif way == "enclosing-list":
            tokenize(List(a, 1))
        else:
            tokenize((a, 1))
        return way
    return "none"


def _method_derivations(rng, a):
    """(name, thunk) deriving a node from `a` with dask's own methods.  Names are mechanism names: all
    dependency-rewriting substitutions are 'substitute'."""
    import cloudpickle

    from dask._task_spec import DataNode, NestedContainer, Task, TaskRef
    from vf.gen.c08_legacy import FUNCS

    deps = sorted(a.dependencies, key=repr)
    outside = [n for n in NAMES if n not in a.dependencies]
    out = []
    if deps:
        x = rng.choice(deps)
        y = rng.choice([n for n in NAMES if n != x])
        out.append(("substitute", "rename", lambda: a.substitute({x: y})))
        out.append(("substitute", "rename+key", lambda: a.substitute({x: y}, key="renamed")))
        if outside:
            o = rng.choice(outside)
            out.append(("substitute", "swap-with-unreferenced", lambda: a.substitute({x: o, o: x})))
            out.append(("substitute", "rename-there-and-back", lambda: a.substitute({x: o}).substitute({o: x})))
        const = rng.choice((5, "five", (5, 6)))
        out.append(("substitute", "inline-datanode", lambda: a.substitute({x: DataNode(None, const)})))
        out.append(("substitute", "inline-task",
                    lambda: a.substitute({x: Task(None, FUNCS["g"], TaskRef(y), 1)})))
        out.append(("substitute", "pickle-then-rename", lambda: pickle.loads(pickle.dumps(a)).substitute({x: y})))
    if len(deps) >= 2:
        p, q = rng.sample(deps, 2)
        out.append(("substitute", "swap", lambda: a.substitute({p: q, q: p})))
        out.append(("substitute", "swap+key", lambda: a.substitute({p: q, q: p}, key="renamed")))
    if len(outside) >= 2:
        o1, o2 = rng.sample(outside, 2)
        out.append(("substitute-noop", "unreferenced", lambda: a.substitute({o1: o2})))
    if deps:
        out.append(("substitute-noop", "identity", lambda: a.substitute({deps[0]: deps[0]})))
    out.append(("substitute-key", "key-only", lambda: a.substitute({}, key="renamed")))
    if not isinstance(a, NestedContainer):          # NestedContainer.copy() raises (see Calibration)
        out.append(("copy", "copy", lambda: a.copy()))
        if deps:
            out.append(("substitute", "copy-then-rename", lambda: a.copy().substitute({x: y})))
    out.append(("pickle", "pickle", lambda: pickle.loads(pickle.dumps(a))))
    out.append(("pickle", "cloudpickle", lambda: cloudpickle.loads(cloudpickle.dumps(a))))
    return out


def _judge(ctx, L, tokenize, label, what, a, b, va, assigns, order, detail, tag="pair"):
    """the oracle of the statement on one pair; returns 'unequal' | 'held' | 'violated' | 'skipped'"""
    try:
        eq = bool(a == b) or bool(b == a)
        teq = tokenize(a) == tokenize(b)
    except Exception as e:  # noqa: BLE001
        ctx.exception(e, prefix="method-compare:" + tag)
        return "skipped"
    try:
        heq = hash(a) == hash(b)
    except TypeError:
        heq = None
    try:
        vb = _evaluate(b, assigns)
    except TypeError as e:
        if "unhashable" in str(e):
            ctx.count("pairs_python_refuses")
            return "skipped"
        ctx.exception(e, prefix="method-evaluate:" + tag)
        return "skipped"
    except Exception as e:  # noqa: BLE001
        ctx.exception(e, prefix="method-evaluate:" + tag)
        return "skipped"
    bad = [i for i in range(len(assigns)) if not L.equalish(va[i], vb[i])]
    if bad:
        ctx.count("method_pairs_with_different_values")
        ctx.count("method_pairs_with_different_values_" + order)
    if not (eq or teq):
        return "unequal"
    ctx.count("method_pairs_judged")
    if not bad:
        return "held"
    i = bad[0]
    how = "+".join(x for x, y in (("==", eq), ("same-token", teq), ("same-hash", bool(heq))) if y)
    ctx.violation(label,
                  "%s: a=%r b=%r are %s but a(values)=%r, b(values)=%r for values %r"
                  % (what, a, b, how, va[i], vb[i], {repr(k): v for k, v in assigns[i].items()}), **detail)
    return "violated"


def _run_method_case(case, ctx):
    from dask._task_spec import GraphNode, List, Task, TaskRef
    from dask.tokenize import tokenize
    from vf.gen import c08_legacy as L

    rng = random.Random(case["seed"])
    order = case["order"]
    g = _G(rng)
    base = None
    for _ in range(8):                      # prefer base terms that reference keys: substitute has something to do
        base = g.base()
        if L.refs_of(base) or rng.random() < 0.08:
            break
    keyed = rng.random() < 0.6
    assigns = _assignments(case["seed"] ^ 0x3C3C)

    def rebuild():
        return _build(base, keyed, "node")

    try:
        a = rebuild()
        va = _evaluate(a, assigns)
    except TypeError as e:
        if "unhashable" in str(e):
            ctx.reject("python refuses: %s" % e)
            return
        ctx.exception(e, prefix="method-build")
        return
    except Exception as e:  # noqa: BLE001
        ctx.exception(e, prefix="method-build")
        return
    ctx.sig = ("method", order, _canon(base, False))
    ctx.op("method-base:" + type(a).__name__)
    ctx.count("method_cases_" + order)
    forced = "none"
    if order == "tokenized-first":
        try:
            forced = _force_token(rng, a, rebuild)
        except Exception as e:  # noqa: BLE001
            ctx.exception(e, prefix="tokenize-base")
            return
        ctx.op("token-forced-by:" + forced)
        if getattr(a, "_token", None):
            ctx.count("source_nodes_with_cached_token")
    ders = _method_derivations(rng, a)
    built = []
    for mech, variant, thunk in ders:
        try:
            b = thunk()
        except Exception as e:  # noqa: BLE001
            ctx.exception(e, prefix="method:%s" % mech, variant=variant)
            continue
        built.append((mech, variant, b))
    # Task.fuse of the node with a producer of one of its dependencies, before and after a substitution
    # (built here, before any pair is compared, so that 'derived-first' really means: no token computed yet)
    fuse_pair = None
    deps = sorted(a.dependencies, key=repr)
    if getattr(a, "key", None) is not None and len(deps) >= 2:
        if len(deps) >= 3:
            # swap two other dependencies: the fused task keeps its external dependencies, only the inner task changes
            x, y, z = rng.sample(deps, 3)
            subs = {y: z, z: y}
        else:
            x, y = rng.sample(deps, 2)
            z = rng.choice([n for n in NAMES if n not in (x, y)])
            subs = {y: z}
        w = rng.choice([n for n in NAMES if n != x])
        try:
            prod = Task(x, L.FUNCS["g"], TaskRef(w), 1)
            fb_inner = a.substitute(subs)
            fa = GraphNode.fuse(prod, a, key="fused")
            fb = GraphNode.fuse(prod, fb_inner, key="fused")
            fuse_pair = (fa, fb, _evaluate(fa, assigns))
        except Exception as e:  # noqa: BLE001
            ctx.exception(e, prefix="method:fuse")
    judged = 0
    for mech, variant, b in built:
        ctx.count("method_pairs")
        ctx.count("method_pairs_" + order)
        ctx.op("method:%s/%s" % (mech, variant))
        label = "method-derived:%s:%s:equal-or-same-token-but-different-values" % (mech, order)
        detail = {"variant": variant, "token_forced_by": forced, "term": _canon(base, False)}
        r = _judge(ctx, L, tokenize, label, "%s/%s (%s, token forced by %s)" % (mech, variant, order, forced),
                   a, b, va, assigns, order, detail, tag=mech)
        if r in ("held", "violated"):
            judged += 1
        if r == "violated" or not isinstance(b, GraphNode):
            continue
        # the same two nodes inside freshly built enclosing nodes (their identity is made of the children's tokens)
        for wname, wrap in (("enclosing-Task", lambda n: Task("outer", L.FUNCS["lst"], n, 1)),
                            ("enclosing-List", lambda n: List(n, 1))):
            try:
                wa, wb = wrap(a), wrap(b)
                vwa = _evaluate(wa, assigns)
            except Exception as e:  # noqa: BLE001
                ctx.exception(e, prefix="method-wrap:" + wname)
                continue
            ctx.count("method_enclosed_pairs")
            _judge(ctx, L, tokenize, label + ":" + wname, "%s/%s inside %s (%s)" % (mech, variant, wname, order),
                   wa, wb, vwa, assigns, order, detail, tag=mech + "-" + wname)
    if fuse_pair is not None:
        fa, fb, vfa = fuse_pair
        ctx.count("method_pairs")
        ctx.count("method_fuse_pairs")
        ctx.op("method:fuse/of-substituted")
        r = _judge(ctx, L, tokenize, "method-derived:fuse-of-substituted:%s:equal-or-same-token-but-different-values" % order,
                   "fuse(producer, a) vs fuse(producer, a.substitute) (%s)" % order, fa, fb, vfa, assigns, order,
                   {"token_forced_by": forced, "term": _canon(base, False)}, tag="fuse")
        if r in ("held", "violated"):
            judged += 1
    ctx.nontrivial = bool(judged and L.refs_of(base))
    ctx.sample = {"base": _canon(base, False)[:200], "node": repr(a)[:120], "order": order, "token_forced_by": forced,
                  "derived": len(built), "judged": judged}


# ---------------------------------------------------------------------------------------------
# functions that share one code object ("samecode" cases)

BOUND_VALUES = [1, 2, True, 1.0, "1", "a", "b", None, 0, False, (1, 2), (1, 3), 2.5, b"a", 10, -1]


def _kind(v):
    return type(v).__name__


def _sc_global_template(x):
    return ("glob", x, _kind(BOUND), BOUND)          # noqa: F821 - BOUND lives in the globals given to FunctionType


def _sc_attr_template(x):
    return ("attr", x, _kind(me.tag), me.tag)        # noqa: F821 - `me` is the function itself, in its own globals


class _Scaler:
    """callable instances / bound methods: one class (one code object per method), state in the instance"""

    def __init__(self, k):
        self.k = k

    def __call__(self, x):
        return ("inst", x, _kind(self.k), self.k)

    def meth(self, x):
        return ("meth", x, _kind(self.k), self.k)


def _sc_make(family, vals):
    """functions of one family: the same code object, one bound value each"""
    import types

    if family == "defaults":
        return [lambda x, k=v: ("dflt", x, _kind(k), k) for v in vals]
    if family == "kwdefaults":
        def mk(v):
            def pick(x, *, k=v):
                return ("kwd", x, _kind(k), k)
            return pick
        return [mk(v) for v in vals]
    if family == "defaults+kwdefaults":
        # binding i = (vals[i], vals[-1-i]): pairs may differ in the positional default only, the keyword-only default
        # only, or in both (values swapped between the two)
        def mk2(d, v):
            def both(x, d=d, *, k=v):
                return ("both", x, _kind(d), d, _kind(k), k)
            return both
        return [mk2(vals[i], vals[-1 - i]) for i in range(len(vals))]
    if family == "globals-binding":
        out = []
        for v in vals:
            out.append(types.FunctionType(_sc_global_template.__code__, {"BOUND": v, "_kind": _kind, "__builtins__": __builtins__},
                                          "_sc_global_template"))
        return out
    if family == "function-attribute":
        out = []
        for v in vals:
            g = {"_kind": _kind, "__builtins__": __builtins__}
            f = types.FunctionType(_sc_attr_template.__code__, g, "_sc_attr_template")
            g["me"] = f
            f.tag = v
            out.append(f)
        return out
    if family == "closure":
        def mk3(v):
            def inner(x):
                return ("clos", x, _kind(v), v)
            return inner
        return [mk3(v) for v in vals]
    if family == "callable-instance":
        return [_Scaler(v) for v in vals]
    if family == "bound-method":
        return [_Scaler(v).meth for v in vals]
    raise AssertionError(family)


SAMECODE_FAMILIES = ("defaults", "defaults", "kwdefaults", "kwdefaults", "defaults+kwdefaults", "globals-binding", "function-attribute",
                     "closure", "callable-instance", "bound-method")
# families without closure cells and without instance state: plain functions whose whole difference sits next to the code
SAMECODE_PLAIN = ("defaults", "kwdefaults", "defaults+kwdefaults", "globals-binding", "function-attribute")


def _sc_apply(fn, x):
    return ("apply", fn(x))


def _sc_apply_kw(x, fn=None):
    return ("applykw", fn(x))


def _sc_apply_all(fns, x):
    return ("all", [fn(x) for fn in fns])


def _sc_apply_all_kw(x, fns=()):
    return ("allkw", [fn(x) for fn in fns])


def _sc_apply_map(fns, x):
    return ("map", sorted((k, fn(x)) for k, fn in fns.items()))


def _sc_apply_map_kw(x, fns=None):
    return ("mapkw", sorted((k, fn(x)) for k, fn in fns.items()))


def _sc_collect(*a, **k):
    return ("collect", a, sorted(k.items()))


def _sc_shapes():
    """name -> builder(key, fn, other_fn, ref): a node that holds `fn` at one place; everything else is fixed"""
    import functools

    from dask._task_spec import DataNode, Dict, List, Task, TaskRef, Tuple

    return {
        "task-function": lambda key, fn, o, r: Task(key, fn, TaskRef(r)),
        "nested-task-in-List": lambda key, fn, o, r: Task(key, _sc_collect, List(Task(None, fn, TaskRef(r)), 1)),
        "nested-task-in-Tuple": lambda key, fn, o, r: Task(key, _sc_collect, Tuple(1, Task(None, fn, TaskRef(r)))),
        "nested-task-in-Dict": lambda key, fn, o, r: Task(key, _sc_collect, Dict({"a": Task(None, fn, TaskRef(r)), "b": 2})),
        "nested-task-in-List-in-kwarg": lambda key, fn, o, r: Task(key, _sc_collect, 0, kw=List(Task(None, fn, TaskRef(r)), TaskRef(r))),
        "nested-task-two-levels": lambda key, fn, o, r: Task(key, _sc_collect, List(Dict({"a": List(Task(None, fn, TaskRef(r)))}), 1)),
        "positional-argument": lambda key, fn, o, r: Task(key, _sc_apply, fn, TaskRef(r)),
        "kwarg-value": lambda key, fn, o, r: Task(key, _sc_apply_kw, TaskRef(r), fn=fn),
        "List-argument-element": lambda key, fn, o, r: Task(key, _sc_apply_all, List(o, fn), TaskRef(r)),
        "List-kwarg-element": lambda key, fn, o, r: Task(key, _sc_apply_all_kw, TaskRef(r), fns=List(fn, o)),
        "Dict-argument-value": lambda key, fn, o, r: Task(key, _sc_apply_map, Dict({"p": fn, "q": o}), TaskRef(r)),
        "Dict-kwarg-value": lambda key, fn, o, r: Task(key, _sc_apply_map_kw, TaskRef(r), fns=Dict({"p": o, "q": fn})),
        "partial": lambda key, fn, o, r: Task(key, functools.partial(_sc_apply, fn), TaskRef(r)),
        "DataNode-argument": lambda key, fn, o, r: Task(key, _sc_apply, DataNode(None, fn), TaskRef(r)),
        "bare-List": lambda key, fn, o, r: List(Task(None, fn, TaskRef(r)), 2),
        "bare-Dict": lambda key, fn, o, r: Dict({"a": Task(None, fn, TaskRef(r)), "b": TaskRef(r)}),
    }


def _run_samecode_case(case, ctx):
    import itertools

    from dask.tokenize import tokenize
    from vf.gen import c08_legacy as L

    rng = random.Random(case["seed"])
    family = rng.choice(SAMECODE_FAMILIES)
    n = rng.choice((3, 3, 4, 5))
    vals = rng.sample(BOUND_VALUES, n - 1)
    twin_of = rng.randrange(len(vals))
    vals.insert(rng.randrange(len(vals) + 1), vals[twin_of])     # one exact twin (equal binding, same code)
    shapes = _sc_shapes()
    chosen = rng.sample(sorted(shapes), rng.choice((3, 4)))
    same_key = rng.random() < 0.5
    ref = rng.choice(NAMES)
    assigns = _assignments(case["seed"] ^ 0x1234)
    ctx.sig = ("samecode", family, [repr(v) for v in vals], chosen, same_key, repr(ref))
    ctx.op("samecode-family:" + family)
    try:
        fns = _sc_make(family, vals)
        other = _sc_make(family, [vals[0]])[0]
    except Exception as e:  # noqa: BLE001 - python refuses (never seen)
        ctx.reject("python refuses the function family: %r" % (e,))
        return
    if family not in ("callable-instance", "bound-method"):
        codes = {id(getattr(f, "__code__", None)) for f in fns}
        if len(codes) != 1:
            raise AssertionError("harness: family %s does not share one code object" % family)
    if family == "defaults+kwdefaults":
        binds = [(_kind(vals[i]), vals[i], _kind(vals[-1 - i]), vals[-1 - i]) for i in range(len(vals))]
    else:
        binds = [(_kind(v), v) for v in vals]
    judged = differing = 0
    for shape in chosen:
        ctx.op("samecode-shape:" + shape)
        nodes = []
        try:
            for i, fn in enumerate(fns):
                nodes.append(shapes[shape]("node" if same_key else ("node", i), fn, other, ref))
            values = [_evaluate(nd, assigns) for nd in nodes]
        except Exception as e:  # noqa: BLE001
            ctx.exception(e, prefix="samecode-build:" + shape)
            continue
        order = list(itertools.combinations(range(len(nodes)), 2))
        rng.shuffle(order)               # which node of a pair is tokenized first varies
        for i, j in order:
            if rng.random() < 0.5:
                i, j = j, i
            a, b = nodes[i], nodes[j]
            ctx.count("samecode_pairs")
            twin = binds[i] == binds[j]
            try:
                eq = bool(a == b) or bool(b == a)
                teq = tokenize(a) == tokenize(b)
            except Exception as e:  # noqa: BLE001
                ctx.exception(e, prefix="samecode-compare:" + shape)
                continue
            try:
                heq = hash(a) == hash(b)
            except TypeError:
                heq = None
            bad = [q for q in range(len(assigns)) if not L.equalish(values[i][q], values[j][q])]
            if bad:
                differing += 1
                ctx.count("samecode_pairs_with_different_values")
                ctx.count("samecode_differing_pairs:" + family)
                if family in SAMECODE_PLAIN:
                    ctx.count("samecode_pairs_no_closure_different_values")
            if not (eq or teq):
                if twin:
                    ctx.count("samecode_twin_pairs_different_identity")
                continue
            judged += 1
            ctx.count("samecode_pairs_judged")
            if twin:
                ctx.count("samecode_twin_pairs_judged")
            if not bad:
                continue
            q = bad[0]
            how = "+".join(x for x, y in (("==", eq), ("same-token", teq), ("same-hash", bool(heq))) if y)
            ctx.violation("same-code-functions:%s:equal-or-same-token-but-different-values" % family,
                          "%s: two nodes whose functions share one code object and differ in %s (bound %r vs %r) are %s but "
                          "a(values)=%r, b(values)=%r; a=%r b=%r"
                          % (shape, family, binds[i][1::2], binds[j][1::2], how, values[i][q], values[j][q], a, b),
                          shape=shape, family=family, bound=[repr(binds[i]), repr(binds[j])])
    ctx.nontrivial = bool(differing)
    ctx.sample = {"family": family, "bound": [repr(v) for v in vals], "shapes": chosen, "judged": judged,
                  "pairs_with_different_values": differing}
