"""C22 — array reductions and scans equal NumPy for every chunking and split_every.

Monitor: NumPy differential.  A case is a JSON description (operation, shape, dtype, data seed and
flavour, chunking, axis selection, keepdims, one or two split_every settings, ddof / dtype= / order /
method / k / q).  The arrays are rebuilt, the REAL dask.array function is computed on the sync
scheduler once per split_every setting and every result is compared with NumPy on the same data:
shape, dtype, values (NaN == NaN, signed infinities must match); floating values within the
tolerance that reassociated summation implies (``compare_arrays(exact=False, n=<reduced elements>,
scale=<max |data|>)``; products purely relative; var/moment with scale (2*max|x|)**order; std is
compared through its square with the var tolerance); integer/bool results exactly.  The results for
the different split_every settings of one case are also compared with each other (same tolerance),
and the lazy .shape/.dtype/.chunks with the computed value.

Oracle per family
* sum prod min max any all mean var std and the nan-variants: ``np.<op>(x, axis=, keepdims=, [ddof=, dtype=])``.
* moment: no NumPy function; reference is the definition ``((x - mean)**order).sum() / (n - ddof)`` in the
  dtype np.var gives.  For order < 2 dask returns the constant 1 / 0 "by definition": shape and dtype
  are always compared, values only on finite data.
* argmin/argmax/nanargmin/nanargmax (axis None or int): facet 1 "the value at the returned index is
  the extreme value" (``:wrong-extreme``); facet 2, separately labelled, NumPy's documented
  first-occurrence rule among ties (``:tie-break-differs``).  All-NaN slices in nanarg* -> reject.
* cumsum/cumprod/nancumsum/nancumprod (axis None or int, method sequential|blelloch, dtype=).
* topk/argtopk (1 <= |k| <= axis length, NaN-free data): reference = the |k| largest / smallest
  elements of ``np.sort`` in the documented order; argtopk: indices distinct and in range, the
  elements they select equal the topk reference (which of several equal elements is not specified).
* median/nanmedian (axis int or tuple; dask documents axis=None as NotImplementedError -> not generated),
  quantile/nanquantile (q scalar or vector, five methods, axis int/tuple, axis=None only when the
  array is a single chunk).

Domain (statement + quantifier): axis lengths >= 1 and chunk sizes >= 1 (an optional facet, OFF by default,
``ZERO_SIZE_CHUNK_FRACTION``, inserts one zero-size chunk inside a non-empty axis; label feature ``zero-size-chunk``
when dropping the empty chunk removes the symptom), 0-d arrays only for full reductions
(axis None or ()), bool/int/uint/float/complex data with NaN / +-inf / -0.0 content (floats),
datetime64/timedelta64 only for the order reductions (min/max/arg*), split_every in
{2, 3, None, per-axis dict with values 2|3}, ddof in {0, 1, 2}, dtype= only as a same-kind cast
to float32/float64/complex128 (and int64 for sum/prod/scans of integer data).

Data flavour 'nanlanes' (added after a seeded change in the all-NaN fallback of _nanargmin/_nanargmax escaped): for
the nan* operations on >= 2-d float arrays the NaNs follow the chunk grid — along the reduction axis whole chunk
segments of some lanes are NaN (the lane keeps values in another segment, so NumPy does not raise) and the other
lanes of the same blocks get scattered NaNs; counters ``nanlane_cases`` and
``nanlane_allnan_segment_next_to_mixed_lane`` (a block really holds an all-NaN lane segment next to a mixed lane)
have floors.  The fixed (4,3) example of that change is enumerated over all its 32 chunkings.

Labels: ``<op>:<input-feature predicate>:<symptom>``; the predicate depends on the symptom (shape ->
keepdims / axis=() / 0-d; dtype -> input kind or float32, dtype= given, q kind; values -> count<=ddof,
|k|==n, scan method, non-finite content).  split_every values, chunk counts, seeds and exception types never
enter a label (``raises@file.py:function``).  One mechanism = one label is helped by small classifiers that re-run
the REAL API on a variant of the failing input: `nonfinite` is kept only if the symptom disappears once
NaN/inf/NaT are replaced by finite values; a failing Blelloch scan whose sequential twin agrees with NumPy is
labelled ``blelloch-scan`` (shared prefixscan_blelloch) instead of per function; std/nanstd are labelled as
var/nanvar when that differs too; the four arg-reductions share the label family ``arg-reduction`` (shared
arg_reduction / arg_chunk / _arg_combine) with predicate axis=None|int, ndim>1, non-leading-axis-split, ties.

Calibration (unchanged tree)
* Products (prod, nanprod, cumprod, nancumprod) in float32 are limited to 48 elements (values
  |v| <= 6) and to 216 elements in float64: a longer product overflows / underflows at an
  order-dependent point, which the statement's "tolerance implied by summation order" excludes.
* std/nanstd: |r**2 - e**2| is compared with the var tolerance (a var error d gives a std error up to
  sqrt(d) next to var == 0, so a direct comparison of std with a linear tolerance alarms falsely).
* 0-d arrays are not generated for scans (np.cumsum of a 0-d array is not a full reduction).
* moment(order<2) on data with NaN/inf or with ddof != 0: only shape and dtype compared (the definition
  gives NaN resp. n/(n-ddof); dask and scipy return the constant 1 / 0 "by definition").
* datetime64/timedelta64 are generated for min/max/argmin/argmax only: NumPy's nanargmin/nanargmax do not
  treat NaT as missing while nanmin/nanmax do, so the nan-variants have no consistent reference there.
* quantile/nanquantile: the lazy dtype is not compared with the computed one: np.quantile of float32 data
  with a float64 q returns float32 for slices that contain NaN (all-NaN for nanquantile) and float64
  otherwise, so no lazy dtype can match; the computed dtype is still compared with NumPy's.
* var/std/moment tolerance uses the eps of the less precise of (input dtype, result dtype): np.nanvar
  stores the deviations in the input precision (``out=arr``) even when ``dtype=float64`` is requested.
* topk/argtopk with |k| > axis length and with NaN data are outside the domain (no NumPy reference).
* var/std/moment are generated with ddof <= number of reduced elements (ddof in {0, 1, 2}): for ddof > n NumPy's
  var divides by max(n - ddof, 0) and returns inf or NaN depending on rounding residue of the deviations, dask
  returns NaN; a negative number of degrees of freedom is outside "ddof for var/std".  (nanvar/nanstd keep
  ddof up to 2 whatever the NaN count: np.nanvar documents NaN for count <= ddof.)
* arg-reductions: a result equal to NumPy's is accepted before the "index holds the extreme" facet is applied:
  np.nanargmin([nan, inf]) returns 0 (NumPy substitutes +inf for NaN and takes the first), which dask reproduces.

Parameter audit (families appended to the random stream with their own RNG; the original stream is unchanged; every family has a
counter ``audit_<family>`` and class counters with floors, see ``_count_classes``)
* ``scanblocks``: every block count 7..33 along the scanned axis, Blelloch twice and sequential once per count (the up/down-sweep
  has one shape per count: a seeded change of the downsweep start was only wrong for 7, 8, 13-16, 25-32 blocks), plus axis=None
  of 2-d arrays (flatten + rechunk to npartitions-sized pieces); set ``blelloch_block_counts_7_33``.
* ``deeptree``: 5..40 blocks along a reduced axis with split_every 2|3|4|5|None|dict, so that the tree has 3+ levels also for
  the default split_every (> 16 blocks); reductions over 2-3 axes of which ONE needs the deep tree, first or last
  (``multi_axis_earlier_axis_deeper_runs`` / ``..later..``; depths computed with dask's own rule in ``_tree_depths``).
* ``params``: non-default values of every remaining parameter on the original shape distribution: ``out=`` (a dask array of
  the result's shape and dtype, or a 1-tuple of it: the call must return it and it must compute to NumPy's result), the Array
  method instead of the function (``x.std(...)``), non-integer ddof (0.5, 1.5), ``dtype=`` and order 5 for moment, split_every
  4|5|8|16, per-axis values 4|5 and the documented global default ``dask.config.set(split_every=n)``, all 13 quantile methods,
  a Python-int q (0|1, finite float data), a 2-d q (quantile), ``weights=`` (1-d along the axis or of the array's shape, NumPy or
  dask array, method inverted_cdf; np.nanquantile only takes full-shape weights, its reference broadcasts the 1-d weights).
* ``xdtype``: complex64, int16, uint32, uint64, float16 (float16 not for products).  ``nd4``: 4-d arrays with pairwise
  different axis lengths.  ``bigchunk``: axes of 258..700 elements with a block of more than 255 elements (products only on integer data).
* ``masked``: the array is ``big[..., mask, ...]`` with a 1-d boolean dask mask along one axis (dropped rows inserted inside the
  chunks, no chunk becomes empty): mode ``unknown`` runs sum..nanstd, moment and topk on the array with unknown (NaN) chunk sizes
  (dask's documented "chunk sizes are unknown" ValueError -> unsupported: nanmin / nanmax), mode ``sized`` runs every operation
  after ``compute_chunk_sizes()``.
Label features of these parameters (``unknown-chunks``, ``after-compute_chunk_sizes``, ``out=given``, ``method-form``,
``weights=1d|full``, ``ddof-noninteger``, ``split_every=config``) are only added when the symptom disappears without the parameter.
Not generated: ``where=`` / ``initial=`` (dask's reductions have no such parameter), ``overwrite_input=True`` (documented
NotImplementedError), ``interpolation=`` (deprecated alias of method).

Calibration (parameter audit)
* Python-int q only on finite data: np.quantile(x, 0) takes an integer-index shortcut and returns -inf where np.quantile(x, 0.0)
  computes -inf + inf * 0 = NaN; dask converts the weak scalar to the array's float dtype and follows the float path.
* Python-int q on integer data is not generated (NumPy returns the integer input dtype there).
* 2-d q only for quantile: np.nanquantile places the axes of an n-d q differently for int and tuple axes (moveaxis of one axis).
* long floating products stay excluded in the new families (> 216 elements: integer data).
* moment(order >= 3) with ddof == number of reduced elements: the numerator is a sum of signed powers that cancels to
  rounding residue (exactly 0 in dask's pairwise combination, -1e-9 in the two-pass definition), and residue / 0 is NaN or +-inf
  accordingly: only shape and dtype are compared (thorough tier, 2 cases in 151 000).
* moment with dtype= narrower than the input: the reference forms x - mean in the input precision as np.var(dtype=) does
  (casting x first gave 0/0 = NaN for a single element with ddof=1 where NumPy's var and dask give residue/0 = inf).

Sibling facet (vf/mon/siblings.py): every case is also built a second time with ONE result-relevant parameter changed
(another axis / keepdims / ddof / split_every / order / scan method / k / q / quantile method / dtype=).
The two lazily built collections must not share output keys unless their stand-alone values are equal (label
``<op>:<param>-not-in-name:siblings-share-keys``); for a seeded ~15 % of the cases both are also computed in one graph and
compared with their stand-alone values (``<op>:<param>:differs-when-computed-with-sibling``).  Counters siblings_built /
siblings_computed_together / siblings_with_different_values have floors.
"""
from __future__ import annotations

import random
import warnings

import numpy as np

from ..gen import arrays as A
from ..mon import siblings as S
from ..mon.compare import compare_arrays, float_tol, lazy_meta_mismatch

PROP = "C22"
RULE = ("cases = (operation, shape, dtype, data seed/flavour, chunking, axis selection, keepdims, 1-2 split_every settings, "
        "ddof/dtype=/order/method/k/q). Complete part: all chunkings of shapes (4,) and (2,3) x {sum, max, mean, "
        "cumsum sequential, cumsum blelloch, argmin} x all axis choices (None, every int incl. negative, every non-empty "
        "axis tuple, ()) x keepdims x split_every {2, None} on an int64 array with ties and a float64 array with NaN. "
        "Random part: 31 operations (scans x 2 methods), shapes 0-3 d with axis lengths 1-6 (one axis up to 14), 10 dtypes, five data "
        "flavours (small dyadic with NaN/inf/-0.0, clean, inf, ties, non-dyadic normal) plus 'nanlanes' for the nan* "
        "operations (NaN segments aligned with the chunk grid: a block holds an all-NaN lane next to partially-NaN lanes), "
        "random chunkings. "
        "Parameter-audit families (own RNG, appended): scans over every block count 7..33, reduction trees with 3+ levels and "
        "several axes of different depth, out= / method form / non-integer ddof / moment dtype= / split_every 4..16 and from "
        "dask.config / 13 quantile methods / int and 2-d q / weights, five further dtypes, 4-d arrays, blocks of > 255 elements, "
        "arrays behind a boolean dask mask with unknown chunk sizes and after compute_chunk_sizes(). "
        "non-trivial = some axis split into >= 2 chunks; distinct = distinct (op, shape, dtype, chunks, axis, keepdims, "
        "split_every, parameters).")
ASSUMPTIONS = ["NumPy 2.x defines expected values, dtype and shape", "sync scheduler",
               "moment / topk / argtopk have no NumPy function: the reference is their documented definition"]
BUDGET = {"quick": 60, "thorough": 700}
FLOORS = {  # ~45 % of the smallest count of the five quick seeds on the current tree (quick: 7845 cases / ~6350 distinct)
    "quick": {"evaluations": 3500, "distinct_nontrivial": 2850,
              "counters": {"compared": 4100, "arg_compared": 1060, "combine_level_runs": 1060, "split_every_pairs": 1740,
                           "scan_blelloch": 265, "scan_sequential": 260, "topk_checked": 240, "lazy_meta_checked": 5200,
                           "nanlane_cases": 760, "nanlane_allnan_segment_next_to_mixed_lane": 165},
              "sets": {"op_axis_kind": 120}, "max_skipped_fraction": 0.2},
    "thorough": {"evaluations": 60000, "distinct_nontrivial": 47000,      # ~40 % of 151124 cases / 117784 distinct (seed 0)
                 "counters": {"compared": 63000, "arg_compared": 18400, "combine_level_runs": 19000, "split_every_pairs": 21000,
                              "scan_blelloch": 5300, "scan_sequential": 5100, "topk_checked": 5900, "lazy_meta_checked": 81000,
                              "nanlane_cases": 14300, "nanlane_allnan_segment_next_to_mixed_lane": 3200},
                 "sets": {"op_axis_kind": 120}, "max_skipped_fraction": 0.2},
}
# sibling facet (vf/mon/siblings.py): ~45 % of the smallest count of the five quick seeds on the unchanged tree; thorough =
# ~40 % of the thorough count (seed 0).  A run in which the facet never executed is INCONCLUSIVE.
FLOORS["quick"]["counters"].update({"siblings_built": 3500, "siblings_computed_together": 495, "siblings_with_different_values": 315})
FLOORS["thorough"]["counters"].update({"siblings_built": 60000, "siblings_computed_together": 8900, "siblings_with_different_values": 5500})
# parameter audit: quick = ~45 % of the smallest count of the five quick seeds; thorough = quick floor x 18 (the families are
# repeated AUDIT_THOROUGH_FACTOR = 20 times: ~40 % of the thorough counts)
_AUDIT_FLOORS = {"audit_scanblocks": 54, "audit_deeptree": 126, "audit_params": 340, "audit_xdtype": 99, "audit_nd4": 58,
                 "audit_bigchunk": 49, "audit_masked": 144,
                 "scan_blelloch_blocks_7_33": 44, "scan_sequential_blocks_7_33": 30,
                 "tree_depth_ge3_runs": 355, "tree_depth_ge3_default_split_every_runs": 57,
                 "multi_axis_earlier_axis_deeper_runs": 190, "multi_axis_later_axis_deeper_runs": 220,
                 "split_every_from_config_runs": 62, "split_every_ge4_runs": 105,
                 "out_checked": 330, "method_form_cases": 68, "float_ddof_cases": 35, "moment_dtype_cases": 14,
                 "quantile_weighted_cases": 23, "q_2d_cases": 10, "q_python_int_cases": 4,
                 "xdtype_cases": 96, "nd4_cases": 58, "block_gt_255_elements_cases": 43,
                 "unknown_chunks_cases": 65, "sized_after_mask_cases": 66}
FLOORS["quick"]["counters"].update(_AUDIT_FLOORS)
FLOORS["thorough"]["counters"].update({k: int(v * 18) for k, v in _AUDIT_FLOORS.items()})
for _t in ("quick", "thorough"):
    FLOORS[_t]["sets"].update({"blelloch_block_counts_7_33": 27, "quantile_methods": 13, "quantile_weight_kinds": 5, "xdtype_op": 48})
EXHAUSTIVE_SPACE = ("all chunkings of shapes (4,) and (2,3) x {sum, max, mean, cumsum(sequential), cumsum(blelloch), argmin} "
                    "x all axis choices x keepdims x split_every in {2, None} x {int64 with ties, float64 with NaN}; "
                    "all 32 chunkings of the (4,3) nan-lane array [[nan,nan,7],[nan,1,9],[4,5,8],[3,6,nan]] x "
                    "{nanargmin, nanargmax, nanmin, nanmax, nansum, nanmean, nanvar} x axis {0,1} x split_every {2, None}")
CLAIM = ("Every generated reduction / scan / selection was computed by the real dask.array for one or two split_every "
         "settings and compared with NumPy on the same data (shape, dtype, values within the reassociation tolerance, "
         "integers exactly), with the other split_every setting and with its own lazy metadata; arg-reductions are "
         "checked for 'index holds the extreme' and, separately, for NumPy's first-occurrence tie rule. Held = no "
         "mismatch and no dask exception inside the domain on the executions observed.")
LEVEL_NOTE = "NumPy is the reference; domain limited to what the statement and quantifier name (see module docstring)"
TECHNIQUE = "runtime monitoring: NumPy differential oracle over generated inputs, complete small chunking spaces, split_every cross-check"

PENDING = {  # still genuine on the current tree (known_findings.d/batch4.json); witnesses in findings_proposed/C22.md.
    # Fixed in /repo meanwhile (labels no longer expected): arg-reduction tie-break, argtopk |k|==n, blelloch dtype=,
    # moment order<2 (shape, dtype), quantile/nanquantile float32 python-scalar q.
    "nanvar:count<=ddof:values": "nanvar/nanstd with ddof == number of valid elements gives inf, np.nanvar documents NaN (no fix)",
    "nanquantile:nonfinite:values": "nanquantile fast path (last axis, linear) gives +-inf where NumPy computes inf-inf = NaN (no fix)",
    "arg-reduction:axis=int&nan&lane-extreme-is-inf:raises@array/reductions.py:nanarg_agg":
        "nanargmin/nanargmax raise 'All NaN slice' for a lane whose only valid values are inf when a chunk of it is all-NaN (no fix)",
    # parameter audit (known_findings.d/C22.json)
    "quantile:q.ndim>a.ndim:raises@array/core.py:map_blocks":
        "quantile of a 1-d array with a 2-d q raises while the graph is built (q is block-aligned with the array by map_blocks)",
}
# Fix patches of the parameter audit (fixes_ready/C22_01 .. C22_05); until they are applied to /repo these labels fire there:
#   std:out=given:result-is-not-out                       std/nanstd hand out= to var: out holds the variance (C22_01)
#   moment:order<2&out=given:result-is-not-out            moment(order 0|1) ignores out= (C22_02)
#   moment:unknown-chunks&order<2[&keepdims]:shape|lazy-shape|values   moment(order 0|1) of an array with unknown chunk sizes (C22_03)
#   nanquantile:weights=full:values                       _custom_nanquantile drops weights of the shape of the block (C22_04)
#   quantile|nanquantile:weights=full&nonreduced-axis-split:raises@...  weights of the array's shape are not cut into blocks (C22_05)

# Fraction of random cases whose chunking gets one zero-size chunk inside a non-empty axis.  OFF (0.0): the brief
# keeps zero-length inputs out of C22 and C25 already reports the zero-size-chunk defects of scans / var / min / max.
# With 0.12 the unchanged tree shows ~15 further label classes `<op>:zero-size-chunk...` (see final report / lead).
ZERO_SIZE_CHUNK_FRACTION = 0.0

NANLANE_OPS = ["nanargmin", "nanargmax", "nanargmin", "nanargmax", "nanmin", "nanmax", "nansum", "nanprod", "nanmean",
               "nanvar", "nanstd", "nancumsum", "nancumprod", "nanmedian", "nanquantile"]

RED = ["sum", "prod", "min", "max", "any", "all", "mean", "var", "std",
       "nansum", "nanprod", "nanmin", "nanmax", "nanmean", "nanvar", "nanstd", "moment"]
ARG = ["argmin", "argmax", "nanargmin", "nanargmax"]
CUM = ["cumsum", "cumprod", "nancumsum", "nancumprod"]
TOPK = ["topk", "argtopk"]
MED = ["median", "nanmedian"]
QUANT = ["quantile", "nanquantile"]
PRODLIKE = {"prod", "nanprod", "cumprod", "nancumprod"}
VARLIKE = {"var", "nanvar", "moment"}
STDLIKE = {"std", "nanstd"}
QMETHODS = ["linear", "lower", "higher", "midpoint", "nearest"]
NUM = ["bool", "int8", "int32", "int64", "uint8", "float32", "float64", "complex128"]


def family(op):
    for name, ops in (("red", RED), ("arg", ARG), ("cum", CUM), ("topk", TOPK), ("med", MED), ("quant", QUANT)):
        if op in ops:
            return name
    raise AssertionError(op)


# --------------------------------------------------------------------------- generation
def _axis_choices(nd, fam):
    out = [None] + list(range(-nd, nd))
    if fam == "red":
        import itertools

        for r in range(1, nd + 1):
            out += [list(c) for c in itertools.combinations(range(nd), r)]
        out.append([])
    return out


def _rand_axis(rng, nd, fam):
    if fam in ("arg", "cum"):
        return None if (nd == 0 or rng.random() < 0.35) else rng.randrange(-nd, nd)
    if fam == "topk":
        return rng.randrange(-nd, nd)
    if nd == 0:
        return rng.choice((None, []))
    u = rng.random()
    if (u < 0.25 and fam == "red") or (u < 0.08 and fam == "quant"):
        return None
    if u < 0.6:
        return rng.randrange(-nd, nd)
    if u < 0.63 and fam == "red":
        return []
    axes = rng.sample(range(nd), rng.randint(1, nd))
    if rng.random() < 0.5:
        axes.sort()
    return [a - nd if rng.random() < 0.25 else a for a in axes]


def _norm_axes(axis, nd):
    if axis is None:
        return tuple(range(nd))
    if isinstance(axis, int):
        return (axis % nd,)
    return tuple(a % nd for a in axis)


def _rand_split_every(rng, red_axes):
    u = rng.random()
    if u < 0.3:
        return None
    if u < 0.55:
        return 2
    if u < 0.75:
        return 3
    if not red_axes:
        return 2
    keys = rng.sample(list(red_axes), rng.randint(1, len(red_axes)))
    return [[int(k), rng.choice((2, 3))] for k in sorted(keys)]


def _rand_shape(rng, fam):
    minnd = 0 if fam == "red" else 1
    shape = list(A.rand_shape(rng, maxnd=3, maxlen=6, minnd=minnd, allow_zero=False))
    if shape and len(shape) <= 2 and rng.random() < 0.3:
        shape[rng.randrange(len(shape))] = rng.randint(7, 14)
    return shape


_UNSET = object()
_AUDIT = True      # False: only the original stream (used to check that it is unchanged)


def cases(tier, seed):
    rng = random.Random(seed * 7907 + 22)
    # ---- complete sub-space ---------------------------------------------------------------
    for shape in ((4,), (2, 3)):
        nd = len(shape)
        for chunks in A.all_chunkings(shape):
            cdesc = [list(c) for c in chunks]
            for dtype, dseed, flav in (("int64", 11, "ties"), ("float64", 5, "nan")):
                base = {"space": "exhaustive", "shape": list(shape), "dtype": dtype, "seed": dseed, "flavour": flav,
                        "chunks": cdesc}
                for op in ("sum", "max", "mean"):
                    for axis in _axis_choices(nd, "red"):
                        for kd in (False, True):
                            yield dict(base, op=op, axis=axis, keepdims=kd, ses=[2, None])
                for method in ("sequential", "blelloch"):
                    for axis in _axis_choices(nd, "cum"):
                        yield dict(base, op="cumsum", axis=axis, method=method)
                for axis in _axis_choices(nd, "arg"):
                    for kd in (False, True):
                        yield dict(base, op="argmin", axis=axis, keepdims=kd, ses=[2, None])
    # nan-lanes: a block in which one lane along the axis is entirely NaN while another lane mixes NaN and values
    for chunks in A.all_chunkings((4, 3)):
        base = {"space": "exhaustive", "shape": [4, 3], "dtype": "float64", "seed": 0, "flavour": "fixed43",
                "chunks": [list(c) for c in chunks]}
        for op in ("nanargmin", "nanargmax", "nanmin", "nanmax", "nansum", "nanmean", "nanvar"):
            for axis in (0, 1):
                yield dict(base, op=op, axis=axis, keepdims=False, ses=[2, None], **({"ddof": 0} if op == "nanvar" else {}))
    # ---- random part ------------------------------------------------------------------------
    ops = RED + ARG + ARG + CUM + CUM + TOPK + TOPK + MED + QUANT + NANLANE_OPS
    n = 3600 if tier == "quick" else 110000
    for _ in range(n):
        yield _rand_case(rng, ops)
    # ---- parameter audit families (own random stream; the stream above is unchanged) -----------
    if _AUDIT:
        yield from _audit_cases(tier, seed)


def _rand_case(rng, ops, op=None, shape=None, chunks=None, dtype=None, flavour=None, axis=_UNSET):
    """One random case.  With only (rng, ops) this is the original random stream; the audit families force the
    operation / shape / chunking / dtype / data flavour / axis and leave the rest to the same rules."""
    op = op or rng.choice(ops)
    fam = family(op)
    forced_shape = shape is not None
    shape = list(shape) if forced_shape else _rand_shape(rng, fam)
    nanlanes = op in NANLANE_OPS and rng.random() < 0.45
    if nanlanes and len(shape) < 2:
        if forced_shape:
            nanlanes = False
        else:
            shape = [rng.randint(2, 6), rng.randint(2, 6)] + ([rng.randint(1, 3)] if rng.random() < 0.3 else [])
            rng.shuffle(shape)
    if flavour is not None and flavour != "nanlanes":
        nanlanes = False
    nd = len(shape)
    size = 1
    for s in shape:
        size *= s
    forced_dtype = dtype
    if op in ("min", "max", "argmin", "argmax"):
        dtype = rng.choice(A.DTYPES)
    elif fam in ("topk", "med", "quant"):
        dtype = rng.choice(A.REAL + ["float64", "bool"] if fam == "topk" else A.REAL + ["float64"])
    elif op == "moment":
        dtype = rng.choice(A.REAL + ["float64"])
    else:
        dtype = rng.choice(NUM)
    if nanlanes:
        dtype = rng.choice(("float64", "float64", "float32"))
    if forced_dtype is not None:
        dtype = forced_dtype
        if nanlanes and not dtype.startswith("float"):
            nanlanes = False
    isfloat = dtype.startswith(("float", "complex"))
    if nanlanes:
        flav = "nanlanes"
    elif fam == "topk":
        flav = rng.choice(("clean", "ties", "inf", "normal") if isfloat else ("clean", "ties"))
    elif fam == "arg":
        flav = rng.choice(("small", "ties", "ties", "nan", "clean", "inf"))
    else:
        flav = rng.choice(("small", "small", "clean", "nan", "inf", "normal", "ties"))
    if flavour is not None and not (flavour == "nanlanes" and not nanlanes):
        flav = flavour
    flavour = flav
    d = {"op": op, "shape": shape, "dtype": dtype, "seed": rng.randrange(2 ** 31), "flavour": flavour,
         "chunks": [list(c) for c in (chunks if chunks is not None else A.rand_chunks(rng, shape))]}
    if ZERO_SIZE_CHUNK_FRACTION and shape and rng.random() < ZERO_SIZE_CHUNK_FRACTION:
        # a zero-size chunk inside a non-empty axis (facet switched off by default, see module docstring)
        cs = d["chunks"][rng.randrange(nd)]
        cs.insert(rng.randint(0, len(cs)), 0)
    rand_axis = _rand_axis(rng, nd, fam)
    if nanlanes and rand_axis is None and fam != "cum" and rng.random() < 0.8:
        rand_axis = rng.randrange(-nd, nd)      # the lane structure matters along an int / tuple axis
    axis = rand_axis if axis is _UNSET else axis
    d["axis"] = axis
    red_axes = _norm_axes(axis, nd)
    if fam in ("red", "arg", "topk"):
        first = _rand_split_every(rng, red_axes)
        ses = [first]
        if rng.random() < 0.6:
            second = _rand_split_every(rng, red_axes)
            if second != first:
                ses.append(second)
        d["ses"] = ses
    if fam in ("red", "arg", "med", "quant"):
        d["keepdims"] = rng.random() < 0.4
    if op in ("var", "std", "nanvar", "nanstd", "moment"):
        d["ddof"] = rng.choice((0, 0, 1, 1, 2))
        if not op.startswith("nan"):
            nred = 1
            for a in red_axes:
                nred *= shape[a]
            d["ddof"] = min(d["ddof"], nred)   # ddof > n: np.var divides by max(n - ddof, 0), see Calibration
    if op == "moment":
        d["order"] = rng.choice((0, 1, 1, 2, 3, 4))
    if (fam == "cum" or op in ("sum", "prod", "mean", "var", "std", "nansum", "nanprod", "nanmean", "nanvar", "nanstd")) \
            and rng.random() < 0.3:
        pool = ["float32", "float64", "complex128"]
        if fam == "cum" or op in ("sum", "prod", "nansum", "nanprod"):
            pool.append("int64")
        pool = [p for p in pool if np.can_cast(np.dtype(dtype), np.dtype(p), "same_kind")]
        if pool:
            d["dtype_arg"] = rng.choice(pool)
    if op in PRODLIKE:
        # order-dependent overflow is outside "tolerance implied by summation order" (see Calibration)
        if size > 48 and (dtype == "float32" or d.get("dtype_arg") == "float32"):
            if dtype == "float32":
                d["dtype"] = "float64"
            d.pop("dtype_arg", None)
    if fam == "cum":
        d["method"] = rng.choice(("sequential", "blelloch"))
    if fam == "topk":
        n_ax = shape[axis % nd]
        k = rng.randint(1, n_ax)
        if rng.random() < 0.25:
            k = n_ax
        d["k"] = k if rng.random() < 0.5 else -k
    if fam == "quant":
        if rng.random() < 0.4:
            d["q"] = rng.choice((0.0, 0.25, 0.5, 0.3, 1.0))
        else:
            d["q"] = [rng.choice((0.0, 0.1, 0.25, 0.5, 0.7, 1.0)) for _ in range(rng.randint(1, 3))]
        d["qmethod"] = rng.choice(QMETHODS + ["linear"] * 3)
        if axis is None:
            # dask documents NotImplementedError for a chunked full quantile
            d["chunks"] = [[s] for s in shape]
    return d


# --------------------------------------------------------------------------- parameter audit families
METHOD_FORM = {"sum", "prod", "mean", "std", "var", "moment", "min", "max", "any", "all", "argmin", "argmax",
               "cumsum", "cumprod", "topk", "argtopk"}          # operations that are also Array methods
ALL_QMETHODS = ["inverted_cdf", "averaged_inverted_cdf", "closest_observation", "interpolated_inverted_cdf", "hazen",
                "weibull", "linear", "median_unbiased", "normal_unbiased", "lower", "higher", "midpoint", "nearest"]
XDTYPES = ["complex64", "int16", "uint32", "uint64", "float16"]
AUDIT_N = {  # cases per family (quick); thorough = quick x AUDIT_THOROUGH_FACTOR
    "scanblocks_random": 40, "deeptree": 280, "params": 760, "xdtype": 220, "nd4": 130, "bigchunk": 110, "masked": 320}
AUDIT_THOROUGH_FACTOR = 20


def _comp_parts(rng, n, parts):
    """random composition of n into exactly `parts` positive parts"""
    parts = max(1, min(parts, n))
    cuts = sorted(rng.sample(range(1, n), parts - 1)) if parts > 1 else []
    b = [0] + cuts + [n]
    return [y - x for x, y in zip(b, b[1:])]


def _blocks_axis(rng, nb, slack=(0, 0, 0, 1, 2, 5)):
    """(length, chunks) of an axis cut into exactly nb blocks, mostly of size 1-2, irregular"""
    n = nb + rng.choice(slack) + (rng.randint(0, nb) if rng.random() < 0.3 else 0)
    return n, _comp_parts(rng, n, nb)


def _decorate(rng, d, p):
    """non-default values of parameters that the original stream leaves at their default (or at few values)"""
    op = d["op"]
    fam = family(op)
    shape = d["shape"]
    nd = len(shape)
    unknown = d.get("mask", {}).get("mode") == "unknown"
    if fam != "topk" and not unknown and rng.random() < p:
        d["out"] = rng.choice(("array", "array", "tuple"))
    if op in METHOD_FORM and rng.random() < 0.6 * p:
        d["form"] = "method"
    if "ddof" in d and rng.random() < 0.6 * p:
        nred = 1
        for a in _norm_axes(_axis(d["axis"]), nd):
            nred *= shape[a]
        cand = [v for v in (0.5, 1.5) if op.startswith("nan") or v <= nred]
        if cand:
            d["ddof"] = rng.choice(cand)
    if op == "moment" and rng.random() < p:
        pool = [t for t in ("float32", "float64") if np.can_cast(np.dtype(d["dtype"]), np.dtype(t), "same_kind")]
        if pool:
            d["dtype_arg"] = rng.choice(pool)
        if rng.random() < 0.3:
            d["order"] = 5
    if "ses" in d and rng.random() < p:
        red_axes = _norm_axes(_axis(d["axis"]), nd)
        u = rng.random()
        if u < 0.35:
            v = rng.choice((4, 5, 8, 16))
        elif u < 0.7 or not red_axes:
            v = {"config": rng.choice((2, 3, 5))}       # the documented global default (dask.config "split_every")
        else:
            keys = rng.sample(list(red_axes), rng.randint(1, len(red_axes)))
            v = [[int(k), rng.choice((2, 4, 5))] for k in sorted(keys)]
        i = rng.randrange(len(d["ses"]))
        if v not in d["ses"]:
            d["ses"][i] = v
    if fam == "quant":
        isf = d["dtype"].startswith("float")
        if rng.random() < p:
            d["qmethod"] = rng.choice(ALL_QMETHODS)
        u = rng.random()
        if u < 0.35 * p and isf and d["flavour"] not in ("inf", "small"):
            d["q"] = rng.choice((0, 1))                    # python int (weakly typed scalar); finite data, see Calibration
        elif u < 0.7 * p and op == "quantile":
            # (np.nanquantile lays the axes of an n-d q out differently for int and tuple axes: no reference, see Calibration)
            ncol = rng.randint(1, 3)
            d["q"] = [[rng.choice((0.0, 0.1, 0.25, 0.5, 0.7, 1.0)) for _ in range(ncol)] for _ in range(2)]   # 2-d q
        if rng.random() < 0.6 * p:
            axis = d["axis"]
            kinds = ["full"]
            if isinstance(axis, int) or (axis is None and nd == 1):
                kinds += ["1d", "1d"]
            d["w"] = {"kind": rng.choice(kinds), "seed": rng.randrange(2 ** 31), "dask": rng.random() < 0.3}
            d["qmethod"] = "inverted_cdf"                  # the only method NumPy supports with weights
    return d


def _mask_case(rng, d, mode):
    """The case's array is obtained from a larger one through a 1-d boolean dask mask along one axis: the kept rows are
    the case's data (shape, chunking as described), dropped rows are inserted inside the chunks.  mode 'unknown': the
    reduction runs on the array with unknown (nan) chunk sizes; 'sized': after compute_chunk_sizes()."""
    nd = len(d["shape"])
    m = rng.randrange(nd)
    keep, full = [], []
    while not keep or all(keep):
        keep, full = [], []
        for c in d["chunks"][m]:
            row = [1] * c + [0] * rng.choice((0, 0, 1, 1, 2))
            rng.shuffle(row)
            keep += row
            full.append(len(row))
    d["mask"] = {"axis": m, "keep": keep, "chunks": full, "mode": mode}
    return d


def _audit_cases(tier, seed):
    rng = random.Random(seed * 104729 + 2201)
    mult = 1 if tier == "quick" else AUDIT_THOROUGH_FACTOR
    main_ops = RED + ARG + ARG + CUM + CUM + TOPK + TOPK + MED + QUANT + NANLANE_OPS

    def tag(d, name):
        d["fam"] = name
        if d["op"] in PRODLIKE and int(np.prod(d["shape"] or [1])) > 216:
            # order-dependent overflow of long floating products is outside the statement (see Calibration)
            if d["dtype"].startswith(("float", "complex")):
                d["dtype"] = "int64"
                if d["flavour"] == "nanlanes":
                    d["flavour"] = "clean"
            d.pop("dtype_arg", None)
        return d

    # ---- scans over 7..33 blocks (every count, both methods): the Blelloch up/down-sweep has one shape per count --------
    for rep in range(mult):
        for nb in range(7, 34):
            for method in ("blelloch", "blelloch", "sequential"):
                op = rng.choice(CUM)
                n, comp = _blocks_axis(rng, nb)
                if rng.random() < 0.5:
                    shape, chunks, axis = [n], [comp], rng.choice((0, -1) if method == "blelloch" else (0, -1, None))
                else:
                    other = rng.randint(1, 3)
                    axis = rng.randrange(2)
                    shape = [other, other]
                    shape[axis] = n
                    chunks = [A.rand_comp(rng, other), A.rand_comp(rng, other)]
                    chunks[axis] = comp
                    if rng.random() < 0.3:
                        axis -= 2
                d = _rand_case(rng, None, op=op, shape=shape, chunks=chunks, axis=axis,
                               dtype=rng.choice(("int64", "float64", "int8", "float32", "bool", "complex128")))
                d["method"] = method
                yield tag(_decorate(rng, d, 0.2), "scanblocks")
    for _ in range(AUDIT_N["scanblocks_random"] * mult):
        # axis=None of a 2-d array: flatten + rechunk to npartitions-sized pieces
        s0, s1 = rng.randint(3, 9), rng.randint(3, 9)
        d = _rand_case(rng, None, op=rng.choice(CUM), shape=[s0, s1], axis=None,
                       chunks=[A.rand_comp(rng, s0, "two"), A.rand_comp(rng, s1, rng.choice(("one", "two")))],
                       dtype=rng.choice(("int64", "float64", "int32")))
        yield tag(_decorate(rng, d, 0.2), "scanblocks")
    # ---- reduction trees with several levels; several axes of which one needs the deeper tree ---------------------------
    for _ in range(AUDIT_N["deeptree"] * mult):
        op = rng.choice(RED + ARG + ARG + TOPK)
        fam = family(op)
        u = rng.random()
        if u < 0.45 or fam == "topk":
            # one reduced axis with many blocks
            nb = rng.choice((rng.randint(5, 16), rng.randint(17, 40)))
            n, comp = _blocks_axis(rng, nb)
            nd = rng.choice((1, 2, 2, 3))
            ax = rng.randrange(nd)
            shape = [rng.randint(1, 3) for _ in range(nd)]
            chunks = [A.rand_comp(rng, s_) for s_ in shape]
            shape[ax], chunks[ax] = n, comp
            axis = ax - nd if rng.random() < 0.3 else ax
            if nd == 1 and fam != "topk" and rng.random() < 0.4:
                axis = None
        else:
            # two or three reduced axes, one deep and the others shallow; the deep one first or last
            nd = rng.choice((2, 2, 3))
            deep = rng.choice((0, nd - 1, rng.randrange(nd)))
            shape, chunks = [], []
            for a in range(nd):
                if a == deep:
                    n, comp = _blocks_axis(rng, rng.randint(5, 17), slack=(0, 0, 1))
                else:
                    n = rng.randint(1, 4)
                    comp = _comp_parts(rng, n, rng.randint(1, min(n, 3)))
                shape.append(n)
                chunks.append(comp)
            if fam == "arg":
                axis = None if rng.random() < 0.7 else deep
            else:
                axes = [a for a in range(nd) if a == deep or rng.random() < 0.8]
                if len(axes) < 2:
                    axes = list(range(nd))
                if rng.random() < 0.3:
                    rng.shuffle(axes)
                axis = None if (len(axes) == nd and rng.random() < 0.4) else axes
        d = _rand_case(rng, None, op=op, shape=shape, chunks=chunks, axis=axis)
        red_axes = _norm_axes(_axis(d["axis"]), len(shape))
        pool = [2, 2, 3, None, None, 4, 5, [[int(a), rng.choice((2, 3))] for a in sorted(red_axes)],
                [[int(red_axes[0]), 2]]]
        d["ses"] = [rng.choice(pool)]
        second = rng.choice(pool)
        if second != d["ses"][0]:
            d["ses"].append(second)
        if fam == "topk":
            d["k"] = rng.choice((1, -1, 2, -2, 3)) if shape[d["axis"]] >= 3 else rng.choice((1, -1))
        yield tag(_decorate(rng, d, 0.15), "deeptree")
    # ---- non-default parameter values on the original shape distribution ---------------------------------------------------
    param_ops = main_ops + QUANT * 6 + ["moment"] * 5 + ["var", "std", "nanvar", "nanstd"] * 2
    for _ in range(AUDIT_N["params"] * mult):
        yield tag(_decorate(rng, _rand_case(rng, param_ops), 0.6), "params")
    # ---- further dtypes ----------------------------------------------------------------------------------------------------
    for _ in range(AUDIT_N["xdtype"] * mult):
        dt = rng.choice(XDTYPES)
        op = rng.choice(main_ops)
        while (dt == "complex64" and family(op) in ("topk", "med", "quant")) or (dt == "float16" and op in PRODLIKE) \
                or (op == "moment" and dt == "complex64"):
            op = rng.choice(main_ops)
        d = _rand_case(rng, None, op=op, dtype=dt)
        if d.get("dtype_arg") and not np.can_cast(np.dtype(dt), np.dtype(d["dtype_arg"]), "same_kind"):
            d.pop("dtype_arg")
        if op in PRODLIKE and dt == "complex64" and int(np.prod(d["shape"] or [1])) > 24:
            d["dtype"] = "complex128"
        yield tag(_decorate(rng, d, 0.15), "xdtype")
    # ---- 4-d arrays with pairwise different axis lengths -----------------------------------------------------------------------
    for _ in range(AUDIT_N["nd4"] * mult):
        shape = rng.choice(([2, 3, 4, 5], [1, 2, 3, 4], [2, 3, 4, 6], [1, 3, 2, 5]))[:]
        rng.shuffle(shape)
        yield tag(_decorate(rng, _rand_case(rng, main_ops, shape=shape), 0.15), "nd4")
    # ---- chunks of more than 255 elements / axes longer than 255 -------------------------------------------------------------------
    for _ in range(AUDIT_N["bigchunk"] * mult):
        op = rng.choice(main_ops)
        n = rng.randint(258, 700)
        u = rng.random()
        if u < 0.35:
            comp = [n]
        elif u < 0.7:
            a = rng.randint(256, n - 1)
            comp = [a, n - a] if rng.random() < 0.5 else [n - a, a]
        else:
            comp = _comp_parts(rng, n, rng.randint(2, 5))
        if rng.random() < 0.5:
            shape, chunks = [n], [comp]
        else:
            other = rng.randint(2, 3)
            ax = rng.randrange(2)
            shape, chunks = [other, other], [A.rand_comp(rng, other), A.rand_comp(rng, other)]
            shape[ax], chunks[ax] = n, comp
        dt = None
        if op in PRODLIKE:
            dt = rng.choice(("int8", "int32", "int64", "uint8", "bool"))    # wrapping integer products are order independent
        d = _rand_case(rng, None, op=op, shape=shape, chunks=chunks, dtype=dt)
        if op in PRODLIKE:
            d.pop("dtype_arg", None)
        yield tag(_decorate(rng, d, 0.15), "bigchunk")
    # ---- arrays behind a boolean dask mask: unknown chunk sizes, and the same after compute_chunk_sizes() ----------------------------
    for _ in range(AUDIT_N["masked"] * mult):
        mode = rng.choice(("unknown", "sized"))
        ops = (RED + ["topk"]) if mode == "unknown" else main_ops
        d = _rand_case(rng, ops)
        while not d["shape"]:
            d = _rand_case(rng, ops)
        yield tag(_decorate(rng, _mask_case(rng, d, mode), 0.15), "masked")


# --------------------------------------------------------------------------- audit helpers
def _unknown_chunks(case):
    return bool(case.get("mask")) and case["mask"]["mode"] == "unknown"


def _build(case, x, chunks):
    """the dask array of the case: from_array, or (mask facet) a larger array indexed with a 1-d boolean dask mask"""
    import dask.array as da

    mk = case.get("mask")
    if not mk:
        return da.from_array(x, chunks=chunks)
    m = mk["axis"]
    keep = np.array(mk["keep"], dtype=bool)
    shape = list(x.shape)
    shape[m] = len(keep)
    xf = np.ones(shape, dtype=x.dtype)
    idx = [slice(None)] * x.ndim
    idx[m] = keep
    xf[tuple(idx)] = x
    fchunks = list(chunks)
    fchunks[m] = tuple(mk["chunks"])
    idx[m] = da.from_array(keep, chunks=(fchunks[m],))
    dx = da.from_array(xf, chunks=tuple(fchunks))[tuple(idx)]
    if mk["mode"] == "sized":
        dx = dx.compute_chunk_sizes()
    return dx


def _weights(case, x, red_axes):
    """None | (weights handed to NumPy, weights handed to dask)"""
    w = case.get("w")
    if not w:
        return None
    import dask.array as da

    r = np.random.default_rng(w["seed"])
    if w["kind"] == "1d":
        ax = red_axes[0]
        wd = wn = r.integers(1, 4, x.shape[ax]).astype("float64")
        if case["op"] == "nanquantile" and x.ndim > 1:
            # np.nanquantile only takes weights of the shape of `a`; the broadcast 1-d weights are the same weighting
            shp = [1] * x.ndim
            shp[ax] = -1
            wn = np.ascontiguousarray(np.broadcast_to(wd.reshape(shp), x.shape))
        dchunks = (tuple(case["chunks"][ax]),)
    else:
        wd = wn = r.integers(1, 4, x.shape).astype("float64")
        dchunks = A.chunks_of_desc(case["chunks"])
    if w.get("dask"):
        wd = da.from_array(wd, chunks=dchunks)
    return wn, wd


def _tree_depths(se, red_axes, chunks):
    """{reduced axis: number of levels its blocks need} with dask's own rule (_tree_reduce)"""
    import math

    if isinstance(se, dict) and "config" in se:
        se = se["config"]
    if isinstance(se, dict):
        lim = {a: se.get(a, 2) for a in red_axes}
    else:
        n = max(int((se or 4) ** (1 / (len(red_axes) or 1))), 2)
        lim = {a: n for a in red_axes}
    return {a: (max(1, int(math.ceil(math.log(len(chunks[a]), lim[a])))) if len(chunks[a]) > 1 else 1) for a in red_axes}


def _scan_blocks(case, chunks):
    """number of blocks along the scanned axis as the scan sees it (axis=None: flatten + rechunk(npartitions))"""
    axis = case.get("axis")
    if axis is None and (len(chunks) > 1 or case["method"] == "blelloch"):
        npart, size = 1, 1
        for c in chunks:
            npart *= len(c)
            size *= sum(c)
        return -(-size // npart)
    return len(chunks[0 if axis is None else axis])


def _count_classes(case, ctx, fam, x, chunks, red_axes, ses):
    """counters of the input classes of the parameter audit (floors make a generator that loses a class INCONCLUSIVE)"""
    op = case["op"]
    if case.get("fam"):
        ctx.count("audit_" + case["fam"])
    if fam == "cum":
        nb = _scan_blocks(case, chunks)
        if 7 <= nb <= 33:
            ctx.count("scan_%s_blocks_7_33" % case["method"])
            if case["method"] == "blelloch":
                ctx.distinct("blelloch_block_counts_7_33", nb)
    if fam in ("red", "arg", "topk"):
        for se in ses:
            dep = _tree_depths(se, red_axes, chunks)
            if max(dep.values(), default=1) >= 3:
                ctx.count("tree_depth_ge3_runs")
                if se is None:
                    ctx.count("tree_depth_ge3_default_split_every_runs")
            if len(dep) >= 2:
                so = sorted(dep)
                pairs = [(dep[so[i]], dep[so[j]]) for i in range(len(so)) for j in range(i + 1, len(so))]
                if any(a > b for a, b in pairs):
                    ctx.count("multi_axis_earlier_axis_deeper_runs")
                if any(a < b for a, b in pairs):
                    ctx.count("multi_axis_later_axis_deeper_runs")
            if isinstance(se, dict) and "config" in se:
                ctx.count("split_every_from_config_runs")
            elif isinstance(se, int) and se >= 4:
                ctx.count("split_every_ge4_runs")
    if case.get("form") == "method":
        ctx.count("method_form_cases")
    if isinstance(case.get("ddof"), float):
        ctx.count("float_ddof_cases")
    if op == "moment" and case.get("dtype_arg"):
        ctx.count("moment_dtype_cases")
    if fam == "quant":
        ctx.distinct("quantile_methods", case["qmethod"])
        if case.get("w"):
            ctx.count("quantile_weighted_cases")
            ctx.distinct("quantile_weight_kinds", (op, case["w"]["kind"], bool(case["w"].get("dask"))))
        q = case["q"]
        if isinstance(q, list) and q and isinstance(q[0], list):
            ctx.count("q_2d_cases")
        if isinstance(q, int):
            ctx.count("q_python_int_cases")
    if case["dtype"] in XDTYPES:
        ctx.count("xdtype_cases")
        ctx.distinct("xdtype_op", (case["dtype"], op))
    if x.ndim == 4:
        ctx.count("nd4_cases")
    big = 1
    for c in chunks:
        big *= max(c) if c else 1
    if big > 255:
        ctx.count("block_gt_255_elements_cases")
    if case.get("mask"):
        ctx.count("unknown_chunks_cases" if _unknown_chunks(case) else "sized_after_mask_cases")


def _short(v):
    try:
        if hasattr(v, "compute"):
            v = v.compute(scheduler="sync")
        return str(np.asarray(v).tolist())[:120]
    except Exception as ex:  # noqa: BLE001
        return "<%s>" % type(ex).__name__


# --------------------------------------------------------------------------- data
def _data(case):
    a = _data0(case)
    return _finite(a) if case.get("_finite") else a


def _data0(case):
    shape, dtype, flav = tuple(case["shape"]), case["dtype"], case["flavour"]
    seed = case["seed"]
    r = np.random.default_rng(seed + 77)
    n = int(np.prod(shape)) if shape else 1
    isf = dtype.startswith("float")
    if dtype == "complex64":
        return _data0(dict(case, dtype="complex128")).astype("complex64")
    if flav == "small":
        return A.rand_data(seed, shape, dtype, special=True)
    if flav == "fixed43":
        nan = np.nan
        return np.array([[nan, nan, 7], [nan, 1, 9], [4, 5, 8], [3, 6, nan]], dtype=dtype)
    if flav == "nanlanes":
        return _nanlanes(case, r)
    if flav == "ties":
        if dtype == "bool" or dtype.startswith(("datetime", "timedelta")):
            return A.rand_data(seed, shape, dtype, special=False)
        vals = r.integers(-2, 3, 2)
        if dtype.startswith("uint"):
            vals = np.abs(vals)
        a = vals[r.integers(0, 2, n)].astype(dtype)
        if n > 2 and r.random() < 0.5:
            a[r.integers(0, n)] = a.max() + 1 if r.random() < 0.5 else (a.min() - 1 if not dtype.startswith("uint") else 0)
        return a.reshape(shape)
    a = A.rand_data(seed, shape, dtype, special=False)
    if flav == "normal" and isf:
        a = np.clip(r.normal(size=n) * 1.5, -4.5, 4.5).astype(dtype).reshape(shape)
    if flav == "nan" and isf and n:
        flat = a.reshape(-1) if a.ndim else a.reshape(1)
        flat = flat.copy()
        flat[r.integers(0, n, max(1, n // 3))] = np.nan
        a = flat.reshape(shape)
    if flav == "inf" and isf and n:
        flat = (a.reshape(-1) if a.ndim else a.reshape(1)).copy()
        flat[r.integers(0, n)] = np.inf
        if r.random() < 0.5:
            flat[r.integers(0, n)] = -np.inf
        a = flat.reshape(shape)
    return a


def _nanlanes(case, r):
    """Float data whose NaNs follow the chunk grid: along the (first) reduction axis whole chunk-segments of some
    lanes are NaN (the lane keeps valid values in another segment, so NumPy does not raise), other lanes of the
    same blocks get scattered NaNs; half of the time the lane's extreme values sit next to the NaN segments."""
    shape, dtype = tuple(case["shape"]), case["dtype"]
    nd = len(shape)
    red = _norm_axes(_axis(case.get("axis")), nd)
    ax = red[0] if red else 0
    a = np.moveaxis(A.rand_data(case["seed"], shape, dtype, special=False).copy(), ax, 0)   # view: axis first
    base = a.copy()
    sizes = [c for c in case["chunks"][ax] if c]
    bounds = np.concatenate([[0], np.cumsum(sizes)]).astype(int)
    nseg = len(sizes)
    lanes = a.reshape(shape[ax], -1)          # view on `a` (moveaxis result is reshaped without copy when possible)
    if not np.shares_memory(lanes, a):
        a = np.ascontiguousarray(a)
        lanes = a.reshape(shape[ax], -1)
    nlanes = lanes.shape[1]
    p_seg = r.choice((0.25, 0.4, 0.6))
    for j in range(nlanes):
        if nseg >= 2:
            kill = [s for s in range(nseg) if r.random() < p_seg]
            if len(kill) == nseg:
                kill.pop(int(r.integers(0, nseg)))
            for s_ in kill:
                lanes[bounds[s_]:bounds[s_ + 1], j] = np.nan
        # scattered NaNs in the remaining elements
        m = r.random(shape[ax]) < 0.3
        lanes[m, j] = np.nan
        if np.isnan(lanes[:, j]).all():
            k = int(r.integers(0, shape[ax]))
            lanes[k, j] = base.reshape(shape[ax], -1)[k, j]
    return np.ascontiguousarray(np.moveaxis(a, 0, ax))


def _finite(a):
    if a.dtype.kind in "fc":
        return np.where(np.isfinite(a), a, a.dtype.type(1))
    if a.dtype.kind in "Mm":
        return np.where(np.isnat(a), a.dtype.type(0, "ns"), a)
    return a


def _se(desc):
    if isinstance(desc, list):
        return {int(k): int(v) for k, v in desc}
    return desc


def _axis(desc):
    return tuple(desc) if isinstance(desc, list) else desc


# --------------------------------------------------------------------------- label features
def _kind(x):
    return x.dtype.kind


def _nonfinite(x):
    if x.dtype.kind in "fc":
        return not bool(np.isfinite(x).all())
    if x.dtype.kind in "Mm":
        return bool(np.isnat(x).any())
    return False


def _axis_kind(axis):
    if axis is None:
        return "axis=None"
    if isinstance(axis, int):
        return "axis=int"
    return "axis=()" if len(axis) == 0 else "axis=tuple"


def _arg_feat(case, x):
    axis = _axis(case.get("axis"))
    f = [_axis_kind(axis)]
    if x.ndim > 1 and axis is None:
        f.append("ndim>1")
    op = case["op"]
    if op.startswith("nanarg") and x.dtype.kind == "f" and np.isnan(x).any():
        # a lane whose only non-NaN values are the infinity that NumPy substitutes for NaN
        with warnings.catch_warnings():
            warnings.simplefilter("ignore")
            ax = None if axis is None else axis
            ext = np.nanmin(x, axis=ax) if op == "nanargmin" else np.nanmax(x, axis=ax)
            hasnan = np.isnan(x).any(axis=ax)
            if np.any((np.isposinf(ext) if op == "nanargmin" else np.isneginf(ext)) & hasnan):
                f.append("nan&lane-extreme-is-inf")
    return f


def _variant_clears(case, symptom, **override):
    """Classifier helper (causal minimisation): does the symptom disappear on a variant of the case?"""
    from ..core.ctx import Ctx

    c2 = dict(case, **override)
    sub = Ctx(c2)
    try:
        run_case(c2, sub, _classify=False)
    except Exception:  # noqa: BLE001
        return True
    return not any(v["label"].endswith(":" + symptom) for v in sub.violations)


def _nonfinite_matters(case, symptom):
    """does the symptom disappear when every NaN/inf/NaT of the input is replaced by a finite value?
    Only then is `nonfinite` part of the label."""
    return _variant_clears(case, symptom, _finite=True)


def _has_zero_chunk(case):
    return any(c == 0 for cs in case["chunks"] for c in cs)


def _zero_chunk_matters(case, symptom):
    """does the symptom disappear when the zero-size chunks are dropped from the chunking?"""
    return _variant_clears(case, symptom, chunks=[[c for c in cs if c] for cs in case["chunks"]])


def _deco_feats(case, symptom):
    """features of the audit parameters, kept only if the symptom disappears without that parameter (re-runs the REAL API)"""
    f = []
    if case.get("mask") and _variant_clears(case, symptom, mask=None):
        f.append("unknown-chunks" if _unknown_chunks(case) else "after-compute_chunk_sizes")
    if case.get("out") and _variant_clears(case, symptom, out=None):
        f.append("out=given")
    if case.get("form") and _variant_clears(case, symptom, form=None):
        f.append("method-form")
    if case.get("w") and _variant_clears(case, symptom, w=None):
        f.append("weights=" + case["w"]["kind"])
        red = _norm_axes(_axis(case.get("axis")), len(case["shape"]))
        if symptom.startswith("raises@") and any(len(c) > 1 for a, c in enumerate(case["chunks"]) if a not in red):
            f.append("nonreduced-axis-split")
    if isinstance(case.get("ddof"), float) and _variant_clears(case, symptom, ddof=int(case["ddof"] + 0.5)):
        f.append("ddof-noninteger")
    if any(isinstance(v, dict) for v in case.get("ses", [])) and \
            _variant_clears(case, symptom, ses=[(v["config"] if isinstance(v, dict) else v) for v in case["ses"]]):
        f.append("split_every=config")
    return f


def _feat(case, x, symptom, classify=True):
    base = _feat0(case, x, symptom, classify)
    extra = []
    if _has_zero_chunk(case) and (not classify or _zero_chunk_matters(case, symptom)):
        extra.append("zero-size-chunk")
    if classify:
        extra += _deco_feats(case, symptom)
    if extra:
        return "&".join(extra if base == "any" else extra + [base])
    return base


def _feat0(case, x, symptom, classify=True):
    op = case["op"]
    if family(op) == "arg":
        return "&".join(_arg_feat(case, x))
    f = []
    if op == "moment" and case.get("order", 2) < 2:
        f.append("order<2")
    if symptom in ("shape", "lazy-shape", "lazy-chunks"):
        if x.ndim == 0:
            f.append("0-d")
        if case.get("keepdims"):
            f.append("keepdims")
        if family(op) in ("quant",):
            f.append("q-vector" if isinstance(case["q"], list) else "q-scalar")
        if isinstance(case.get("axis"), list) and len(case["axis"]) == 0:
            f.append("axis=()")
    elif symptom in ("dtype", "lazy-dtype"):
        f.append("kind=" + _kind(x) if x.dtype != np.dtype("float32") else "float32")
        if case.get("dtype_arg"):
            f.append("dtype=given")
        if family(op) == "quant":
            f.append("q-vector" if isinstance(case["q"], list) else "q-python-scalar")
    else:
        if x.dtype.kind in "Mm":
            f.append("kind=" + _kind(x))
        le_ddof = "ddof" in case and _count_le_ddof(case, x)
        if le_ddof:
            f.append("count<=ddof")   # the precise predicate; NaN content only matters through the count
        elif _nonfinite(x) and (not classify or _nonfinite_matters(case, symptom)):
            f.append("nonfinite")
        if family(op) == "topk" and abs(case["k"]) == x.shape[case["axis"]]:
            f.append("|k|==n")
        if family(op) == "cum":
            f.append(case["method"])
            if case.get("dtype_arg"):
                f.append("dtype=given")
    return "&".join(f) if f else "any"


def _count_le_ddof(case, x):
    """some reduced slice has no more (valid) elements than ddof"""
    red = _norm_axes(_axis(case.get("axis")), x.ndim)
    if case["op"].startswith("nan") and x.dtype.kind in "fc":
        cnt = (~np.isnan(x)).sum(axis=red)
    else:
        cnt = np.asarray(int(np.prod([x.shape[a] for a in red])) if red else 1)
    return bool((cnt <= case["ddof"]).any())


def _exc_prefix(case, x):
    op = case["op"]
    if family(op) == "arg":
        return "arg-reduction:" + "&".join(_arg_feat(case, x))
    f = []
    if x.ndim == 0:
        f.append("0-d")
    if isinstance(case.get("axis"), list) and len(case["axis"]) == 0:
        f.append("axis=()")
    if x.dtype.kind in "Mm":
        f.append("kind=" + _kind(x))
    if op == "moment" and case.get("order", 2) < 2:
        f.append("order<2")
    if family(op) == "topk" and abs(case["k"]) == x.shape[case["axis"]]:
        f.append("|k|==n")
        if len(case["chunks"][case["axis"]]) > 1:
            f.append("axis-split")
    if family(op) == "cum":
        f.append(case["method"])
    if family(op) == "quant" and isinstance(case["q"], list) and case["q"] and isinstance(case["q"][0], list):
        if x.ndim < 2:
            f.append("q.ndim>a.ndim")
    if case.get("dtype_arg"):
        f.append("dtype=given")
    return "%s:%s" % (op, "&".join(f) if f else "any")


def _raise_violation(ctx, case, x, ex, se, classify=True):
    """dask raised inside the domain.  The label names the innermost dask frame but not the exception
    type: one mechanism may surface as different exception types depending on the chunk count."""
    import traceback

    from ..core.ctx import CaseTimeout, dask_frame

    if isinstance(ex, CaseTimeout):
        raise ex
    fr = dask_frame(ex)
    where = "%s:%s" % fr if fr else "outside-dask"
    tb = "".join(traceback.format_exception(type(ex), ex, ex.__traceback__))[-3000:]
    prefix = _exc_prefix(case, x)
    sym = "raises@%s" % where
    extra = []
    if _has_zero_chunk(case) and (not classify or _zero_chunk_matters(case, sym)):
        extra.append("zero-size-chunk")
    if classify:
        extra += _deco_feats(case, sym)
    if extra:
        op_, f_ = prefix.split(":", 1)
        prefix = "%s:%s" % (op_, "&".join(extra if f_ == "any" else extra + [f_]))
    ctx.violation("%s:%s" % (prefix, sym), "%s: %s" % (type(ex).__name__, str(ex)[:400]),
                  traceback=tb, split_every=repr(se))


# --------------------------------------------------------------------------- references
def _scale(x):
    if x.dtype.kind in "fc":
        fin = np.abs(x[np.isfinite(x)])
        return float(fin.max()) if fin.size else 1.0
    if x.dtype.kind in "Mm":
        return 1.0
    return float(np.abs(x.astype("float64")).max()) if x.size else 1.0


def _moment_ref(x, order, axis, keepdims, ddof, dtype=None):
    dt = np.dtype(dtype) if dtype else np.var(np.ones((1,), dtype=x.dtype)).dtype
    # as np.var with dtype=: the mean is taken in dt, the deviations x - mean keep the (possibly wider) input precision
    xf = x if (dtype and x.dtype.kind == "f") else x.astype(dt)
    nd = x.ndim
    red = _norm_axes(axis, nd)
    n = 1
    for a in red:
        n *= x.shape[a]
    ax = tuple(red)
    d = xf - xf.mean(axis=ax, keepdims=True, dtype=dt)
    s = (d ** order).sum(axis=ax, keepdims=keepdims, dtype=dt)
    den = n - ddof
    if den < 0:
        den = np.nan
    return np.asarray(s / dt.type(den) if den == den else s * np.nan, dtype=dt)


def _topk_ref(x, k, axis):
    srt = np.sort(x, axis=axis)
    n = srt.shape[axis]
    if k > 0:
        return np.take(srt, list(range(n - 1, n - 1 - k, -1)), axis=axis)
    return np.take(srt, list(range(0, -k)), axis=axis)


def _cmp_std(r, e, scale, tol):
    """std compared through its square with the var tolerance (see Calibration)."""
    m = compare_arrays(r, e, exact=False, n=tol["n"], scale=scale, factor=tol["factor"])
    if m is None or m[0] != "values":
        return m
    r_, e_ = np.asarray(r), np.asarray(e)
    with np.errstate(all="ignore"):
        if np.any(np.less(r_.real if r_.dtype.kind == "c" else r_, 0)):
            return ("values", "negative std: " + m[1])
        m2 = compare_arrays(r_ * r_, e_ * e_, exact=False, check_dtype=False, **tol)
    return None if m2 is None else ("values", m[1])


# --------------------------------------------------------------------------- run
def run_case(case, ctx, _classify=True):
    import dask.array as da

    op = case["op"]
    fam = family(op)
    x = _data(case)
    chunks = A.chunks_of_desc(case["chunks"])
    axis = _axis(case.get("axis"))
    kd = bool(case.get("keepdims", False))
    ses = [_se(s) for s in case.get("ses", [None])]
    nd = x.ndim
    red_axes = _norm_axes(axis, nd)
    nred = 1
    for a in red_axes:
        nred *= x.shape[a]
    scale = _scale(x)

    ctx.op(op)
    ctx.sig = (op, case["shape"], case["dtype"], case["chunks"], case.get("axis"), kd, case.get("ses"),
               case.get("ddof"), case.get("dtype_arg"), case.get("order"), case.get("method"), case.get("k"),
               case.get("q"), case.get("qmethod"), case["flavour"], case["seed"],
               case.get("out"), case.get("form"), case.get("w"), case.get("mask"))
    ctx.nontrivial = A.has_split(chunks)
    ctx.distinct("op_axis_kind", (op, _axis_kind(axis), kd))
    if _has_zero_chunk(case):
        ctx.count("zero_size_chunk_cases")
    if case["flavour"] in ("nanlanes", "fixed43") and x.ndim >= 2:
        # does some block hold an all-NaN lane segment next to a lane that mixes NaN and values?  (the situation
        # in which the per-block all-NaN fallback of the nan-arg reductions matters)
        ax0 = red_axes[0] if red_axes else 0
        xm = np.moveaxis(np.isnan(x), ax0, 0).reshape(x.shape[ax0], -1)
        b = np.concatenate([[0], np.cumsum([c for c in chunks[ax0] if c])]).astype(int)
        hit = False
        for lo, hi in zip(b, b[1:]):
            seg = xm[lo:hi]
            if seg.all(axis=0).any() and (seg.any(axis=0) & ~seg.all(axis=0)).any():
                hit = True
        ctx.count("nanlane_cases")
        if hit:
            ctx.count("nanlane_allnan_segment_next_to_mixed_lane")
    dx = _build(case, x, chunks)
    if _classify:
        _count_classes(case, ctx, fam, x, chunks, red_axes, ses)

    # ---- build the NumPy reference and the dask thunk -----------------------------------------
    def mk_kw(c):
        k = {}
        if fam in ("red", "arg", "med", "quant"):
            k["axis"] = _axis(c.get("axis"))
            k["keepdims"] = bool(c.get("keepdims", False))
        if "ddof" in c:
            k["ddof"] = c["ddof"]
        if c.get("dtype_arg"):
            k["dtype"] = c["dtype_arg"]
        return k

    kw = mk_kw(case)
    wts = _weights(case, x, red_axes)       # None | (weights for NumPy, weights for dask)

    def ref():
        if op == "moment":
            return _moment_ref(x, case["order"], axis, kd, case.get("ddof", 0), case.get("dtype_arg"))
        if fam == "cum":
            k2 = {"axis": axis}
            if "dtype" in kw:
                k2["dtype"] = kw["dtype"]
            return getattr(np, op)(x, **k2)
        if fam == "topk":
            return _topk_ref(x, case["k"], axis)
        if fam == "quant":
            if wts is not None:
                return getattr(np, op)(x, case["q"], method=case["qmethod"], weights=wts[0], **kw)
            return getattr(np, op)(x, case["q"], method=case["qmethod"], **kw)
        return getattr(np, op)(x, **kw)

    def dask_call(se, c=case, out=None):
        # c is the case itself, or (sibling facet) the case with one parameter changed
        if isinstance(se, dict) and "config" in se:
            # the global default of split_every (documented in reduction()), read when the graph is built
            import dask

            with dask.config.set(split_every=se["config"]):
                return dask_call(None, c, out)
        kw = mk_kw(c)
        if out is not None:
            kw["out"] = out
        axis = _axis(c.get("axis"))
        # the function dask.array.<op>(x, ...) or, for a part of the cases, the Array method x.<op>(...)
        f = (lambda *a, **k: getattr(dx, op)(*a, **k)) if c.get("form") == "method" else \
            (lambda *a, **k: getattr(da, op)(dx, *a, **k))
        if op == "moment":
            k2 = dict(kw)
            return f(c["order"], split_every=se, **k2)
        if fam == "cum":
            k2 = {"axis": axis, "method": c["method"]}
            for name in ("dtype", "out"):
                if name in kw:
                    k2[name] = kw[name]
            return f(**k2)
        if fam == "topk":
            return f(c["k"], axis=axis, split_every=se)
        if fam == "med":
            return f(**kw)
        if fam == "quant":
            if wts is not None:
                kw["weights"] = wts[1]
            return f(c["q"], method=c["qmethod"], **kw)
        return f(split_every=se, **kw)

    with warnings.catch_warnings():
        warnings.simplefilter("ignore")
        with np.errstate(all="ignore"):
            try:
                e = ref()
            except Exception as ex:  # noqa: BLE001
                ctx.reject("numpy: %s: %s" % (type(ex).__name__, ex))
                return
            if fam == "arg":
                try:
                    extreme = getattr(np, op.replace("arg", ""))(x, axis=axis, keepdims=kd)
                except Exception as ex:  # noqa: BLE001
                    ctx.reject("numpy: %s: %s" % (type(ex).__name__, ex))
                    return
            results = []
            outs = []
            for se in ses:
                out = None
                try:
                    if case.get("out"):
                        # out=: "another dask array whose contents will be replaced" (shape and dtype of the result)
                        e_ = np.asarray(e)
                        out = da.zeros(e_.shape, dtype=e_.dtype, chunks=tuple(max(1, (s_ + 1) // 2) for s_ in e_.shape))
                    r = dask_call(se, out=((out,) if case.get("out") == "tuple" else out))
                    if not isinstance(r, da.Array):
                        ctx.violation("%s:any:result-not-a-dask-array" % op, "got %r" % (type(r),))
                        return
                    rv = r.compute(scheduler="sync")
                except NotImplementedError as ex:
                    ctx.unsupported(str(ex))
                    return
                except Exception as ex:  # noqa: BLE001
                    if _unknown_chunks(case) and isinstance(ex, ValueError) and "unknown" in str(ex).lower():
                        # dask documents that some operations need known chunk sizes and says so (nanmin / nanmax)
                        ctx.unsupported("unknown chunk sizes: " + str(ex)[:120])
                        return
                    _raise_violation(ctx, case, x, ex, se, _classify)
                    return
                results.append((se, r, rv))
                outs.append(out)
                # depth of the reduction tree: was an intermediate combine level exercised?
                if fam in ("red", "arg", "topk"):
                    if max(_tree_depths(se, red_axes, chunks).values(), default=1) >= 2:
                        ctx.count("combine_level_runs")

    e = np.asarray(e)
    bad = False
    with warnings.catch_warnings():
        warnings.simplefilter("ignore")
        with np.errstate(all="ignore"):
            for (se, r, rv), out in zip(results, outs):
                if out is not None:
                    # the returned array IS out, whose contents are the result (checked through rv below when r is out)
                    ctx.count("out_checked")
                    if r is not out:
                        bad = True
                        f_ = ["order<2"] if (op == "moment" and case.get("order", 2) < 2) else []
                        if fam == "cum":
                            f_.append(case["method"])      # the two scan methods end in different functions
                        ctx.violation("%s:%s:result-is-not-out" % ("std" if op in STDLIKE else "arg-reduction" if fam == "arg" else
                                                                     "scan" if fam == "cum" else op,
                                                                     "&".join(f_ + ["out=given"])),
                                      "the call returned an array that is not `out`; out now computes to %s, NumPy's result is %s"
                                      % (_short(out), _short(e)), split_every=repr(se))
                m = _check_one(case, ctx, fam, op, x, e, rv, axis, kd, nred, scale,
                               extreme if fam == "arg" else None)
                if m:
                    bad = True
                    lab_op, feat = op, (m[2] if len(m) > 2 else _feat(case, x, m[0], _classify))
                    if fam == "arg":
                        lab_op = "arg-reduction"   # the four functions share arg_reduction/arg_chunk/_arg_combine
                    elif not _classify:
                        pass
                    elif op in STDLIKE and m[0] == "values" and _var_also_differs(case, op, dx, x, se, kw, nred, scale):
                        lab_op = op.replace("std", "var")   # std = sqrt(var): the mechanism is in var
                    elif fam == "cum" and case["method"] == "blelloch" and m[0] == "values" \
                            and _sequential_agrees(case, op, dx, e, axis, kw, nred, scale):
                        lab_op = "blelloch-scan"   # specific to prefixscan_blelloch, shared by the four scans
                        feat = "&".join(p for p in feat.split("&") if p != "blelloch") or "any"
                    ctx.violation("%s:%s:%s" % (lab_op, feat, m[0]), m[1],
                                  split_every=repr(se), lazy=(str(r.shape), str(r.dtype)))
                ctx.count("lazy_meta_checked")
                lm = lazy_meta_mismatch(r, rv)
                if lm and fam == "quant" and lm[0] == "lazy-dtype":
                    lm = None   # NumPy's quantile result dtype is value dependent (NaN content): see Calibration
                if lm:
                    bad = True
                    ctx.violation("%s:%s:%s" % ("arg-reduction" if fam == "arg" else op, _feat(case, x, lm[0]), lm[0]),
                                  lm[1], split_every=repr(se))
            # ---- the result does not depend on split_every ------------------------------------------
            if len(results) == 2 and not bad:
                ctx.count("split_every_pairs")
                (s1, _, v1), (s2, _, v2) = results
                m = _pair(op, fam, case, v1, v2, nred, scale)
                if m:
                    ctx.violation("%s:%s:split_every-dependent-%s" % ("arg-reduction" if fam == "arg" else op,
                                                                     _feat(case, x, m[0], _classify), m[0]), m[1],
                                  split_every=[repr(s1), repr(s2)])
    rv0 = np.asarray(results[0][2])
    ctx.sample = {"op": op, "chunks": case["chunks"], "axis": case.get("axis"), "split_every": case.get("ses"),
                  "result_shape": list(rv0.shape), "dtype": str(rv0.dtype),
                  "tolerance": list(float_tol(e.dtype, n=nred, scale=scale)) if e.dtype.kind in "fc" else "exact"}
    # ---- sibling facet: the same call with ONE parameter changed must not share keys with this one ------------
    if _classify:
        sib = _sibling(case, fam)
        if sib is not None:
            param, c2, se2 = sib
            se0, r0, v0 = results[0]
            # label by shared naming code: the 17 plain reductions are named in reduction()/_tree_reduce, the four
            # arg-reductions in arg_reduction, the four scans in cumreduction (the function is in the witness detail)
            lab_op = {"red": "reduction", "arg": "arg-reduction", "cum": "scan"}.get(fam, op)
            S.check(ctx, lab_op, param, r0,
                    (lambda: dask_call(se0 if se2 is _SAME else _se(se2), c2)), va=v0,
                    describe=dict({k: c2.get(k) for k in ("axis", "keepdims", "ddof", "order", "method", "k", "q", "qmethod", "dtype_arg")
                                   if c2.get(k) != case.get(k)} or {"split_every": se2}, function=op))


_SAME = object()


def _sibling(case, fam):
    """(parameter, case with that ONE parameter changed, split_every or _SAME) or None.  The changed parameter is one
    that the result depends on: axis / keepdims / ddof / split_every / order / method / k / q / q method / dtype=."""
    op = case["op"]
    shape = case["shape"]
    nd = len(shape)
    srng = S.rng_for(case)
    axis = _axis(case.get("axis"))
    opts = []
    if nd >= 2 or (nd == 1 and fam == "red"):
        opts.append("axis")
    for k in ("keepdims", "ddof", "order", "method", "k", "q", "qmethod"):
        if k in case:
            opts.append(k)
    if "ses" in case:
        opts.append("split_every")
    if fam == "cum" or op in ("sum", "prod", "mean", "var", "std", "nansum", "nanprod", "nanmean", "nanvar", "nanstd"):
        opts.append("dtype")
    if case.get("w"):
        # weights fix the method (inverted_cdf) and, in the 1-d form, the axis
        opts = [o_ for o_ in opts if o_ not in ("axis", "qmethod")]
    srng.shuffle(opts)
    for param in opts:
        c2 = dict(case)
        if param == "axis":
            cur = sorted(_norm_axes(axis, nd))
            if fam in ("arg", "cum"):
                cand = [None] + list(range(nd))
            elif fam == "topk":
                cand = list(range(nd))
            else:
                cand = list(_axis_choices(nd, "red"))       # axis=() (nothing reduced) included for the plain reductions
                if fam in ("med", "quant"):
                    cand = [a for a in cand if a is not None and a != []]
            # another set of reduced axes; for arg-reductions and scans of >= 2-d arrays also flattened (None) against an int
            cand = [a for a in cand if sorted(_norm_axes(_axis(a), nd)) != cur
                    or (nd >= 2 and fam in ("arg", "cum") and (a is None) != (axis is None))]
            if fam == "topk":
                cand = [a for a in cand if shape[a] >= abs(case["k"])]
            if not cand:
                continue
            c2["axis"] = srng.choice(cand)
            if "ddof" in c2 and not op.startswith("nan"):
                nred = 1
                for a in _norm_axes(_axis(c2["axis"]), nd):
                    nred *= shape[a]
                if c2["ddof"] > nred:
                    continue
            return "axis", c2, _SAME
        if param == "keepdims":
            c2["keepdims"] = not case["keepdims"]
            return "keepdims", c2, _SAME
        if param == "ddof":
            nred = 1
            for a in _norm_axes(axis, nd):
                nred *= shape[a]
            cand = [d for d in (0, 1, 2) if d != case["ddof"] and (op.startswith("nan") or d <= nred)]
            if not cand:
                continue
            c2["ddof"] = srng.choice(cand)
            return "ddof", c2, _SAME
        if param == "order":
            c2["order"] = srng.choice([o for o in (0, 1, 2, 3, 4) if o != case["order"]])
            return "order", c2, _SAME
        if param == "method":
            c2["method"] = "blelloch" if case["method"] == "sequential" else "sequential"
            return "method", c2, _SAME
        if param == "k":
            n_ax = shape[axis % nd]
            cand = [k for k in list(range(1, n_ax + 1)) + [-k for k in range(1, n_ax + 1)] if k != case["k"]]
            c2["k"] = srng.choice(cand)
            return "k", c2, _SAME
        if param == "q":
            q = case["q"]
            if isinstance(q, list) and q and isinstance(q[0], list):
                q2 = [list(row) for row in q]
                i, j = srng.randrange(len(q2)), srng.randrange(len(q2[0]))
                q2[i][j] = srng.choice([v for v in (0.0, 0.1, 0.25, 0.5, 0.7, 1.0) if v != q2[i][j]])
            elif isinstance(q, list):
                q2 = list(q)
                i = srng.randrange(len(q2))
                q2[i] = srng.choice([v for v in (0.0, 0.1, 0.25, 0.5, 0.7, 1.0) if v != q2[i]])
            else:
                q2 = srng.choice([v for v in (0.0, 0.25, 0.5, 0.3, 1.0) if v != q])
            c2["q"] = q2
            return "q", c2, _SAME
        if param == "qmethod":
            c2["qmethod"] = srng.choice([m for m in (ALL_QMETHODS if case["qmethod"] not in QMETHODS else QMETHODS)
                                         if m != case["qmethod"]])
            return "method", c2, _SAME
        if param == "split_every":
            first = case["ses"][0]
            cand = [v for v in (2, 3, 5) if v != first]
            return "split_every", c2, srng.choice(cand)
        if param == "dtype":
            pool = ["float32", "float64", "complex128"]
            if fam == "cum" or op in ("sum", "prod", "nansum", "nanprod"):
                pool.append("int64")
            pool = [p for p in pool if np.can_cast(np.dtype(case["dtype"]), np.dtype(p), "same_kind") and p != case.get("dtype_arg")]
            if op in PRODLIKE:
                pool = [p for p in pool if p != "float32"]
            if case.get("dtype_arg") and srng.random() < 0.3:
                c2.pop("dtype_arg")
                return "dtype", c2, _SAME
            if not pool:
                continue
            c2["dtype_arg"] = srng.choice(pool)
            return "dtype", c2, _SAME
    return None


def _var_also_differs(case, op, dx, x, se, kw, nred, scale):
    """Classifier helper: does the corresponding var / nanvar differ from NumPy on the same input?"""
    import dask.array as da

    vop = op.replace("std", "var")
    try:
        e = np.asarray(getattr(np, vop)(x, **kw))
        rv = getattr(da, vop)(dx, split_every=se, **kw).compute(scheduler="sync")
        return compare_arrays(rv, e, exact=False, **_tol_args(vop, case, nred, scale, e)) is not None
    except Exception:  # noqa: BLE001
        return False


def _sequential_agrees(case, op, dx, e, axis, kw, nred, scale):
    """Classifier helper: does method='sequential' give NumPy's result on the input where 'blelloch' did not?"""
    import dask.array as da

    try:
        k2 = {"axis": axis, "method": "sequential"}
        if "dtype" in kw:
            k2["dtype"] = kw["dtype"]
        rv = getattr(da, op)(dx, **k2).compute(scheduler="sync")
        return compare_arrays(rv, e, exact=False, **_tol_args(op, case, nred, scale, e)) is None
    except Exception:  # noqa: BLE001
        return False


def _eps(dt):
    dt = np.dtype(dt)
    if dt.kind == "c":
        dt = np.dtype("float32") if dt == np.dtype("complex64") else np.dtype("float64")
    return float(np.finfo(dt).eps) if dt.kind == "f" else 0.0


def _tol_args(op, case, nred, scale, e):
    """keyword arguments of compare_arrays: the tolerance implied by reassociating the operation."""
    if op in PRODLIKE:
        sc = float(np.nanmax(np.abs(e[np.isfinite(e)]))) if (e.dtype.kind == "c" and np.isfinite(e).any()) else 0.0
        return {"n": nred, "scale": sc}
    if op in VARLIKE or op in STDLIKE:
        # working precision = the less precise of input and result dtype (np.nanvar keeps the deviations in
        # the input precision even when dtype=float64 is requested)
        factor = 8.0
        ein, eout = _eps(case["dtype"]), _eps(e.dtype)
        if ein > eout > 0:
            factor *= ein / eout
        return {"n": nred, "scale": (2 * scale) ** max(case.get("order", 2), 1), "factor": factor}
    if family(op) in ("med", "quant"):
        # NumPy forms b - a in the input precision even when the result is float64
        factor = 8.0
        ein, eout = _eps(case["dtype"]), _eps(e.dtype)
        if ein > eout > 0:
            factor *= ein / eout
        return {"n": 2 if family(op) == "med" else 4, "scale": scale, "factor": factor}
    return {"n": nred, "scale": scale}


def _check_one(case, ctx, fam, op, x, e, rv, axis, kd, nred, scale, extreme):
    """-> None or (symptom, message[, feature override])."""
    rv_a = np.asarray(rv)
    if fam == "arg":
        return _check_arg(case, ctx, op, x, e, rv_a, axis, kd, extreme)
    if fam == "topk" and op == "argtopk":
        ctx.count("topk_checked")
        if rv_a.shape != e.shape:
            return ("shape", "shape %s vs expected %s" % (rv_a.shape, e.shape))
        if rv_a.dtype != np.intp:
            return ("dtype", "dtype %s vs expected intp" % (rv_a.dtype,))
        n_ax = x.shape[axis]
        if rv_a.size and (rv_a.min() < 0 or rv_a.max() >= n_ax):
            return ("index-out-of-range", "indices %s outside [0, %d)" % (rv_a.tolist(), n_ax))
        srt = np.sort(rv_a, axis=axis)
        if np.any(np.diff(srt, axis=axis) == 0):
            return ("repeated-index", "an index is returned twice: %s" % (rv_a.tolist(),))
        got = np.take_along_axis(x, rv_a, axis)
        m = compare_arrays(got, e, exact=True)
        if m:
            return ("wrong-elements", "elements selected by the returned indices: " + m[1])
        ctx.count("compared")
        return None
    if fam == "topk":
        ctx.count("topk_checked")
    if op == "moment" and ((case["order"] < 2 and (_nonfinite(x) or case.get("ddof", 0) != 0))
                           or (case["order"] >= 3 and nred - case.get("ddof", 0) <= 0)):
        # (order >= 3 with ddof == n: a cancelling sum divided by zero, see Calibration)
        ctx.count("compared")
        if rv_a.shape != e.shape:
            return ("shape", "shape %s vs expected %s" % (rv_a.shape, e.shape))
        if rv_a.dtype != e.dtype:
            return ("dtype", "dtype %s vs expected %s" % (rv_a.dtype, e.dtype))
        return None
    tol = _tol_args(op, case, nred, scale, e)
    ctx.count("compared")
    if fam == "cum":
        ctx.count("scan_" + case["method"])
    if op in STDLIKE:
        return _cmp_std(rv_a, e, scale, tol)
    return compare_arrays(rv_a, e, exact=False, **tol)


def _check_arg(case, ctx, op, x, e, rv, axis, kd, extreme):
    if rv.shape != e.shape:
        return ("shape", "shape %s vs expected %s" % (rv.shape, e.shape))
    if rv.dtype != e.dtype:
        return ("dtype", "dtype %s vs expected %s" % (rv.dtype, e.dtype))
    ctx.count("arg_compared")
    if np.array_equal(rv, e):
        # equal to NumPy: nothing more is demanded (np.nanargmin([nan, inf]) itself returns the NaN position)
        return None
    # differs from NumPy: facet 1 "the index holds the extreme value", else facet 2 (NumPy's tie rule)
    ctx.count("arg_differs_from_numpy")
    extreme = np.asarray(extreme)
    if axis is None:
        if rv.size != 1 or not (0 <= int(rv.reshape(-1)[0]) < x.size):
            return ("index-out-of-range", "index %s for %d elements" % (rv.tolist(), x.size))
        got = x.reshape(-1)[rv]
    else:
        ax = axis % x.ndim
        idx = rv if kd else np.expand_dims(rv, ax)
        if idx.size and (idx.min() < 0 or idx.max() >= x.shape[ax]):
            return ("index-out-of-range", "index %s for axis length %d" % (rv.tolist(), x.shape[ax]))
        got = np.take_along_axis(x, idx, ax)
        if not kd:
            got = np.squeeze(got, ax)
    m = compare_arrays(got, extreme, exact=True)
    if m:
        return ("wrong-extreme", "value at the returned index is not the extreme: " + m[1])
    f = _arg_feat(case, x)
    if x.ndim > 1 and axis is None and any(len(c) > 1 for c in case["chunks"][1:]):
        f.append("non-leading-axis-split")
    f.append("ties")
    return ("tie-break-differs", "index %s, NumPy (first occurrence) %s; both hold the extreme value"
            % (rv.tolist(), e.tolist()), "&".join(f))


def _pair(op, fam, case, v1, v2, nred, scale):
    v1, v2 = np.asarray(v1), np.asarray(v2)
    if op == "argtopk":
        return None  # which of several equal elements is returned is unspecified; each result was checked on its own
    if op == "moment" and case["order"] < 2:
        return compare_arrays(v1, v2, exact=True)
    if op == "moment" and case["order"] >= 3 and nred - case.get("ddof", 0) <= 0:
        return None if v1.shape == v2.shape else ("shape", "shape %s vs %s" % (v1.shape, v2.shape))
    tol = _tol_args(op, case, nred, scale, v2)
    if op in STDLIKE:
        return _cmp_std(v1, v2, scale, tol)
    return compare_arrays(v1, v2, exact=False, **tol)
