"""C50 — block-wise text reading reproduces the file exactly.

Facet ``read_bytes``: for every call of the real ``dask.bytes.read_bytes`` on
files written by the harness, all blocks are computed and, per file,

* ``b"".join(blocks) == contents``;
* when a delimiter was given, every internal block boundary (0 < offset < size,
  offsets reconstructed from the block lengths) lies just after an occurrence of
  the delimiter: ``contents[offset-len(d):offset] == d``.  A boundary at 0 or at
  end-of-file is always legal, empty blocks are legal.

Facet ``read_text``: ``dask.bag.read_text`` on the same files must return, for
blocksize None and every integer blocksize, with/without ``files_per_partition``
and ``include_path``, exactly the lines computed by the harness: each file's
text split after each delimiter occurrence (scanning left to right,
non-overlapping), no empty trailing element, files in the order given.  With the
default ``linedelimiter=None`` Python's universal-newline reading defines the
lines (split after ``\\n``, ``\\r`` and ``\\r\\n``, each translated to ``\\n``), as
``open(path, newline=None)`` does; the harness uses its own scanner.

Calibration
-----------
* ``read_bytes``: a boundary at offset 0 / EOF is legal and empty blocks are
  legal (blocksize 1 routinely produces them); nothing is demanded about the
  number or size of blocks or about the returned sample.
* ``linedelimiter=""`` is not a delimiter and is not generated; ``not_zero=True``
  (documented to discard the header) is not generated.
* custom delimiters are encoded by dask with UTF-8 regardless of ``encoding=``;
  with latin-1 files only delimiters whose latin-1 and UTF-8 encodings agree
  (ASCII) are generated for the block-boundary rule of read_text's underlying
  read_bytes; non-ASCII delimiters are used with UTF-8 files.
* known genuine defects reproduced on the unchanged tree are listed in PENDING
  (see /verif/findings_proposed/C50.md).
"""
from __future__ import annotations

import atexit
import itertools
import os
import random
import shutil
import tempfile

PROP = "C50"
RULE = ("cases = (delimiter, list of file contents, encoding); complete sub-space first: every content made of <= 5 "
        "(thorough <= 7) symbols from {a, b, D} for D in {\\n, \\r\\n, |, ab, aa, aba}, one file, read_bytes with the "
        "delimiter and without for blocksize 1..7 and None, read_text for blocksize None and 1..7; then random cases: "
        "1-4 files (some empty) built from words, delimiters, delimiter runs, partial delimiters, multi-byte UTF-8 / "
        "latin-1 / control characters, delimiters from newline family, single/multi-character, self-overlapping and "
        "non-ASCII; read_bytes with sampled blocksizes (1.., around the size, None), delimiter given or None, sample "
        "on/off, include_path; read_text with blocksize None/ints, files_per_partition, include_path, list or glob "
        "path.  non-trivial = some file has >= 2 bytes; distinct = distinct case description")
ASSUMPTIONS = [
    "files are written by the harness to a run-private temporary directory on the local filesystem",
    "the harness' own splitters (left-to-right non-overlapping scan; universal-newline scanner) define the expected lines",
    "block boundary search itself lives in fsspec.utils.read_block (outside /repo); it is exercised but trusted to be the installed version",
]
BUDGET = {"quick": 30, "thorough": 480}
FLOORS = {
    "quick": {"evaluations": 1500, "distinct_nontrivial": 1350,
              "counters": {"read_bytes_calls": 15000, "blocks_computed": 40000, "files_concat_checked": 18000,
                           "files_split_into_several_nonempty_blocks": 4500,
                           "internal_boundaries_checked": 10000, "read_text_calls": 11000,
                           "read_text_blocksize_int": 8000, "reads_computed_together": 2700, "read_text_blocksize_none": 2800,
                           "read_text_include_path": 1600, "read_text_files_per_partition": 650,
                           "lines_compared": 600000},
              "sets": {"delimiters": 8, "blockings": 6000},
              "max_skipped_fraction": 0.1},
    "thorough": {"evaluations": 15500, "distinct_nontrivial": 14000,
                 "counters": {"read_bytes_calls": 144000, "blocks_computed": 480000, "files_concat_checked": 189000,
                              "files_split_into_several_nonempty_blocks": 62000,
                              "internal_boundaries_checked": 150000, "read_text_calls": 115000,
                              "read_text_blocksize_int": 82000, "reads_computed_together": 30000, "read_text_blocksize_none": 33000,
                              "read_text_include_path": 22000, "read_text_files_per_partition": 9000,
                              "lines_compared": 9000000},
                 "sets": {"delimiters": 8, "blockings": 70000},
                 "max_skipped_fraction": 0.1},
}
EXHAUSTIVE_SPACE = {
    "quick": "all distinct contents of <= 5 symbols over {a, b, D} for each D in {\\n, \\r\\n, |, ab, aa, aba} x "
             "read_bytes(delimiter=D and None) with blocksize 1..7 and None x read_text(blocksize None, 1..7)",
    "thorough": "all distinct contents of <= 7 symbols over {a, b, D} for each D in {\\n, \\r\\n, |, ab, aa, aba} x "
                "read_bytes(delimiter=D and None) with blocksize 1..7 and None x read_text(blocksize None, 1..7)",
}
CLAIM = ("Every read_bytes call observed (complete space of short contents over {a, b, delimiter} with blocksize 1..7, "
         "plus random multi-file contents with newline-family, multi-byte, self-overlapping and non-ASCII delimiters) "
         "returned blocks that concatenate to the file and whose internal boundaries lie just after a delimiter; every "
         "read_text call observed returned exactly the harness-computed lines for blocksize None and every integer "
         "blocksize, with and without files_per_partition / include_path, except for the mechanisms recorded as "
         "findings.  Held means: no counterexample among the executions observed.")
LEVEL_NOTE = ("trusts the local filesystem, Python's bytes/str find, and the harness splitters; compressed files and "
              "remote filesystems are not exercised")
TECHNIQUE = ("runtime monitoring: per-call oracle on computed blocks/lines (concatenation, boundary-after-delimiter, "
             "harness line splitter), complete small space + random")

# Genuine defects reproduced by hand on the unchanged tree (details: /verif/findings_proposed/C50.md)
PENDING = {
    "read_text:custom-delim&blocksize=None&ends-with-delim:trailing-empty-line":
        "file_to_blocks yields a trailing '' when the file ends with a custom linedelimiter and blocksize=None",
    "read_text:selfoverlap-delim&blocksize=None&ends-with-delim:trailing-empty-line":
        "same file_to_blocks defect with a self-overlapping custom delimiter ('aa', '||', 'aba', ...)",
    "read_text:delim=CRLF&blocksize=int&has-LF:content-grown":
        "decode() uses io.StringIO(text, newline='\\r\\n'), which rewrites every '\\n' to '\\r\\n': lines end in '\\r\\r\\n'",
    "read_text:delim=CR&blocksize=int&has-LF:content-altered":
        "decode() uses io.StringIO(text, newline='\\r'), which rewrites every '\\n' to '\\r' and then splits there",
    "read_text:selfoverlap-delim&blocksize=int&overlapping-occurrences:content-lost":
        "decode() drops the last fragment of a block when the text merely ends with the delimiter characters "
        "('aaa' with 'aa' -> ['aa'], 'a' lost)",
    "read_text:selfoverlap-delim&blocksize=int&overlapping-occurrences:split-positions":
        "block boundaries follow overlapping delimiter occurrences, so lines depend on the blocksize "
        "('baaaa' with 'aa': ['baa','a','a'] for blocksize=1, ['baa','aa'] otherwise)",
    "read_text:all-files-empty&blocksize=int:ValueError@bag/text.py:read_text":
        "an empty file (all files empty) with a blocksize raises ValueError('No files found'); blocksize=None gives []",
}

EXH_DELIMS = ("\n", "\r\n", "|", "ab", "aa", "aba")

_TMP = None
_SEQ = [0]


def _tmpdir():
    global _TMP
    if _TMP is None or not os.path.isdir(_TMP):
        _TMP = tempfile.mkdtemp(prefix="vf-c50-")
        atexit.register(shutil.rmtree, _TMP, True)
    return _TMP


def shard_setup(tier, seed):
    import dask
    import dask.bag  # noqa: F401
    import dask.bytes  # noqa: F401

    dask.config.set(scheduler="sync")
    _tmpdir()


def shard_finish():
    global _TMP
    if _TMP is not None:
        shutil.rmtree(_TMP, ignore_errors=True)
        _TMP = None
    return {}


# --------------------------------------------------------------------------- cases
def _exh_contents(delim, lmax):
    seen = set()
    for ln in range(0, lmax + 1):
        for tup in itertools.product("012", repeat=ln):
            txt = "".join(("a", "b", delim)[int(c)] for c in tup)
            if txt not in seen:
                seen.add(txt)
                yield "".join(tup)


DELIM_POOL = (None, None, None, "\n", "\r\n", "\r", "|", ",", "ab", "--", "aa", "aba", "xyx", "||", "\n\n", "é", "→", "a\n",
              "\x00", "END\n")


def cases(tier, seed):
    rng = random.Random(seed * 15485863 + 50)
    lmax = 5 if tier == "quick" else 7
    for d in EXH_DELIMS:
        for syms in _exh_contents(d, lmax):
            yield {"space": "exhaustive", "delim": d, "syms": syms}
    k = 1500 if tier == "quick" else 20000
    for _ in range(k):
        delim = rng.choice(DELIM_POOL)
        enc = "utf-8" if (delim is not None and not delim.isascii()) or rng.random() < 0.7 else "latin-1"
        yield {"delim": delim, "enc": enc, "nfiles": rng.choice((1, 1, 1, 2, 3, 4)),
               "size": rng.choice((0, 1, 3, 8, 8, 20, 20, 60, 200, 2000)),
               "pempty": rng.choice((0.0, 0.0, 0.3)), "trail": rng.choice(("yes", "no", "any", "partial")),
               "glob": rng.random() < 0.25, "cseed": rng.randrange(2 ** 31)}


# --------------------------------------------------------------------------- harness-side reference
def split_after(text, delim):
    """text split after each occurrence of delim, scanning left to right, non-overlapping; no empty trailing element."""
    out, i, n = [], 0, len(delim)
    while True:
        j = text.find(delim, i)
        if j < 0:
            break
        out.append(text[i:j + n])
        i = j + n
    if i < len(text):
        out.append(text[i:])
    return out


def split_universal(text):
    """what iterating open(path, newline=None) yields: \\n, \\r, \\r\\n all end a line and read back as \\n."""
    out, cur, i, n = [], [], 0, len(text)
    while i < n:
        c = text[i]
        if c == "\r":
            if i + 1 < n and text[i + 1] == "\n":
                i += 1
            cur.append("\n")
            out.append("".join(cur))
            cur = []
        elif c == "\n":
            cur.append("\n")
            out.append("".join(cur))
            cur = []
        else:
            cur.append(c)
        i += 1
    if cur:
        out.append("".join(cur))
    return out


def expected_lines(text, delim):
    return split_universal(text) if delim is None else split_after(text, delim)


def _selfoverlap(d):
    return any(d[k:] == d[:len(d) - k] for k in range(1, len(d)))


def _delimclass(delim):
    if delim is None:
        return "default-delim"
    if delim in ("\n", "\r", "\r\n"):
        return {"\n": "delim=LF", "\r": "delim=CR", "\r\n": "delim=CRLF"}[delim]
    return "selfoverlap-delim" if _selfoverlap(delim) else "custom-delim"


def _all_occurrences(text, d):
    pos, i = [], text.find(d)
    while i >= 0:
        pos.append(i)
        i = text.find(d, i + 1)
    return pos


def _scan_occurrences(text, d):
    pos, i = [], text.find(d)
    while i >= 0:
        pos.append(i)
        i = text.find(d, i + len(d))
    return pos


def _symptom(exp, got):
    if got and got[-1] == "" and list(got[:-1]) == list(exp):
        return "trailing-empty-line"
    if not all(isinstance(x, str) for x in got):
        return "non-str-elements"
    je, jg = "".join(exp), "".join(got)
    if jg == je:
        return "empty-line-element" if "" in got else "split-positions"
    if len(jg) < len(je):
        return "content-lost"
    if len(jg) > len(je):
        return "content-grown"
    return "content-altered"


def _text_label(delim, bs, text, exp, got, enc="utf-8"):
    """mechanism label for ONE file: delimiter class & blocksize class & content predicates relevant to the symptom"""
    dc = _delimclass(delim)
    sym = _symptom(exp, got)
    feats = [dc, "blocksize=None" if bs is None else "blocksize=int"]
    if bs is not None and dc == "selfoverlap-delim":
        try:
            nbytes = len(text.encode(enc))
        except UnicodeError:
            nbytes = len(text)
        if bs >= nbytes:
            # the whole file is ONE block: no block boundary can fall inside a run of overlapping occurrences, so this is
            # not the known boundary mechanism of small blocksizes
            feats[-1] = "blocksize>=file"
    if sym in ("trailing-empty-line", "empty-line-element"):
        d = delim if delim is not None else "\n"
        feats.append("ends-with-delim" if exp and exp[-1].endswith(d) else "not-ends-with-delim")
    else:
        if dc in ("delim=CR", "delim=CRLF"):
            feats.append("has-LF" if "\n" in text else "no-LF")
        elif dc == "default-delim":
            feats.append("has-CR" if "\r" in text else "no-CR")
        elif dc == "selfoverlap-delim":
            feats.append("overlapping-occurrences" if _all_occurrences(text, delim) != _scan_occurrences(text, delim)
                         else "no-overlapping-occurrences")
    return "read_text:%s:%s" % ("&".join(feats), sym)


# --------------------------------------------------------------------------- content generation
def _gen_text(rng, delim, enc, size, trail):
    d = delim if delim is not None else rng.choice(("\n", "\n", "\n", "\r\n"))
    if enc == "utf-8":
        abc = rng.choice(("ab", "ab xy", "abé→", "a𝄞b é", "ab\x0c\x85x", "ab\rx" if delim is None or delim in ("\n", "\r", "\r\n") else "abc"))
    else:
        abc = rng.choice(("ab", "ab xy", "aéñ\xff", "ab\x00\x85\x0c", "ab\rx" if delim is None or delim in ("\n", "\r", "\r\n") else "abc"))
    if delim in ("\r", "\r\n") and rng.random() < 0.6:
        abc += "\n"
    # letters of the delimiter make accidental / overlapping occurrences likely
    if rng.random() < 0.5:
        abc += d
    parts, total = [], 0
    while total < size:
        r = rng.random()
        if r < 0.45:
            p = "".join(rng.choice(abc) for _ in range(rng.randint(0, 6)))
        elif r < 0.8:
            p = d
        elif r < 0.9:
            p = d * rng.randint(2, 4)
        else:
            cut = rng.randint(1, len(d))
            p = d[:cut] if rng.random() < 0.5 else d[-cut:]
        parts.append(p)
        total += max(1, len(p))
    text = "".join(parts)
    if trail == "yes" and text:
        text += d
    elif trail == "no":
        while text.endswith(d):
            text = text[: -len(d)]
    elif trail == "partial" and text:
        text += d[: max(1, len(d) - 1)]
    return text


def _files_for(case):
    rng = random.Random(case["cseed"])
    texts = []
    for _ in range(case["nfiles"]):
        if rng.random() < case["pempty"]:
            texts.append("")
        else:
            texts.append(_gen_text(rng, case["delim"], case["enc"], case["size"], case["trail"]))
    return texts, rng


class _Files:
    """files of one case in a private sub-directory, removed afterwards"""

    def __init__(self, blobs):
        _SEQ[0] += 1
        self.dir = os.path.join(_tmpdir(), "c%d" % _SEQ[0])
        os.mkdir(self.dir)
        self.paths = []
        for i, b in enumerate(blobs):
            p = os.path.join(self.dir, "f%02d.txt" % i)
            with open(p, "wb") as f:
                f.write(b)
            self.paths.append(p)

    def __enter__(self):
        return self

    def __exit__(self, *a):
        shutil.rmtree(self.dir, ignore_errors=True)


# --------------------------------------------------------------------------- read_bytes facet
def _bytes_feat(delim, bs):
    if not delim:
        dc = "no-delim"
    elif _selfoverlap(delim):
        dc = "delim-selfoverlap"
    else:
        dc = "delim-1byte" if len(delim) == 1 else "delim-multibyte"
    return "%s&%s" % (dc, "blocksize=None" if bs is None else "blocksize=int")


def _check_bytes(ctx, paths, blobs, delim, bs, sample=False, include_path=False):
    import dask
    from dask.bytes import read_bytes

    feat = _bytes_feat(delim, bs)
    ctx.count("read_bytes_calls")
    detail = {"delimiter": delim, "blocksize": bs, "sample": sample, "contents": [b[:80] for b in blobs]}
    arg = paths[0] if len(paths) == 1 and not include_path else list(paths)
    try:
        out = read_bytes(arg, delimiter=delim, blocksize=bs, sample=sample, include_path=include_path)
        blocks = out[1]
        flat = [b for per_file in blocks for b in per_file]
        vals = dask.compute(*flat, scheduler="sync") if flat else ()
    except Exception as e:  # noqa: BLE001
        ctx.exception(e, prefix="read_bytes:" + feat, **detail)
        return
    if len(blocks) != len(paths):
        ctx.violation("read_bytes:%s:wrong-number-of-files" % feat,
                      "%d block lists for %d files" % (len(blocks), len(paths)), **detail)
        return
    ctx.count("blocks_computed", len(vals))
    pos = 0
    for per_file, blob in zip(blocks, blobs):
        mine = list(vals[pos:pos + len(per_file)])
        pos += len(per_file)
        ctx.count("files_concat_checked")
        if not all(isinstance(v, bytes) for v in mine):
            ctx.violation("read_bytes:%s:block-not-bytes" % feat, repr(mine)[:300], **detail)
            continue
        joined = b"".join(mine)
        if joined != blob:
            sym = ("concat-lost-bytes" if len(joined) < len(blob) else
                   "concat-extra-bytes" if len(joined) > len(blob) else "concat-differs")
            ctx.violation("read_bytes:%s:%s" % (feat, sym),
                          "blocks %r do not concatenate to contents %r" % (mine[:12], blob[:120]), **detail)
            continue
        lens = [len(v) for v in mine]
        if len(blob) <= 24:
            ctx.distinct("blockings", (delim, blob, lens))
        if sum(1 for x in lens if x) > 1:
            ctx.count("files_split_into_several_nonempty_blocks")
        if delim:
            off, nd = 0, len(delim)
            for ln in lens[:-1]:
                off += ln
                if 0 < off < len(blob):
                    ctx.count("internal_boundaries_checked")
                    if blob[max(0, off - nd):off] != delim:
                        ctx.violation("read_bytes:%s:boundary-not-after-delimiter" % feat,
                                      "boundary at offset %d of %r, blocks %r" % (off, blob[:120], mine[:12]), **detail)
                        break


# --------------------------------------------------------------------------- read_text facet
def _read_text(arg, **kw):
    import dask.bag as db

    return db.read_text(arg, **kw).compute(scheduler="sync")


def _check_text(ctx, paths, texts, delim, enc, bs=None, fpp=None, include_path=False, arg=None):
    """one read_text call on all files, compared with the harness lines; mismatches are diagnosed per file"""
    kw = {"encoding": enc}
    if delim is not None:
        kw["linedelimiter"] = delim
    if bs is not None:
        kw["blocksize"] = bs
    if fpp is not None:
        kw["files_per_partition"] = fpp
    if include_path:
        kw["include_path"] = True
    ctx.count("read_text_calls")
    ctx.count("read_text_blocksize_none" if bs is None else "read_text_blocksize_int")
    if include_path:
        ctx.count("read_text_include_path")
    if fpp is not None:
        ctx.count("read_text_files_per_partition")
    bsc = "blocksize=None" if bs is None else "blocksize=int"
    allempty = all(t == "" for t in texts)
    detail = {"kwargs": kw, "texts": [t[:120] for t in texts]}
    per_file = [expected_lines(t, delim) for t in texts]
    exp = [ln for lines in per_file for ln in lines]
    ctx.count("lines_compared", len(exp))
    try:
        got = _read_text(arg if arg is not None else (paths[0] if len(paths) == 1 else list(paths)), **kw)
    except Exception as e:  # noqa: BLE001
        pre = ("read_text:all-files-empty&%s" % bsc) if allempty else "read_text:%s&%s" % (_delimclass(delim), bsc)
        ctx.exception(e, prefix=pre, **detail)
        return
    got = list(got)
    lines = got
    if include_path:
        if not all(isinstance(x, tuple) and len(x) == 2 for x in got):
            ctx.violation("read_text:include_path&%s:elements-not-(line,path)-pairs" % bsc, repr(got)[:300], **detail)
            return
        lines = [x[0] for x in got]
        if lines == exp:
            exp_paths = [os.path.realpath(p) for p, ls in zip(paths, per_file) for _ in ls]
            got_paths = [os.path.realpath(str(x[1])) for x in got]
            if got_paths != exp_paths:
                ctx.violation("read_text:include_path&%s%s:paths" % (bsc, "&several-files" if len(paths) > 1 else ""),
                              "paths %r expected %r" % (got_paths[:6], exp_paths[:6]), **detail)
            return
    if lines == exp:
        return
    detail.update(got=lines[:30], expected=exp[:30])
    if len(paths) == 1:
        ctx.violation(_text_label(delim, bs, texts[0], exp, lines, enc), "got %r expected %r" % (lines[:12], exp[:12]), **detail)
        return
    # several files: find the file(s) that fail on their own, with the same parameters
    kw1 = dict(kw)
    kw1.pop("include_path", None)
    found = False
    for p, t, e in zip(paths, texts, per_file):
        try:
            g = list(_read_text(p, **kw1))
        except Exception as ex:  # noqa: BLE001
            pre = ("read_text:all-files-empty&%s" % bsc) if t == "" else "read_text:%s&%s" % (_delimclass(delim), bsc)
            ctx.exception(ex, prefix=pre, **detail)
            found = True
            continue
        if g != e:
            found = True
            ctx.violation(_text_label(delim, bs, t, e, g, enc), "file %r: got %r expected %r" % (t[:60], g[:12], e[:12]), **detail)
    if not found:
        ctx.violation("read_text:%s&%s&several-files:lines-differ-only-in-combination" % (_delimclass(delim), bsc),
                      "each file alone is read correctly; together got %r expected %r" % (lines[:12], exp[:12]), **detail)


def _check_together(ctx, paths, blobs, delim, bd, enc, bss):
    """The same files read with several blocksizes and computed in ONE graph: every read must give what it gives
    when computed alone (its blocks are 'the blocks of this read', whatever else is in the graph)."""
    import dask
    import dask.bag as db
    from dask.bytes import read_bytes

    arg = list(paths)
    kw = {"encoding": enc}
    if delim is not None:
        kw["linedelimiter"] = delim
    try:
        bags = [db.read_text(arg, **(dict(kw, blocksize=bs) if bs is not None else kw)) for bs in bss]
        alone = [list(b.compute(scheduler="sync")) for b in bags]
        together = [list(x) for x in dask.compute(*bags, scheduler="sync")]
        reads = [[b for per in read_bytes(arg, delimiter=bd, blocksize=bs, sample=False)[1] for b in per] for bs in bss]
        balone = [list(dask.compute(*r, scheduler="sync")) for r in reads]
        btogether = [list(x) for x in dask.compute(*reads, scheduler="sync")]
    except Exception:  # noqa: BLE001
        return      # failures of a single read are diagnosed by the single-read facets
    ctx.count("reads_computed_together", len(bss))
    if together != alone:
        i = next(j for j in range(len(bss)) if together[j] != alone[j])
        ctx.violation("read_text:several-blocksizes-in-one-graph:differs-from-alone",
                      "blocksize=%r next to blocksizes %r: %r, alone %r" % (bss[i], bss, together[i][:12], alone[i][:12]))
    if btogether != balone:
        i = next(j for j in range(len(bss)) if btogether[j] != balone[j])
        ctx.violation("read_bytes:several-blocksizes-in-one-graph:differs-from-alone",
                      "blocksize=%r next to blocksizes %r: %r, alone %r" % (bss[i], bss, btogether[i][:12], balone[i][:12]))


# --------------------------------------------------------------------------- run
def _run_exhaustive(case, ctx):
    delim = case["delim"]
    text = "".join(("a", "b", delim)[int(c)] for c in case["syms"])
    blob = text.encode("ascii")
    bd = delim.encode("ascii")
    ctx.nontrivial = len(blob) >= 2
    ctx.op("exhaustive:" + repr(delim))
    ctx.distinct("delimiters", delim)
    with _Files([blob]) as fs:
        for bs in (None, 1, 2, 3, 4, 5, 6, 7):
            _check_bytes(ctx, fs.paths, [blob], bd, bs)
            if bs is not None:
                _check_bytes(ctx, fs.paths, [blob], None, bs)
            _check_text(ctx, fs.paths, [text], None if delim == "\n" else delim, "utf-8", bs=bs)
    ctx.sample = {"contents": text, "delimiter": delim, "expected_lines": expected_lines(text, delim)[:8]}


def _blocksizes(rng, sizes, k):
    pool = {1, 2, 3, 4, 5, 7, 10, 16, 33, 64, 1000, 10 ** 6}
    for s in sizes:
        pool.update(x for x in (s - 1, s, s + 1, s // 2, s // 3) if x >= 1)
    floor = max(sizes) // 40          # at most ~40 blocks per file: many small files beat one shredded big one
    pool = sorted(x for x in pool if x >= floor)
    return rng.sample(pool, min(k, len(pool)))


def _run_random(case, ctx):
    texts, rng = _files_for(case)
    delim, enc = case["delim"], case["enc"]
    try:
        blobs = [t.encode(enc) for t in texts]
    except UnicodeEncodeError as e:       # harness generated a character the encoding lacks
        ctx.reject("text not encodable in %s: %s" % (enc, e))
        return
    bd = (delim if delim is not None else "\n").encode(enc)
    ctx.nontrivial = any(len(b) >= 2 for b in blobs)
    ctx.op("random:" + _delimclass(delim))
    ctx.op("random:enc=" + enc)
    ctx.distinct("delimiters", delim)
    sizes = [len(b) for b in blobs]
    with _Files(blobs) as fs:
        # ---- read_bytes
        for bs in _blocksizes(rng, sizes, 4) + [None]:
            _check_bytes(ctx, fs.paths, blobs, bd if rng.random() < 0.8 else None, bs,
                         sample=rng.choice((False, False, True, 3, "1 kiB")), include_path=rng.random() < 0.2)
        # ---- read_text
        arg = os.path.join(fs.dir, "f*.txt") if case["glob"] else None
        _check_text(ctx, fs.paths, texts, delim, enc, bs=None, arg=arg)
        _check_text(ctx, fs.paths, texts, delim, enc, bs=None, include_path=True)
        _check_text(ctx, fs.paths, texts, delim, enc, fpp=rng.randint(1, len(texts) + 1),
                    include_path=rng.random() < 0.5, arg=arg)
        for i, bs in enumerate(_blocksizes(rng, sizes, 4)):
            _check_text(ctx, fs.paths, texts, delim, enc, bs=bs, include_path=(i == 0), arg=arg if i == 1 else None)
        _check_together(ctx, fs.paths, blobs, delim, bd, enc, _blocksizes(rng, sizes, 3) + [None])
    ctx.sample = {"delimiter": delim, "encoding": enc, "texts": [t[:40] for t in texts],
                  "expected_lines": [ln for t in texts for ln in expected_lines(t, delim)][:8]}


def run_case(case, ctx):
    if case.get("space") == "exhaustive":
        _run_exhaustive(case, ctx)
    else:
        _run_random(case, ctx)
