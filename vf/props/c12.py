"""C12 — dask.tokenize: tokens are deterministic and observably different values get different tokens.

Monitor: every value is rebuilt from a JSON *description* (vf/gen/c12_values.py)
and handed to the real ``dask.tokenize.tokenize``.  Three facets are observed:

1. determinism within the process: tokenize(v) twice, tokenize(deepcopy(v)),
   tokenize(pickle round trip of v) and tokenize(value rebuilt from the same
   description) must be one token (for every generated v for which deepcopy /
   pickle work); equal dicts / sets / frozensets built in another insertion
   order must get the same token;
   1b. equal values with a different CONSTRUCTION HISTORY (vf/gen/c12_history.py): nullable Int/UInt/Float/boolean
   arrays whose missing slots were masked after holding other payloads (setitem NA, the public
   ``IntegerArray(values, mask)`` constructors, arithmetic, where / mask, take with fill, reindex, concat, conversion,
   strided slices), Categoricals with the same categories / codes / ordered flag from different code paths, object /
   str / string arrays whose equal strings are shared or distinct Python objects, DataFrames with equal content in
   another block layout — bare and inside Series, Index, DataFrame columns, lists, dicts.  The structural oracle decides
   that the two are equal (values, dtype, index, names); then the tokens must be equal.  Label
   ``nondeterminism:equal-values:<what differs besides the value>``;
2. determinism across interpreters for plain data: batches of descriptions are
   tokenized in fresh subprocesses with PYTHONHASHSEED = 0, 1 and a derived
   random seed; tokens must equal the tokens of the shard (hash seed 0);
3. collision freedom: for generated pairs (v, w) the harness oracle
   ``diff`` (structural, independent of dask; memory layout is never an
   observable difference) decides whether they are observably different; if so
   the tokens must differ.  Pairs that are logically equal and differ only in
   layout / block structure carry no requirement.

Labels: ``collision:<innermost observable difference>`` (computed by the oracle
from the two values, e.g. ``ndarray:same-buffer-bytes&different-memory-order``)
and ``nondeterminism:<how>:<feature of the innermost component whose token
changed>``.

Calibration (unchanged tree)
----------------------------
False alarms corrected while calibrating (oracle/generator, not dask):
* ``pd.array(object ndarray)`` infers a nullable dtype, so the description
  "object extension array" built an IntegerArray: builder now constructs
  ``NumpyExtensionArray`` explicitly.
* ``StringArray`` is a subclass of ``NumpyExtensionArray``; the oracle compared
  it as a plain object array and lost the dtype (``string`` vs ``str``): exact
  class test now.
* Recursive structures are compared coinductively (bisimulation): ``a=[a]`` and
  ``b=[[b]]`` are not distinguishable without ``is`` and carry no requirement.
* -0.0 / 0.0 inside arrays and NaN payloads are "equal" for the oracle
  (no requirement), as the design asks; as Python floats they are distinct.
* Timestamps of unit ``s`` overflowed ``.value``; the oracle reads ``asm8``.
* Object sharing: descriptions built in the shard reused one ``str`` object for
  equal strings while the child interpreters got distinct objects from JSON;
  pickle's memo made the tokens of mixed object arrays differ "across
  interpreters".  The builder now interns equal str/bytes per built value, so
  sharing is a function of the description only.
* A RangeIndex step mutation changed the length of a Series index (pandas
  refused the value): the mutation keeps the length; numpy/pandas refusals of a
  description are ``rejected`` (ceiling 5 %), never a verdict.
* copy/pickle results that the oracle does not call equal to the original
  (big-endian arrays come back native, NaN dict keys) are skipped
  (``copy_not_equal``): the clause speaks about faithful copies.
* Blame descended into set/frozenset elements positionally although the
  iteration orders differ and blamed ``int``/``str``; elements are matched by
  value now.
* Construction histories that are NOT in the check because "equal" is ambiguous there: ``numpy.ma`` masked arrays
  (the data under the mask is public through ``.data``, and ``normalize_masked_array`` of dask.array.ma hashes data,
  mask and fill value on purpose); a MultiIndex with unused level entries vs ``remove_unused_levels()`` (``.levels`` is
  public); DatetimeIndex with and without ``freq``; Categoricals with an extra unused category (another dtype);
  ``remove_categories`` on an unordered Categorical sorts the categories (the oracle calls the result different, so
  does dask); ndarrays in another memory layout keep counting as ``layout_only_pairs`` (no requirement).
* Facet 1b on the unchanged tree: frames in another block layout and string arrays with a missing element whose equal
  strings are shared vs distinct objects get different tokens.  Both are the mechanisms already recorded for deepcopy /
  pickle round trips (block-wise hashing of frames; pickle memo of non-string object arrays) reached by another route:
  known findings (known_findings.d/C12_b.json), one label each whatever the carrier.
Genuine defects: 10 mechanisms on the unchanged tree (findings_proposed/C12.md
sections 1-10; 1-4, 6-9 since repaired in /repo, 5 and 10 known findings) and
one more on the repaired tree (section 11).  PENDING lists the labels that
still fire.
"""
from __future__ import annotations

import copy
import json
import os
import pickle
import random
import subprocess
import sys

PROP = "C12"
RULE = ("cases = (a) all unordered pairs of a fixed list of atoms (builtin scalars and tiny containers, numpy scalars/arrays, "
        "pandas objects, dataclasses, partials, callables); (b) batches of plain-data descriptions tokenized in 3 fresh "
        "interpreters (hash seeds 0, 1, derived random); (c) seeded pairs (v, w) from 24 families: a generated value and one "
        "mutation of it (element, dtype, shape, name, index, class, field, default, closure, constant ...), adversarial pairs "
        "(same buffer bytes in another memory order/shape/dtype incl. structured/void/record dtypes differing in field names, "
        "field types, grouping, nesting, titles, offsets, units, byte order, object arrays and pandas carriers whose joined strings "
        "coincide, frames with the same blocks under another column assignment, memmaps, large arrays differing in the "
        "middle) and equal values in another insertion order; every value also gets the determinism checks; "
        "family 'history': one value reached by two construction routes (masked nullable arrays, categoricals, string arrays, "
        "frame block layouts, in 8 carriers), tokens must agree when the oracle calls the two equal; "
        "non-trivial = pair whose members the oracle calls observably different, or determinism checks on a non-scalar "
        "value; distinct = distinct pair of descriptions")
ASSUMPTIONS = ["numpy, pandas, copy.deepcopy and pickle are trusted to reproduce the described value",
               "the harness oracle diff() defines 'observably different' (type, value, dtype, shape, names, index, categories, "
               "fields, code/defaults/closure); memory layout and block structure are not observable differences"]
BUDGET = {"quick": 90, "thorough": 900}
CASE_TIMEOUT = 1000
FLOORS = {
    # measured (seed 0; seeds 1, 2, 7, 12345 within 1 %): 78177 cases, 84995 distinct, determinism_checks 479662,
    # xproc_comparisons 57600 (32 batches), pairs_compared 70260, equal_pairs_compared 4641, tokenize_calls 660720,
    # diff_mechanisms 986, value_features 60, hash_probe_values 34
    "quick": {"evaluations": 35000, "distinct_nontrivial": 38000,
              "counters": {"determinism_checks": 200000, "xproc_comparisons": 25000, "xproc_batches": 14,
                           "pairs_compared": 30000, "equal_pairs_compared": 1900, "tokenize_calls": 300000,
                           # history family (seed 0): 4249 equal pairs (masked 1781, cat 922, blocks 884, strings 662),
                           # 1312 masked pairs whose payload under NA differs
                           "history_equal_pairs_compared": 1900, "history_equal_pairs:masked": 800,
                           "history_equal_pairs:cat": 400, "history_equal_pairs:blocks": 400,
                           "history_equal_pairs:strings": 300,
                           "history_masked_pairs_with_different_hidden_payload": 600},
              "sets": {"diff_mechanisms": 400, "value_features": 25, "hash_probe_values": 10, "history_features": 4},
              "max_skipped_fraction": 0.05},
    # measured (seed 0, before the structured-dtype family was added): 818337 cases, 730181 distinct,
    # determinism_checks 6364588, xproc_comparisons 460800 (192 batches), pairs_compared 708041,
    # equal_pairs_compared 64657, tokenize_calls 8668792, diff_mechanisms 985, hash_probe_values 194
    "thorough": {"evaluations": 350000, "distinct_nontrivial": 350000,
                 "counters": {"determinism_checks": 2500000, "xproc_comparisons": 200000, "xproc_batches": 80,
                              "pairs_compared": 300000, "equal_pairs_compared": 25000, "tokenize_calls": 3500000,
                              "history_equal_pairs_compared": 25000, "history_equal_pairs:masked": 10500,
                              "history_equal_pairs:cat": 5300, "history_equal_pairs:blocks": 5300,
                              "history_equal_pairs:strings": 4000,
                              "history_masked_pairs_with_different_hidden_payload": 8000},
                 "sets": {"diff_mechanisms": 400, "value_features": 25, "hash_probe_values": 80, "history_features": 4},
                 "max_skipped_fraction": 0.05},
}
EXHAUSTIVE_SPACE = "all unordered pairs of the fixed atom list vf.gen.c12_values.atoms() (collision facet only)"
LEVEL_NOTE = ("trusts the harness oracle diff() and the description builder; the tokens themselves are only compared for "
              "equality, never interpreted")
CLAIM = ("Every token computed for the generated values was compared with the token of the same value tokenized again, "
         "deep-copied, pickled and rebuilt, with the tokens computed by fresh interpreters under other hash seeds (plain "
         "data), and with the token of a partner value that an independent structural oracle calls observably different. "
         "Held means: no nondeterminism and no collision among the values and pairs observed (sampled, plus all pairs of "
         "a fixed atom list); it is not a proof of collision freedom.")
TECHNIQUE = ("runtime monitoring: return-value oracle on tokenize() (structural observable-equality oracle for pairs; "
             "repeat/deepcopy/pickle/rebuild and cross-interpreter comparison for determinism), complete atom-pair space + random")

# labels that still fire on the current tree (details: findings_proposed/C12.md)
PENDING = {
    # recorded by the lead as known findings (known_findings.d/batch2_tokens.json); kept here for reference
    "nondeterminism:deepcopy:DataFrame&unconsolidated-blocks":
        "known: df with several blocks of one dtype (after df[c]=...) and df.copy()/deepcopy get different tokens",
    "nondeterminism:deepcopy:DataFrame&unconsolidated-blocks&block-not-c-contiguous":
        "known: same, frame also holds an F-ordered block",
    "nondeterminism:pickle-roundtrip:object-array&pickle-bytes-differ":
        "known: np.array([b'b', 1], dtype=object) and its pickle round trip get different tokens (pickle memo encodes identity)",
    "nondeterminism:deepcopy:object-array&pickle-bytes-differ":
        "known: an object array holding a non-contiguous ndarray and its deep copy get different tokens",
    # facet 1b (known_findings.d/C12_b.json): the same two mechanisms reached by construction history
    "nondeterminism:equal-values:DataFrame&block-structure-differs":
        "known: equal frames whose columns sit in different internal blocks (dict vs column-by-column / concat / assign) get different tokens",
    "nondeterminism:equal-values:equal-strings-shared-vs-distinct-objects&has-missing-element":
        "known: equal object/str/string arrays with a missing element get different tokens when equal strings are shared vs distinct objects",
    # found on the repaired tree (findings_proposed/C12.md section 11): items are sorted by str(key), and the
    # str() of a frozenset key / element depends on its iteration order
    "nondeterminism:equal-values:dict-key-is-unordered-container":
        "a dict keyed by frozensets (or tuples holding them) and an equal one whose inner frozenset was built in another order get different tokens",
    "nondeterminism:equal-values:set-element-is-unordered-container":
        "a set of frozensets and an equal one whose inner frozenset was built in another order get different tokens",
    "nondeterminism:equal-values:frozenset-element-is-unordered-container":
        "a frozenset of frozensets and an equal one whose inner frozenset was built in another order get different tokens",
    "nondeterminism:deepcopy:dict-key-is-unordered-container":
        "a dict keyed by frozensets (or tuples holding them) and its deep copy get different tokens",
    "nondeterminism:deepcopy:set-element-is-unordered-container":
        "a set of frozensets and its deep copy get different tokens",
    "nondeterminism:deepcopy:frozenset-element-is-unordered-container":
        "a frozenset of frozensets and its deep copy get different tokens",
    "nondeterminism:pickle-roundtrip:dict-key-is-unordered-container":
        "a dict keyed by frozensets (or tuples holding them) and its pickle round trip get different tokens",
    "nondeterminism:pickle-roundtrip:set-element-is-unordered-container":
        "a set of frozensets and its pickle round trip get different tokens",
    "nondeterminism:pickle-roundtrip:frozenset-element-is-unordered-container":
        "a frozenset of frozensets and its pickle round trip get different tokens",
    "nondeterminism:rebuild-equal-value:dict-key-is-unordered-container":
        "a dict keyed by frozensets (or tuples holding them) and the same value rebuilt (NaN element: identity hash) get different tokens",
    "nondeterminism:rebuild-equal-value:set-element-is-unordered-container":
        "a set of frozensets and the same value rebuilt (NaN element: identity hash) get different tokens",
    "nondeterminism:rebuild-equal-value:frozenset-element-is-unordered-container":
        "a frozenset of frozensets and the same value rebuilt (NaN element: identity hash) get different tokens",
    # findings_proposed/C12.md section 12: the bytes between the fields of a padded structured dtype are hashed,
    # copies leave them uninitialised
    "nondeterminism:deepcopy:padded-struct-dtype":
        "an array of a structured dtype with padding (offsets/itemsize or align=True) and its deep copy get different tokens",
    "nondeterminism:pickle-roundtrip:padded-struct-dtype":
        "an array of a structured dtype with padding and its pickle round trip get different tokens",
    "nondeterminism:rebuild-equal-value:padded-struct-dtype":
        "two arrays of a padded structured dtype with equal fields (other padding bytes) get different tokens",
    "nondeterminism:cross-interpreter:hashseed-same:padded-struct-dtype":
        "same: the value rebuilt in a fresh interpreter (same hash seed) has other padding bytes and another token",
    "nondeterminism:cross-interpreter:hashseed-differs:padded-struct-dtype":
        "same, interpreter with another hash seed",
}

XPROC_SEEDS = ("0", "1", "random")


# --------------------------------------------------------------------------
# case stream
# --------------------------------------------------------------------------

def cases(tier, seed):
    from vf.gen import c12_values as V

    rng = random.Random(seed * 7919 + 12)
    n = len(V.atoms())
    for i in range(n):
        for j in range(i + 1, n):
            yield {"space": "exhaustive", "f": "atoms", "i": i, "j": j}
    nb, per = (32, 600) if tier == "quick" else (192, 800)
    fams = sorted(V.FAMILIES)
    weights = [V.FAMILIES[f][1] for f in fams]
    total = 60000 if tier == "quick" else 800000
    head = 3200          # a slice of every pair family runs before the (slow) interpreter batches
    for k in range(total):
        if k == head:
            for _ in range(nb):
                yield {"f": "xproc", "cs": rng.randrange(2 ** 31), "n": per}
        yield {"f": "pair", "fam": rng.choices(fams, weights)[0], "cs": rng.randrange(2 ** 31)}


# --------------------------------------------------------------------------
# shard state
# --------------------------------------------------------------------------

_ATOM = {}          # index -> (value, token) per shard


def shard_setup(tier, seed):
    import warnings

    warnings.simplefilter("ignore")
    import numpy  # noqa: F401
    import pandas  # noqa: F401
    import dask.tokenize  # noqa: F401


def shard_finish():
    from vf.gen import c12_values as V

    V.cleanup()
    return {}


class _DaskRaised(Exception):
    pass


def _tok(ctx, v):
    from dask.tokenize import tokenize

    ctx.count("tokenize_calls")
    try:
        return tokenize(v)
    except Exception as e:  # noqa: BLE001 - any exception of tokenize() inside the domain is a witness
        from vf.core.ctx import CaseTimeout, dask_frame

        if isinstance(e, CaseTimeout):
            raise
        if dask_frame(e) is None:
            raise
        from vf.gen import c12_values as V

        ctx.exception(e, prefix="tokenize:" + V.feature_of(v))
        raise _DaskRaised() from e


def _blame(ctx, v, v2):
    """Feature of the innermost component whose token differs between the parallel values v and v2."""
    from vf.gen import c12_values as V

    try:
        c1, c2 = V.children(v), V.children(v2)
        if type(v) in (set, frozenset) and type(v2) is type(v):
            # elements are matched by value, the iteration orders may differ
            other = {e: e for e in v2}
            c1 = [e for e in v if e == e and e in other]
            c2 = [other[e] for e in c1]
        if len(c1) == len(c2):
            for a, b in zip(c1, c2):
                if type(a) is type(b) and _tok(ctx, a) != _tok(ctx, b):
                    return _blame(ctx, a, b)
    except _DaskRaised:
        pass
    except Exception:  # noqa: BLE001 - blame is best effort, never a verdict
        pass
    feat = V.feature_of(v)
    try:
        # values that dask tokenizes through pickle: does pickle itself distinguish the two equal values?
        if (feat == "frozenset" or "object-array" in feat or feat in ("function", "lambda", "partial")) \
                and pickle.dumps(v, protocol=5) != pickle.dumps(v2, protocol=5):
            feat += "&pickle-bytes-differ"
    except Exception:  # noqa: BLE001
        pass
    return feat


def _short(d, n=600):
    s = json.dumps(d)
    return s if len(s) <= n else s[: n - 3] + "..."


def _check_value(ctx, desc, v, scalar_ok=False):
    """Facet 1 on one value; returns its token (or None when tokenize raised)."""
    from vf.gen import c12_values as V

    try:
        t1 = _tok(ctx, v)
        t2 = _tok(ctx, v)
    except _DaskRaised:
        return None
    feat = V.feature_of(v)
    ctx.distinct("value_features", feat)
    ctx.count("determinism_checks")
    if t1 != t2:
        ctx.violation("nondeterminism:repeat-call:" + _blame(ctx, v, v), "tokenize(v) twice gave %s and %s" % (t1, t2), value=_short(desc))
        return t1
    variants = []
    try:
        variants.append(("deepcopy", copy.deepcopy(v)))
    except Exception:  # noqa: BLE001 - the reference refuses: clause does not apply
        ctx.count("deepcopy_unsupported")
    try:
        variants.append(("pickle-roundtrip", pickle.loads(pickle.dumps(v))))
    except Exception:  # noqa: BLE001
        ctx.count("pickle_unsupported")
    try:
        variants.append(("rebuild-equal-value", V.build(desc)))
    except V.Unbuildable:
        pass
    for how, v2 in variants:
        if how != "rebuild-equal-value" and V.diff(v, v2) is not None:
            # copy/pickle did not reproduce the value (reference-side): clause does not apply
            ctx.count("copy_not_equal")
            continue
        try:
            t = _tok(ctx, v2)
        except _DaskRaised:
            continue
        ctx.count("determinism_checks")
        if t != t1:
            ctx.violation("nondeterminism:%s:%s" % (how, _blame(ctx, v, v2)),
                          "tokenize(v)=%s but tokenize(%s of v)=%s" % (t1, how, t), value=_short(desc))
    return t1


def _order_feature(v, w):
    """Which unordered container was built in another order (labels of the equal-values clause)."""
    t = type(v)
    if t is not type(w):
        return t.__name__
    if t in (dict, set, frozenset):
        from vf.gen import c12_values as V

        if any(V._has_unordered(k) for k in v) and V.diff(v, w) is None:
            # the difference may sit inside a key / element: keys are matched by value
            other = {k: k for k in w}
            for k in v:
                if k == k and k in other and _order_feature(k, other[k]):
                    return t.__name__ + ("-key" if t is dict else "-element") + "-is-unordered-container"
        lv, lw = list(v), list(w)
        same_order = len(lv) == len(lw) and all(a is b or (type(a) is type(b) and a == b) for a, b in zip(lv, lw))
        if not same_order:
            f = t.__name__ + "-insertion-order"
            if t is not frozenset and len({str(k) for k in lv}) < len(lv):
                f += "&" + ("keys" if t is dict else "elements") + "-with-equal-str"
            return f
        if t is dict:
            for k in lv:
                r = _order_feature(v[k], w[k])
                if r:
                    return r
        return None
    if t in (list, tuple) and len(v) == len(w):
        for a, b in zip(v, w):
            r = _order_feature(a, b)
            if r:
                return r
    return None


def _compare_pair(ctx, dv, dw, v, w, tv, tw, expect, fam):
    from vf.gen import c12_values as V

    d = V.diff(v, w)
    if fam == "history":
        # facet 1b: one value reached by two construction routes; the oracle alone says whether the two are equal
        from vf.gen import c12_history as H

        what = dv[1]["what"]
        ctx.op("history:%s:%s" % (what, dv[1].get("carrier")))
        if d is None:
            ctx.count("history_equal_pairs_compared")
            ctx.count("history_equal_pairs:" + what)
            feat = H.feature(dv, dw, v, w)
            ctx.distinct("history_features", feat)
            if feat.endswith("payload-under-NA-differs"):
                ctx.count("history_masked_pairs_with_different_hidden_payload")
            ctx.nontrivial = True
            if tv != tw:
                ctx.violation("nondeterminism:equal-values:" + feat,
                              "equal values (%s; routes %s / %s in a %s) got tokens %s and %s"
                              % (what, dv[1].get("route", dv[1].get("sharing")), dw[1].get("route", dw[1].get("sharing")),
                                 dv[1].get("carrier"), tv, tw), v=_short(dv), w=_short(dw))
            return
        ctx.count("history_pairs_oracle_says_different")     # judged below like any other pair of different values
    if d is None:
        if expect == "same":
            ctx.count("equal_pairs_compared")
            ctx.nontrivial = True
            if tv != tw:
                ctx.violation("nondeterminism:equal-values:" + (_order_feature(v, w) or V.feature_of(v)),
                              "equal values (other insertion order) got tokens %s and %s" % (tv, tw), v=_short(dv), w=_short(dw))
        else:
            ctx.count("layout_only_pairs")     # no requirement either way
        return
    ctx.count("pairs_compared")
    ctx.op("diff:" + d[0].split(":")[0])
    ctx.distinct("diff_mechanisms", d[0])
    ctx.nontrivial = True
    if tv == tw:
        ctx.violation("collision:" + d[0],
                      "observably different values (%s at %s) share token %s" % (d[0], d[1] or "<top>", tv),
                      v=_short(dv), w=_short(dw), family=fam)


# --------------------------------------------------------------------------
# cross-interpreter facet
# --------------------------------------------------------------------------

def _tree(tok, v, depth=3):
    """[token, [subtrees of the builtin-container children]]"""
    from vf.gen import c12_values as V

    try:
        t = tok(v)
    except Exception as e:  # noqa: BLE001
        return [{"err": "%s" % type(e).__name__}, []]
    kids = V.children(v) if depth > 0 and type(v) in (list, tuple, dict) else []
    return [t, [_tree(tok, c, depth - 1) for c in kids]]


def _child_main():
    """Runs in a fresh interpreter: descriptions on stdin -> token trees on stdout."""
    import warnings

    warnings.simplefilter("ignore")
    req = json.load(sys.stdin)
    import dask
    from dask.tokenize import tokenize

    from vf.gen import c12_values as V

    out = []
    for d in req["descs"]:
        try:
            v = V.build(d)
        except V.Unbuildable:
            out.append(None)
            continue
        out.append(_tree(tokenize, v))
    V.cleanup()
    json.dump({"dask": os.path.realpath(dask.__file__), "hashseed": os.environ.get("PYTHONHASHSEED"),
               "probe": hash("c12-probe"), "trees": out}, sys.stdout)


def _first_mismatch(a, b, v, path=""):
    """Innermost node whose token differs; returns (value, path)."""
    from vf.gen import c12_values as V

    kids = V.children(v) if type(v) in (list, tuple, dict) else []
    if len(a[1]) == len(b[1]) == len(kids):
        for i, (x, y) in enumerate(zip(a[1], b[1])):
            if x[0] != y[0]:
                return _first_mismatch(x, y, kids[i], path + "/%d" % i)
    return v, path


def _run_xproc(case, ctx):
    from dask.tokenize import tokenize

    from vf.core.ctx import REPO
    from vf.gen import c12_values as V

    r = random.Random(case["cs"])
    fams = sorted(f for f in V.FAMILIES if V.FAMILIES[f][2])
    weights = [V.FAMILIES[f][1] for f in fams]
    descs, vals = [], []
    guard = 0
    while len(descs) < case["n"] and guard < case["n"] * 20:
        guard += 1
        fam = r.choices(fams, weights)[0]
        try:
            a, b, _ = V.gen_pair(fam, r)
        except V.Unbuildable:
            continue
        for d in (a, b):
            if not V.is_plain(d) or len(descs) >= case["n"]:
                continue
            try:
                v = V.build(d)
            except V.Unbuildable:
                continue
            descs.append(d)
            vals.append(v)
            ctx.op("xproc:" + fam)
    own = [_tree(tokenize, v) for v in vals]
    ctx.count("tokenize_calls", len(vals))
    payload = json.dumps({"descs": descs})
    for label in XPROC_SEEDS:
        hs = label if label != "random" else str(r.randrange(2, 2 ** 32 - 1))
        env = dict(os.environ)
        env["PYTHONHASHSEED"] = hs
        p = subprocess.run([sys.executable, "-m", "vf.props.c12", "--child"], input=payload, capture_output=True,
                           text=True, env=env, timeout=300, cwd=os.getcwd())
        if p.returncode != 0:
            raise RuntimeError("C12 child interpreter failed (hash seed %s): %s" % (hs, p.stderr[-1500:]))
        res = json.loads(p.stdout)
        if not res["dask"].startswith(REPO + os.sep):
            raise RuntimeError("child imported dask from %s" % res["dask"])
        if res["hashseed"] != hs or len(res["trees"]) != len(descs):
            raise RuntimeError("child did not run under the requested hash seed / batch")
        ctx.distinct("hash_probe_values", res["probe"])
        which = "hashseed-same" if hs == os.environ.get("PYTHONHASHSEED", "") else "hashseed-differs"
        for d, v, a, b in zip(descs, vals, own, res["trees"]):
            if b is None:
                continue
            ctx.count("xproc_comparisons")
            if a[0] != b[0]:
                if isinstance(a[0], dict) or isinstance(b[0], dict):
                    if isinstance(a[0], dict) and isinstance(b[0], dict):
                        continue      # raised in both: reported by the pair facet
                    ctx.violation("nondeterminism:cross-interpreter:%s:exception-in-one-interpreter-only:%s" % (which, V.feature_of(v)),
                                  "here %r, other interpreter %r" % (a[0], b[0]), value=_short(d))
                    continue
                node, path = _first_mismatch(a, b, v)
                ctx.violation("nondeterminism:cross-interpreter:%s:%s" % (which, V.feature_of(node)),
                              "token %s here, %s in a fresh interpreter with PYTHONHASHSEED=%s (component %s)"
                              % (a[0], b[0], hs, path or "<top>"), value=_short(d))
    ctx.nontrivial = True
    ctx.sig = ["xproc", case["cs"], case["n"]]
    for d in descs:
        if d[0] not in ("int", "float", "str", "bytes", "bool", "none", "complex"):
            ctx.extra_sigs.append(["x", d])
    ctx.count("xproc_batches")
    ctx.sample = {"descriptions": len(descs), "hash_seeds": list(XPROC_SEEDS), "first": _short(descs[0], 200) if descs else None}


# --------------------------------------------------------------------------
# run_case
# --------------------------------------------------------------------------

_SCALAR_TAGS = ("int", "float", "str", "bytes", "bool", "none", "complex")


def _atom(ctx, i):
    from vf.gen import c12_values as V

    if i not in _ATOM:
        d = V.atoms()[i]
        v = V.build(d)
        _ATOM[i] = (v, _check_value(ctx, d, v))
    return _ATOM[i]


def run_case(case, ctx):
    from vf.gen import c12_values as V

    f = case["f"]
    if f == "xproc":
        return _run_xproc(case, ctx)
    if f == "atoms":
        A = V.atoms()
        dv, dw = A[case["i"]], A[case["j"]]
        v, tv = _atom(ctx, case["i"])
        w, tw = _atom(ctx, case["j"])
        expect, fam = "diff", "atoms"
        ctx.op("fam:atoms")
    else:
        fam = case["fam"]
        r = random.Random(case["cs"])
        try:
            dv, dw, expect = V.gen_pair(fam, r)
            v, w = V.build(dv), V.build(dw)
        except V.Unbuildable as e:
            ctx.reject(str(e))
            return
        except (ValueError, TypeError, OverflowError) as e:
            from vf.core.ctx import dask_frame

            if dask_frame(e) is not None:
                raise
            # numpy / pandas refuse the described value (kept rare by the skipped-fraction floor)
            ctx.reject("reference refused the description: %s: %s" % (type(e).__name__, e))
            return
        ctx.op("fam:" + fam)
        tv = _check_value(ctx, dv, v)
        tw = _check_value(ctx, dw, w)
        if dv[0] not in _SCALAR_TAGS or dw[0] not in _SCALAR_TAGS:
            ctx.nontrivial = True
    ctx.sig = [dv, dw]
    if tv is None or tw is None:
        return
    _compare_pair(ctx, dv, dw, v, w, tv, tw, expect, fam)
    ctx.sample = {"v": _short(dv, 160), "w": _short(dw, 160), "token_v": tv, "token_w": tw, "expect": expect}


if __name__ == "__main__":
    if "--child" in sys.argv:
        _child_main()
