"""C21 — array item assignment equals NumPy assignment; chunks unchanged.

Monitor: NumPy differential.  A case is (shape, chunking, dtype, encoded index, value mode); run_case rebuilds a
position-revealing array ``x``, builds the value from the NumPy selection shape (so that it is broadcastable by
construction), performs

    e = x.copy(); e[index] = value                       (NumPy reference; raising -> ctx.reject)
    xin = x.copy(); dx = da.from_array(xin, chunks); dx[index] = value; rv = dx.compute()

and checks: rv equals e exactly (shape, dtype, values, NaN == NaN); ``dx.chunks`` is what it was before the
assignment; lazy shape/dtype agree with the computed value and every block of the new graph has the declared
chunk shape; the NumPy array handed to from_array was not mutated, and a second handle on the same from_array
graph (never assigned to) still computes to the original data afterwards (``source-data-mutated``).

Index kinds (what Array.__setitem__ documents, docs/source/array-assignment.rst): ints (incl. negative, NumPy
ints), slices with any step sign, Ellipsis, ONE 1-d integer list / NumPy array / dask array (unsorted, negative,
duplicates (same value), empty), ONE 1-d boolean list / NumPy array / dask array, multi-axis combinations of
those, a full-shape boolean mask (NumPy or dask) as the sole index.  No None (not documented for assignment).
Values: Python / NumPy scalars, 0-d arrays, NumPy arrays and nested lists of the selection shape, broadcastable
shapes (leading axes dropped, size-1 axes, 1-2 extra leading length-1 axes), dask arrays with random chunkings.

Labels: as in C20 the failing index is shrunk; then the value is simplified (scalar, then plain NumPy array of the
full selection shape).  ``setitem:<index tokens>[&split-chunks][&zero-length-axis]&value=<kind>:<symptom>``.

Calibration
* Duplicate indices with *different* values: NumPy documents the outcome as "last value wins" only for its own
  iteration order; dask assigns block by block which gives the same result for duplicates inside one block and
  across blocks (each element is written by the last occurrence).  Kept in the domain; no alarm seen.
* A boolean *dask* mask that covers the whole array (full-shape mask, or a 1-d dask mask on a 1-d array) goes
  through ``where``: the value must broadcast against the array itself, so only size-1 values are generated for
  it (code comment in Array.__setitem__ documents the limitation).
* An integer next to an array index separated by a slice (x[0, :, [1, 2]] = v): NumPy moves the array axis
  first, so the *value* shape differs between NumPy and dask's orthogonal reading.  Same mechanism as the C20
  finding; only scalar-like values are generated for such indices (the result then is well defined and equal).
* NaN / inf into integer arrays and lossy casts are not generated (value dtype = array dtype).
* Values with 1-2 *extra leading length-1 axes* (x[1, :] = np.arange(6.).reshape(1, 6); value mode ``lead1``) were
  first left out as "a NumPy leniency, not broadcasting"; NumPy accepts them and the lead asked for them, so they
  are generated (NumPy / list / dask values; counter ``leading_1_axes_values``, value token ``leading-1-axes-array``).
* A nested *list* assigned to a single element (x[1] = [[False]]): NumPy converts the list object itself (for a bool
  array its truthiness -> True); not an array value, so lead1 values for 0-d selections are NumPy arrays.
* n-d NumPy boolean masks are not among the documented assignment indices (dask raises IndexError): rejected.
* Family labels ``int+negative-step-slice`` and ``int+int-array`` with symptom classes raises | wrong-result: the shrunk
  forms and exception sites of these two setitem_array defects varied from seed to seed (thorough run).
* Labels of the where() path and of empty selections are built from direct predicates of the case instead of the
  shrinker (the shrunk forms varied from seed to seed); value kinds are reduced to scalar | array.
"""
from __future__ import annotations

import copy
import random
import warnings

import numpy as np

from ..gen import arrays as A
from ..gen import c20_index as IX
from ..mon.compare import compare_arrays, lazy_meta_mismatch
from ..core.ctx import exc_label

PROP = "C21"
RULE = ("cases = (shape, chunking, dtype, encoded index, value mode). Complete part: ALL chunkings of shape (5,) (16) and "
        "(3,2) (8) (thorough also (6,) and (2,2,2)) x a fixed list of index/value patterns (slices of both signs, empty "
        "slices, ints, integer lists sorted/unsorted/negative/duplicate/empty, boolean lists/arrays, dask int and bool "
        "indexers, Ellipsis, full-shape masks, multi-axis combinations; scalar, full, broadcast and dask values). Random part: "
        "1-4 d arrays with axis lengths 0-9, random chunkings (7 % with a zero-size chunk inside an axis), random documented index tuples, 8 value modes (scalar, NumPy scalar, 0-d, full, trailing axes, size-1 axes, all-size-1, extra leading length-1 axes) x {NumPy, list, "
        "dask}. non-trivial = some axis split into >= 2 chunks; distinct = distinct (shape, chunks, dtype, index, value mode).")
ASSUMPTIONS = ["NumPy 2.x assignment defines the expected array", "sync scheduler (threads for a tenth)"]
BUDGET = {"quick": 120, "thorough": 900}
FLOORS = {"quick": {"evaluations": 3000, "distinct_nontrivial": 2300,
                    "counters": {"compared": 3000, "chunks_unchanged_checked": 2700, "input_not_mutated_checked": 2700,
                                 "blocks_checked": 2700, "dask_values": 500, "leading_1_axes_values": 180},
                    "sets": {"index_feature_tokens": 45}, "max_skipped_fraction": 0.2},
          "thorough": {"evaluations": 45000, "distinct_nontrivial": 36000,
                       "counters": {"compared": 45000, "chunks_unchanged_checked": 40000, "input_not_mutated_checked": 40000,
                                    "blocks_checked": 40000, "dask_values": 8000, "leading_1_axes_values": 2800},
                       "sets": {"index_feature_tokens": 60}, "max_skipped_fraction": 0.2}}
EXHAUSTIVE_SPACE = {
    "quick": "all chunkings of shapes (5,) and (3,2) x the fixed index/value pattern list (PATTERNS_1D, PATTERNS_2D)",
    "thorough": "all chunkings of shapes (5,), (6,), (3,2) and (2,2,2) x the fixed index/value pattern lists",
}
CLAIM = ("Every generated assignment was executed on the real dask.array and on NumPy with the same data; held = the computed "
         "array equals NumPy's exactly, chunks are unchanged, lazy metadata and block shapes agree, the input array was not "
         "mutated and dask raised nothing but NotImplementedError inside the domain, on the executions observed.")
LEVEL_NOTE = "NumPy is the reference; domain limited to the assignment indices dask documents"
TECHNIQUE = "runtime monitoring: NumPy differential oracle over all chunkings of small arrays x index/value patterns and generated assignments"

# Every other label that was PENDING is repaired by fixes_ready/C21_01..09 (+ C20_01); this one is a known finding.
PENDING = {
    "setitem:whole-array-dask-mask&zero-size-chunk:wrong-result": "x[mask] = v on an array without elements with chunks ((0, 0),): chunks become ((0,),) (where() merges them, rechunk() does not act on empty arrays)",
}
FIXED = {
    "C20_01_negative_step_start_below_minus_n": ["setitem:slice[negstep,start<-n]&value=scalar:values"],
    "C21_01_setitem_int_before_negative_step_slice": ["setitem:int+negative-step-slice:raises", "setitem:int+negative-step-slice:wrong-result"],
    "C21_02_setitem_int_before_integer_list": ["setitem:int+int-array:raises", "setitem:int+int-array:wrong-result"],
    "C21_03_setitem_dask_bool_index_value_with_fewer_dims": ["setitem:dask-bool-array&value=array:ValueError@array/slicing.py:setitem_array"],
    "C21_04_setitem_dask_bool_index_broadcast_value": ["setitem:dask-bool-array&split-chunks&value=array:values",
                                                       "setitem:dask-bool-array+int&split-chunks&value=array:values",
                                                       "setitem:Ellipsis+dask-bool-array&split-chunks&value=array:values",
                                                       "setitem:Ellipsis+dask-bool-array+int&split-chunks&value=array:values"],
    "C21_05_setitem_dask_mask_keeps_chunks": ["setitem:whole-array-dask-mask[chunked-differently]:chunks-changed",
                                              "setitem:whole-array-dask-mask&zero-size-chunk:raises"],
    "C21_06_setitem_dask_mask_one_element_value": ["setitem:whole-array-dask-mask&value=1-element-array:*"],
    "C21_07_setitem_tuple_wrapped_dask_mask": ["setitem:whole-array-dask-mask&value=scalar:IndexError@array/slicing.py:parse_assignment_indices",
                                               "setitem:tuple-wrapped-whole-array-dask-mask:values"],
    "C21_08_setitem_empty_negative_step_slice": ["setitem:empty-selection&value=zero-size-array:ValueError@array/slicing.py:setitem_array"],
    "C21_10_setitem_value_with_extra_leading_dims": ["setitem:int&value=leading-1-axes-array:ValueError@array/slicing.py:setitem",
                                                      "setitem:int&split-chunks&value=leading-1-axes-array:ValueError@array/slicing.py:setitem",
                                                      "setitem:Ellipsis+int&value=leading-1-axes-array:ValueError@array/slicing.py:setitem",
                                                      "setitem:int+int-array:raises (lead1 values)", "setitem:int+negative-step-slice:wrong-result (lead1 values)"],
    "C21_09_setitem_empty_selection_conforming_value": ["setitem:empty-selection&value=array-with-axis-longer-than-1:ValueError@array/slicing.py:setitem_array"],
}

DTYPES = ["int64", "int64", "float64", "float64", "int32", "float32", "complex128", "bool", "datetime64[ns]"]
VMODES = ["scalar", "scalar", "npscalar", "np0d", "full", "full", "full", "trail", "trail", "ones", "ones", "size1", "lead1", "lead1"]
VKINDS = ["np", "np", "list", "dask", "dask"]


def S(a=None, b=None, c=None):
    return {"k": "slice", "v": [a, b, c]}


def I(v, how="py"):
    return {"k": "int", "v": v, "as": how}


def L(v, how="list"):
    e = {"k": "ilist", "v": list(v), "as": how, "dt": "int64"}
    if how == "dask":
        e["c"] = [1] * (len(v) - 1) + [1] if len(v) < 3 else [2] + [len(v) - 2]
    return e


def B(v, how="list"):
    e = {"k": "blist", "v": [int(i) for i in v], "as": how}
    if how == "dask":
        e["c"] = [2, len(v) - 2] if len(v) > 2 else [len(v)]
    return e


ELL = {"k": "ell"}

# (index entries, value mode, value kind)
PATTERNS_1D = [
    ([S()], "scalar", "np"), ([S()], "full", "np"), ([S()], "full", "dask"), ([S(1, 4)], "full", "np"), ([S(1, 4)], "size1", "np"),
    ([S(None, None, 2)], "full", "np"), ([S(None, None, -1)], "full", "np"), ([S(None, None, -1)], "full", "dask"),
    ([S(4, 0, -2)], "full", "np"), ([S(-2, None)], "full", "list"), ([S(3, 1)], "scalar", "np"), ([S(3, 1)], "full", "np"),
    ([S(1, 5, 3)], "full", "np"), ([S(-1, -6, -1)], "full", "np"), ([S(-1, -6, -2)], "size1", "np"),
    ([I(0)], "scalar", "np"), ([I(-1)], "np0d", "np"), ([I(3, "np")], "npscalar", "np"), ([I(2)], "np0d", "dask"),
    ([L([0, 2])], "full", "np"), ([L([4, 1])], "full", "np"), ([L([-1, 0, 2], "np")], "full", "np"), ([L([3, 3, 1])], "scalar", "np"),
    ([L([3, 1, 3])], "full", "np"), ([L([])], "scalar", "np"), ([L([4, 0, 2], "np")], "full", "dask"), ([L([1, 3], "dask")], "full", "np"),
    ([L([4, 2, 0], "dask")], "scalar", "np"),
    ([B([1, 0, 1, 0, 1])], "full", "np"), ([B([0, 1, 1, 0, 0], "np")], "scalar", "np"), ([B([1, 1, 0, 0, 1], "np")], "full", "dask"),
    ([S()], "lead1", "np"), ([S(None, None, -2)], "lead1", "dask"), ([I(2), ELL], "lead1", "np"), ([L([4, 1, 2])], "lead1", "list"),
    ([B([1, 0, 1, 1, 0], "np")], "lead1", "np"),
    ([B([0, 0, 0, 0, 0], "np")], "scalar", "np"), ([B([1, 0, 0, 1, 1], "dask")], "scalar", "np"), ([ELL], "full", "np"), ([ELL], "scalar", "np"),
]
PATTERNS_2D = [
    ([I(0)], "full", "np"), ([I(-1)], "scalar", "np"), ([S(), I(1)], "full", "np"), ([S(), I(1)], "full", "dask"),
    ([S(1, None), S(None, None, -1)], "full", "np"), ([S(None, None, -2), S()], "full", "np"), ([S(None, None, -2), S()], "trail", "np"),
    ([L([2, 0])], "full", "np"), ([L([2, 0]), I(1)], "full", "np"), ([S(), L([1, 0])], "full", "np"), ([S(), L([1, 0], "dask")], "full", "np"),
    ([S(2, 0, -1), L([1, 1, 0], "np")], "scalar", "np"), ([B([1, 0, 1])], "full", "np"), ([B([1, 0, 1], "dask")], "trail", "np"),
    ([S(), B([0, 1], "np")], "full", "dask"), ([ELL, I(0)], "full", "np"), ([I(2), ELL], "ones", "np"), ([I(2), I(1)], "scalar", "np"),
    ([I(2), I(1)], "np0d", "dask"), ([S(1, 3), S(0, 1)], "ones", "np"), ([S(), S()], "trail", "dask"), ([S(), S()], "ones", "np"),
    ([{"k": "mask", "seed": 5, "p": 0.5, "as": "dask", "c": None}], "npscalar", "np"),
    ([{"k": "mask", "seed": 6, "p": 1.1, "as": "dask", "c": None}], "scalar", "np"),
    ([{"k": "mask", "seed": 7, "p": 0.5, "as": "dask", "c": None}], "scalar", "np"),
    ([{"k": "mask", "seed": 7, "p": 0.5, "as": "dask", "c": [[1, 2], [2]]}], "np0d", "dask"),
    ([S(5, None), S()], "scalar", "np"), ([S(None, None, -1), S(None, None, -1)], "full", "dask"), ([L([-1, -3]), S(None, None, -1)], "full", "np"),
    ([ELL], "full", "np"),
]


def _adapt(pattern, shape):
    """Patterns are written for (5,) and (3,2); other shapes of the thorough tier reuse them where they fit."""
    enc = copy.deepcopy(pattern)
    nd = len(shape)
    enc = enc[: max(1, nd)] if not any(e["k"] in ("ell", "mask") for e in enc) else enc
    axes = IX.axis_of_entries(enc, nd)
    for e, ax in zip(enc, axes):
        if e["k"] == "blist" and ax is not None and ax < nd:
            n = shape[ax]
            e["v"] = (e["v"] * 3)[:n]
            if e.get("c"):
                e["c"] = [n] if n < 3 else [2, n - 2]
        if e["k"] == "mask":
            e["c"] = None
    return enc


def cases(tier, seed):
    rng = random.Random(seed * 7753 + 21)
    spaces = [((5,), PATTERNS_1D), ((3, 2), PATTERNS_2D)]
    if tier == "thorough":
        spaces += [((6,), PATTERNS_1D), ((2, 2, 2), PATTERNS_2D)]
    for shape, pats in spaces:
        for chs in A.all_chunkings(shape):
            for k, (enc, vmode, vkind) in enumerate(pats):
                enc = _adapt(enc, shape) if shape not in ((5,), (3, 2)) else copy.deepcopy(enc)
                yield {"space": "exhaustive", "shape": list(shape), "chunks": [list(c) for c in chs], "dtype": "int64" if k % 3 else "float64",
                       "index": enc, "bare": len(enc) == 1 and k % 2 == 0, "vmode": vmode, "vkind": vkind, "vseed": k}
    n = 6000 if tier == "quick" else 100000
    for _ in range(n):
        nd = rng.choice((1, 1, 1, 2, 2, 2, 3, 3, 4))
        maxlen = {1: 9, 2: 9, 3: 6, 4: 4}[nd]
        shape = tuple(rng.choice([0, 1, 1, 2, 3, 4, 5, 6, 7, 8, 9][: maxlen + 2]) for _ in range(nd))
        chunks = A.rand_chunks(rng, shape)
        while np.prod([len(c) for c in chunks] or [1]) > 100:
            chunks = tuple(A.rand_comp(rng, s, rng.choice(("one", "two", "regular"))) for s in shape)
        chunks = IX.with_zero_chunks(rng, chunks, 0.07)
        enc, bare = IX.rand_index(rng, shape, "set", chunks)
        yield {"shape": list(shape), "chunks": [list(c) for c in chunks], "dtype": rng.choice(DTYPES), "index": enc, "bare": bare,
               "vmode": rng.choice(VMODES), "vkind": rng.choice(VKINDS), "vseed": rng.randrange(2 ** 31), "threads": rng.random() < 0.1}


# ------------------------------------------------------------------------------------------------
def make_value(sel_shape, dtype, vmode, vkind, vseed, da):
    """-> (numpy-side value, dask-side value, description).  Values are distinct and different from the data."""
    r = random.Random(vseed)
    sel = tuple(sel_shape)
    if vmode in ("scalar", "npscalar", "np0d"):
        shp = ()
    elif vmode == "full":
        shp = sel
    elif vmode == "trail":
        shp = sel[r.randint(0, len(sel)):]
    elif vmode == "ones":
        shp = tuple(1 if r.random() < 0.5 else s for s in sel)
    elif vmode == "lead1":
        shp = (1,) * r.randint(1, 2) + sel
    elif vmode == "size1":
        shp = (1,) * len(sel)
    else:
        raise AssertionError(vmode)
    n = int(np.prod(shp)) if shp else 1
    base = -(np.arange(n, dtype="int64") + 1)
    dtype = str(dtype)
    if dtype == "bool":
        v = (base % 2) == 0
    elif dtype.startswith("datetime64"):
        v = ((10 ** 6 - base) * 10 ** 9).astype("datetime64[ns]")
    elif dtype == "complex128":
        v = base - 2j
    elif dtype.startswith("float"):
        v = base.astype(dtype) - 0.25
    else:
        v = base.astype(dtype)
    v = v.reshape(shp)
    if vmode == "scalar":
        py = v.item() if not dtype.startswith("datetime64") else v[()]
        return py, py, "python scalar"
    if vmode == "npscalar":
        return v[()], v[()], "numpy scalar"
    if vkind == "list" and not dtype.startswith("datetime64") and vmode != "np0d" and not (vmode == "lead1" and not sel):
        return v.tolist(), v.tolist(), "nested list %s" % (shp,)
    if vkind == "dask":
        ch = tuple(A.rand_comp(r, s) for s in shp)
        return v, da.from_array(v.copy(), chunks=ch), "dask array %s chunks %s" % (shp, ch)
    return v, v.copy(), "numpy array %s" % (shp,)


class Outcome:
    __slots__ = ("status", "symptom", "msg", "exc", "value", "vdesc", "selshape", "vshape", "vmode")

    def __init__(self, status, symptom=None, msg="", exc=None):
        self.status, self.symptom, self.msg, self.exc = status, symptom, msg, exc
        self.value = None
        self.vdesc = ""
        self.selshape = self.vshape = self.vmode = None


SCALARLIKE = ("scalar", "npscalar", "np0d")


def where_path(enc, shape):
    """A dask boolean mask covering the whole array: Array.__setitem__ uses where(mask, value, x)."""
    if any(e["k"] == "mask" and e.get("as") == "dask" for e in enc):
        return True
    return len(shape) == 1 and len(enc) == 1 and enc[0]["k"] == "blist" and enc[0].get("as") == "dask"


def adjust_vmode(enc, shape, nidx, sel, vmode, vseed):
    """Value modes outside the domain of an index are mapped to ones inside (see Calibration)."""
    if where_path(enc, shape) and vmode not in SCALARLIKE:
        return "size1" if vseed % 6 == 0 else SCALARLIKE[vseed % 3]
    if IX.adv_nonadjacent(nidx) and vmode not in SCALARLIKE + ("size1",):
        return "size1" if vseed % 2 else "scalar"
    if np.size(sel) == 0 and vmode not in SCALARLIKE and vseed % 4:
        return "scalar"
    return vmode


def evaluate(shape, chunks, dtype, enc, bare, vmode, vkind, vseed, threads=False):
    import dask.array as da

    shape = tuple(shape)
    chunks = tuple(tuple(c) for c in chunks)
    x = IX.make_data(shape, dtype)
    with warnings.catch_warnings():
        warnings.simplefilter("ignore")
        nidx, didx = IX.decode(enc, shape, da, bare)
        if IX.out_of_bounds(enc, shape):
            return Outcome("reject", msg="index out of bounds (harness check)")
        try:
            sel = x[nidx]
        except (IndexError, ValueError, TypeError) as ex:
            return Outcome("reject", msg="numpy: %s: %s" % (type(ex).__name__, ex))
        if any(e["k"] == "mask" and e.get("as") != "dask" for e in enc) and len(shape) != 1:
            # Calibration: an n-d NumPy boolean mask is not among the documented assignment indices (1-d NumPy
            # masks and n-d *dask* masks are); dask raises IndexError in parse_assignment_indices.  Side statistic.
            return Outcome("reject", msg="n-d NumPy boolean mask is not a documented assignment index")
        vmode = adjust_vmode(enc, shape, nidx, sel, vmode, vseed)
        nv, dv, vdesc = make_value(np.shape(sel), dtype, vmode, vkind, vseed, da)
        e = x.copy()
        try:
            e[nidx] = nv
        except (IndexError, ValueError, TypeError) as ex:
            return Outcome("reject", msg="numpy: %s: %s" % (type(ex).__name__, ex))
        xin = x.copy()
        try:
            base = da.from_array(xin, chunks=chunks)
            dx = base.copy()  # a second handle on the same graph; ``base`` itself is never assigned to
            before = dx.chunks
            dx[didx] = dv
            rv = dx.compute(scheduler="threads" if threads else "sync")
        except NotImplementedError as ex:
            return Outcome("unsupported", msg=str(ex))
        except Exception as ex:  # noqa: BLE001
            o = Outcome("exc", exc_label(ex), "%s: %s" % (type(ex).__name__, ex), ex)
            o.vdesc, o.selshape, o.vshape, o.vmode = vdesc, np.shape(sel), np.shape(nv), vmode
            return o
        out = Outcome("ok")
        out.value, out.vdesc = rv, vdesc
        out.selshape, out.vshape, out.vmode = np.shape(sel), np.shape(nv), vmode
        m = compare_arrays(rv, e, exact=True)
        if m:
            out.status, out.symptom, out.msg = "mismatch", m[0], m[1]
            return out
        if dx.chunks != before:
            out.status, out.symptom, out.msg = "mismatch", "chunks-changed", "chunks %s before, %s after the assignment" % (before, dx.chunks)
            return out
        m = lazy_meta_mismatch(dx, rv)
        if m:
            out.status, out.symptom, out.msg = "mismatch", m[0], m[1]
            return out
        if compare_arrays(xin, x, exact=True) is not None:
            out.status, out.symptom, out.msg = "mismatch", "input-mutated", "the NumPy array given to from_array was modified"
            return out
        try:
            bv = base.compute(scheduler="sync")
        except Exception as ex:  # noqa: BLE001
            return Outcome("exc", "recompute-source:" + exc_label(ex), "%s: %s" % (type(ex).__name__, ex), ex)
        if compare_arrays(bv, x, exact=True) is not None:
            out.status, out.symptom, out.msg = ("mismatch", "source-data-mutated",
                                                "computing the assignment modified the data held by the source dask array "
                                                "(another handle on the same from_array graph no longer computes to the input)")
            return out
        try:
            m = IX.blockwise_mismatch(dx, rv)
        except NotImplementedError as ex:
            return Outcome("unsupported", msg=str(ex))
        except Exception as ex:  # noqa: BLE001
            return Outcome("exc", "blockwise:" + exc_label(ex), "%s: %s" % (type(ex).__name__, ex), ex)
        if m:
            out.status, out.symptom, out.msg = "mismatch", m[0], m[1]
        if compare_arrays(xin, x, exact=True) is not None:
            out.status, out.symptom, out.msg = "mismatch", "input-mutated", "the NumPy array given to from_array was modified"
        return out


MISMATCH_SYMPTOMS = ("shape", "dtype", "values", "lazy-shape", "lazy-dtype", "lazy-chunks", "block-shape", "block-placement",
                     "chunks-changed", "input-mutated", "source-data-mutated")


def run_case(case, ctx):
    shape, enc = tuple(case["shape"]), case["index"]
    chunks = A.chunks_of_desc(case["chunks"])
    bare = bool(case.get("bare"))
    vmode, vkind, vseed = case["vmode"], case["vkind"], case["vseed"]
    ctx.op("setitem:" + vmode)
    ctx.sig = (case["shape"], case["chunks"], case["dtype"], enc, bare, vmode, vkind)
    ctx.nontrivial = A.has_split(chunks)
    out = evaluate(shape, chunks, case["dtype"], enc, bare, vmode, vkind, vseed, threads=case.get("threads", False))
    if out.status == "reject":
        ctx.count("numpy_rejected")
        ctx.reject(out.msg)
        return
    nfancy = sum(1 for e in enc if e["k"] in ("ilist", "blist"))
    if out.status == "unsupported" or (nfancy >= 2 and out.status != "ok"):
        # lists/arrays in several axes are documented as unsupported for assignment
        ctx.count("dask_not_implemented")
        ctx.unsupported(out.msg or out.symptom or "")
        return
    ctx.count("compared")
    for t in IX.tokens(enc, shape):
        ctx.distinct("index_feature_tokens", t)
    if out.status == "ok":
        ctx.count("chunks_unchanged_checked")
        ctx.count("input_not_mutated_checked")
        ctx.count("blocks_checked")
        if "dask" in out.vdesc:
            ctx.count("dask_values")
        if out.vmode == "lead1":
            ctx.count("leading_1_axes_values")
        ctx.sample = {"index": IX.show(enc), "chunks": case["chunks"], "value": out.vdesc}
        return
    # x[mask] and, for n-d masks, x[(mask,)] go through where(mask, value, x)
    uses_where = where_path(enc, shape) and (bare or len(shape) > 1)
    if (out.status == "exc" and out.symptom == "ValueError@array/slicing.py:setitem_array" and 0 in out.selshape and out.vshape):
        # direct mechanism predicate (robust against the many forms an empty selection can take): dask refuses
        # every value with an axis longer than 1 for an empty selection, and computes a negative implied size for
        # empty negative-step slices
        vt = "array-with-axis-longer-than-1" if max(out.vshape) > 1 else "zero-size-array"
        label, detail = "setitem:empty-selection&value=%s:%s" % (vt, out.symptom), {}
    elif IX.zero_chunk_inside(chunks) and uses_where and probe_without_zero_chunks(case, out) != out.symptom:
        label = "setitem:whole-array-dask-mask&zero-size-chunk:" + ("wrong-result" if out.symptom in MISMATCH_SYMPTOMS else "raises")
        detail = {}
    elif uses_where:
        # direct mechanism predicates for the where(mask, value, x) path of Array.__setitem__
        own = any((e.get("c") and tuple(tuple(c) for c in e["c"]) != chunks) if e["k"] == "mask" else
                  (e["k"] == "blist" and tuple(e.get("c") or ()) != chunks[0]) for e in enc)
        if out.symptom == "chunks-changed":
            label = "setitem:whole-array-dask-mask[%s]:chunks-changed" % ("chunked-differently" if own else "same-chunks")
        elif (out.vmode or vmode) not in SCALARLIKE:
            label = "setitem:whole-array-dask-mask&value=1-element-array:" + out.symptom
        else:
            label = "setitem:whole-array-dask-mask&value=scalar:" + out.symptom
        detail = {}
    else:
        label, detail = classify(shape, chunks, case["dtype"], enc, bare, out.vmode or vmode, vkind, vseed, out.symptom)
    detail.update({"index": IX.show(enc), "shape": list(shape), "chunks": case["chunks"], "value": out.vdesc})
    if out.status == "exc":
        import traceback

        tb = "".join(traceback.format_exception(type(out.exc), out.exc, out.exc.__traceback__))[-2500:]
        ctx.violation(label, out.msg, traceback=tb, **detail)
    else:
        ctx.violation(label, out.msg, **detail)


def probe_without_zero_chunks(case, out):
    """Symptom of the same case with the zero-size chunks removed from the array's chunking (None = no failure)."""
    chunks = tuple((tuple(c for c in cs if c) or (0,)) for cs in case["chunks"])
    try:
        o = evaluate(case["shape"], chunks, case["dtype"], case["index"], bool(case.get("bare")), case["vmode"], case["vkind"], case["vseed"])
    except Exception:  # noqa: BLE001
        return None
    return o.symptom if o.status in ("exc", "mismatch") else None


def classify(shape, chunks, dtype, enc, bare, vmode, vkind, vseed, sym):
    state = {"vmode": vmode, "vkind": vkind}

    def probe(enc2, shape2, chunks2):
        o = evaluate(shape2, chunks2, dtype, enc2, bare and len(enc2) == 1, state["vmode"], state["vkind"], vseed)
        return o.symptom if o.status in ("exc", "mismatch") else None

    # value first (a scalar value removes every value-related degree of freedom)
    for vm, vk in (("scalar", "np"), ("full", "np"), (vmode, "np")):
        if (vm, vk) == (state["vmode"], state["vkind"]):
            break
        old = dict(state)
        state.update(vmode=vm, vkind=vk)
        try:
            s = probe(enc, shape, chunks)
        except Exception:  # noqa: BLE001
            s = None
        if s == sym:
            break
        state.update(old)
    enc_m, shape_m, chunks_m, sym_m = IX.shrink(enc, shape, chunks, probe, sym)
    if sym_m not in MISMATCH_SYMPTOMS:
        enc_m, shape_m, chunks_m, sym_m = IX.shrink(enc_m, shape_m, chunks_m, probe, sym_m, accept=lambda s: s not in MISMATCH_SYMPTOMS)
    vm, vk = state["vmode"], state["vkind"]
    vtok = "scalar" if vm in SCALARLIKE else "leading-1-axes-array" if vm == "lead1" else "array"
    feat = IX.label_features(enc_m, shape_m, chunks_m)
    label = "setitem:%s&value=%s:%s" % (feat, vtok, sym_m)
    toks = IX.tokens(enc_m, shape_m)
    has_int = any(t in ("int", "int<0", "np-int", "np-int<0") for t in toks)
    cls = "wrong-result" if sym_m in MISMATCH_SYMPTOMS else "raises"
    if has_int and any(t.startswith("slice[negstep") for t in toks) and not any("start<-n" in t for t in toks):
        # family: an integer index in front of a negative-step slice (positions of ``reverse`` in setitem_array)
        label = "setitem:int+negative-step-slice:" + cls
    elif has_int and any(t.startswith(("int-list", "int-array", "dask-int-array")) for t in toks):
        # family: an integer index in front of an integer list (``dim_1d_int_index`` in setitem_array)
        label = "setitem:int+int-array:" + cls
    if IX.zero_chunk_inside(chunks_m):
        fam = ("dask-index-array" if any(t.startswith("dask-") for t in toks) else
               "int-or-bool-array" if any(t.startswith(("int-list", "int-array", "bool-list", "bool-array")) for t in toks) else
               "slice" if any(t.startswith("slice") for t in toks) else "basic-index")
        label = "setitem:%s&zero-size-chunk:%s" % (fam, "wrong-result" if sym_m in MISMATCH_SYMPTOMS else "raises")
    return label, {"minimal": {"index": IX.show(enc_m), "shape": list(shape_m), "chunks": [list(c) for c in chunks_m], "vmode": vm, "vkind": vk}}
