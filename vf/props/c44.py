"""C44 — repartitioning preserves rows, order and requested layout.

Statement (fixed): repartition by npartitions, divisions or partition_size, and from_pandas with npartitions or
chunksize, keep exactly the same rows in the same order.  repartition(npartitions=n) yields n partitions.
repartition(divisions=d) yields exactly divisions d.

Monitor.  Every case builds a pandas frame, a SOURCE dask frame from a partitioning description and ONE target
(``repartition(npartitions=n | callable)``, ``repartition(divisions=d, force=f)`` -- list or tuple, as method or as
``dd.repartition(frame, d, force=f)`` --, ``dd.repartition(<pandas object>, d)``, ``repartition(partition_size=s)``,
``repartition(freq=q)`` -- alias string or ``pd.Timedelta`` --, or ``from_pandas(npartitions|chunksize, sort)`` directly).
The partitions of the result are observed with ``dask.compute(*r.to_delayed())`` (graph view, one graph for all
partitions); in a third of the random cases ``r.compute()`` is observed as well.  Demanded:

* rows: ``concat(partitions)`` (and ``compute()``) equals the pandas frame, row for row in the same order, index
  included (``frames.compare(ordered=True)``: columns, dtypes, index values and name, values);
* ``npartitions=n``: ``r.npartitions == n`` and the graph really has n partitions (a callable is applied to the source's
  partition count by the harness, too);
* ``divisions=d``: ``r.divisions == tuple(d)``, the graph has ``len(d) - 1`` partitions, and partition i holds only
  index values of ``[d[i], d[i+1])`` (last closed) — the requested layout (``frames.divisions_violation``);
* every other target that reports known divisions: ``frames.divisions_violation`` is None (divisions monitor, labelled
  separately ``...:divisions-monitor:<kind>``; when the partition-count oracle already fired for the same case the
  monitor's ``npartitions-vs-divisions`` is not reported twice).

Parameter audit (round 3).  Added input classes, each with a counter and a floor: ``npartitions`` as a callable;
``force=True`` next to ``npartitions`` / ``partition_size`` (no effect on rows); divisions as tuple / through the
module-level function / on a pandas object / float-valued between integer index values / INNER divisions that lie
entirely below or beyond the data (``beyond_inner``); ``freq`` as ``pd.Timedelta`` and calendar offsets (``ME``, ``QE-FEB``,
``2ME``, ``SME``, ``W``, ``W-WED``, ``YE``: period ends are mapped to period starts, ``ceil`` does not exist for them) on an
index that spans months (``datetime_days``); frames of 100..400 rows for ``partition_size`` so that kB sizes split
partitions; a FILTER UNDER the repartition (``pre``: the source is ``src[src.a >= 2]`` / ``src[src.e]`` / a filter that keeps
nothing -- partitions emptied behind known divisions) and a filter / column selection ABOVE it (``post``: the optimizer
pushes both through ``Repartition``); ``from_pandas(sort=True)`` on an unsorted index (rows compared as a multiset, the
result must be sorted by the index as documented); STATE: after a refused ``repartition(divisions=...)`` the same source
is repartitioned again and compared (``after_error_followup``).

Sibling facet (vf/mon/siblings.py).  Every random case is built a second time on the SAME source with ONE parameter
changed (another ``npartitions``, one division more / less, ``force`` flipped, another ``partition_size``, another ``freq``,
another ``npartitions`` / ``chunksize`` / ``sort`` of ``from_pandas``).  Two such collections must not share output keys while
their partitions differ (``<op>:<param>-not-in-name:siblings-share-keys``), and computed in ONE graph each must give what it
gives alone (``<op>:<param>:differs-when-computed-with-sibling``; always run for ``partition_size`` -- its split layer has an
own name --, for a seeded 35 % otherwise).  The joint computation alternates between ``dask.compute`` of the partition
lists (``to_delayed``) and ``dask.compute(a, b)`` of the collections.

Requests that dask documents as errors may raise ``ValueError`` and are then counted as ``expected_error`` (divisions
on a source with unknown divisions; outer divisions different from the source's without ``force``; with ``force`` a
first division above / last division below the source's).  If such a request does not raise, the result is judged like
any other (rows, divisions, layout).  Any other exception inside the domain is a violation.

Sources: ``from_pandas`` (npartitions / chunksize), ``from_map`` / ``from_delayed`` of arbitrary row slices INCLUDING
EMPTY partitions (unknown divisions), cleared divisions, and ``known``: ``from_map(..., divisions=v)`` for a division
vector v over index values, values between them and beyond them (known divisions WITH empty partitions).

Complete sub-space (first in the stream): the 6-row frame with sorted unique index (10, 20, .., 60) and the same frame
with the dense index (0, .., 5): all 32 compositions of the 6 rows into consecutive non-empty source partitions, with
known and with unknown divisions, x ``npartitions`` 1..8, and (known divisions, sparse index) x all 16 target division
vectors drawn from the index values (first and last kept); every pair (source partition count o <= 32 [thorough 48],
target n < o) on a RangeIndex frame with one row per source partition (known / unknown divisions alternating) — the
partition-boundary arithmetic of ``RepartitionToFewer`` is float based; every pair (n <= 24 [48] rows in ONE partition with
unknown divisions, k in 2..26 [50] pieces) of ``RepartitionToMore`` -- the cut points of ``split_evenly`` are float based, too.  Thorough additionally: all 512 known-division sources over
the grid 10, 15, .., 60 (these contain empty partitions) x npartitions 1..8 and x the 16 target vectors, and the
duplicate index (1, 1, 2, 3, 3, 3) with all valid sources and targets (incl. a repeated last division).

Labels: ``repartition:npartitions:<more|fewer|same>&<known|unknown>-divisions&<numeric-or-datetime|other>-index:<symptom>``,
``repartition:divisions:<force|noforce>&lo-<same|below|above>&hi-<same|beyond|inside>[&dup-last]:<symptom>``,
``repartition:partition_size:<known|unknown>-divisions:<symptom>``, ``repartition:freq:<symptom>``,
``from_pandas:<npartitions|chunksize>&sort=<..>&<monotonic|unsorted>-index:<symptom>``; symptoms ``partition-count``,
``npartitions-reported``, ``divisions-reported``, ``rows-<compare kind>``, ``compute-rows-<kind>``, ``layout:<kind>``,
``divisions-monitor:<kind>``, ``<ExcType>@file:function``.

Calibration (unchanged tree)
----------------------------
* ``from_pandas(sort=True)`` sorts a non-monotonic index by design (documented), so "same order" is only demanded of
  ``from_pandas`` when the index is monotonic increasing or ``sort=False`` is passed; on a non-monotonic index the
  generator passes ``sort=False``.
* ``from_pandas(npartitions=n)`` is documented to give fewer partitions when the index has too few distinct values;
  the statement demands a partition count of ``repartition(npartitions=n)`` only.
* ``repartition(freq=...)`` is documented for a datetime index with known divisions; only generated there.
* ``dd.repartition(<pandas object>, d)`` silently drops rows outside ``d``: only division vectors that cover the index
  are generated for it (the statement's domain is "within and beyond the data range").
* sibling values are lists of partitions compared with ``frames.compare(ordered=True)``; siblings whose partitions are
  equal may share keys (``force`` flipped on unchanged outer divisions).
* the docstring of ``repartition`` calls ``npartitions`` "approximate ... may be slightly lower"; the statement (fixed)
  says n partitions, so a lower count is reported (PENDING, same mechanism as C41's
  ``repartition:npartitions:more:numeric-or-datetime-index:graph:npartitions-vs-divisions``).
"""
from __future__ import annotations

import itertools
import random
import warnings

PROP = "C44"
RULE = ("case = (frame seed, rows 0..40 [100..400 for a third of the partition_size targets], index kind, source partitioning "
        "[optionally under a filter], one target [optionally under a filter / column selection]) + one sibling target that "
        "differs in one parameter, computed in the same graph; sources: from_pandas "
        "npartitions|chunksize, from_map/from_delayed row slices incl. empty partitions (unknown divisions), cleared "
        "divisions, from_map with a known division vector over index/between/beyond values (known divisions with empty "
        "partitions); targets: repartition npartitions (above, below, equal, above the row count), divisions (inside, "
        "beyond, inner divisions outside the data, not covering; force on/off; repeated last division; list/tuple, method/"
        "function, pandas object, float values on an integer index), npartitions as callable, partition_size, freq "
        "(aliases, calendar offsets, Timedelta), and from_pandas npartitions|chunksize directly (sort on/off).  Complete sub-space first (see EXHAUSTIVE_SPACE).  non-trivial = frame has >= 2 "
        "rows and source or result has >= 2 partitions; distinct = distinct case descriptions")
ASSUMPTIONS = [
    "pandas defines row identity/order; vf.gen.frames.compare is the comparison discipline",
    "partitions are what dask.compute(*r.to_delayed()) returns; sync scheduler; pyarrow import stub (pandas-backed strings)",
]
BUDGET = {"quick": 90, "thorough": 720}
FLOORS = {
    "quick": {"evaluations": 1950, "distinct_nontrivial": 1600,
              "counters": {"results_checked": 1700, "partitions_observed": 10000, "npartitions_checked": 950,
                           "npartitions_more": 420, "npartitions_fewer": 450, "npartitions_above_row_count": 160,
                           "divisions_checked": 450, "divisions_force": 200, "divisions_outer_changed": 180,
                           "expected_error": 100, "divisions_monitor_runs": 620, "compute_views": 250,
                           "source_unknown_divisions": 580, "source_with_empty_partitions": 130},
              "sets": {"target_feature": 12}, "max_skipped_fraction": 0.15},
    "thorough": {"evaluations": 22000, "distinct_nontrivial": 17500,
                 "counters": {"results_checked": 19000, "partitions_observed": 110000, "npartitions_checked": 7500,
                              "npartitions_more": 3600, "npartitions_fewer": 3200, "npartitions_above_row_count": 1600,
                              "divisions_checked": 7200, "divisions_force": 3000, "divisions_outer_changed": 2800,
                              "expected_error": 1500, "divisions_monitor_runs": 7200, "compute_views": 3800,
                              "source_unknown_divisions": 5000, "source_with_empty_partitions": 2000},
                 "sets": {"target_feature": 13}, "max_skipped_fraction": 0.15},
}
# parameter audit + sibling facet: about 45 percent of the smallest count of the five quick seeds on the tree with the C44
# patches; thorough = quick x 15 (the random stream is 16.7 times longer)
FLOORS["quick"]["counters"].update({'npartitions_callable': 57, 'force_with_npartitions_or_size': 45, 'divisions_as_tuple': 93, 'divisions_via_function': 66, 'divisions_float_on_int_index': 15, 'pandas_object_divisions': 46, 'freq_calendar_offset': 20, 'freq_timedelta': 6, 'from_pandas_sort_unsorted': 27, 'source_after_filter': 127, 'post_filter': 48, 'post_projection': 50, 'after_error_followup': 73, 'sibling_partition_size': 146, 'siblings_built': 900, 'siblings_computed_together': 415, 'siblings_with_different_values': 330})
FLOORS["thorough"]["counters"].update({'npartitions_callable': 855, 'force_with_npartitions_or_size': 675, 'divisions_as_tuple': 1395, 'divisions_via_function': 990, 'divisions_float_on_int_index': 225, 'pandas_object_divisions': 690, 'freq_calendar_offset': 300, 'freq_timedelta': 90, 'from_pandas_sort_unsorted': 405, 'source_after_filter': 1905, 'post_filter': 720, 'post_projection': 750, 'after_error_followup': 1095, 'sibling_partition_size': 2190, 'siblings_built': 13500, 'siblings_computed_together': 6225, 'siblings_with_different_values': 4950})
FLOORS["quick"]["counters"].update({"divisions_force": 150, "divisions_outer_changed": 140, "expected_error": 75})
FLOORS["thorough"]["counters"].update({"divisions_force": 2500, "divisions_outer_changed": 2300, "expected_error": 1200})
FLOORS["quick"]["counters"]["pieces_space_checked"] = 300
FLOORS["thorough"]["counters"]["pieces_space_checked"] = 1150
FLOORS["quick"]["sets"]["target_feature"] = 16
FLOORS["thorough"]["sets"]["target_feature"] = 17
EXHAUSTIVE_SPACE = {
    "quick": "6-row frames with index (10..60 step 10) and (0..5): all 32 compositions into non-empty source partitions x "
             "{known, unknown divisions} x repartition(npartitions=1..8); known sparse sources x all 16 target division "
             "vectors drawn from the index values; all (source partition count o<=32, target npartitions n<o) pairs; all "
             "(rows n<=24 in ONE partition, pieces k in 2..26) pairs of RepartitionToMore",
    "thorough": "quick space (count pairs up to o<=48, (rows, pieces) pairs up to n<=48, k<=50) + all 512 known-division sources over the grid 10,15,..,60 (with empty partitions) x "
                "npartitions 1..8 and x the 16 target division vectors; duplicate index (1,1,2,3,3,3): all 4 valid sources "
                "(incl. repeated last division) x npartitions 1..8 and x the same 4 vectors as targets",
}
CLAIM = ("For every generated (source partitioning, target) pair the partitions of the repartitioned frame (graph view, and "
         "compute() in a third of the random cases) were compared row for row, in order and with the index, with the pandas "
         "frame; the partition count was compared with the requested npartitions; reported divisions and the content of "
         "each partition were compared with the requested divisions.  Held means: no disagreement among the executions "
         "observed beyond the PENDING mechanisms.")
LEVEL_NOTE = "trusts pandas row order/index semantics, frames.compare and the sync scheduler"
TECHNIQUE = ("runtime monitoring: pandas differential on rows and order + post-conditions on partition count, reported "
             "divisions and per-partition index bounds; complete small space + random")
CASE_TIMEOUT = 60

PENDING = {
    # one mechanism (Repartition.npartitions returns the request while the interpolated divisions are de-duplicated /
    # truncated to the index dtype), two symptoms
    "repartition:npartitions:more&known-divisions&numeric-or-datetime-index:partition-count":
        "repartition(npartitions=n) above the source count on known numeric/datetime divisions gives fewer than n partitions "
        "(reports npartitions == n) whenever the interpolated divisions collide",
    "repartition:npartitions:more&known-divisions&numeric-or-datetime-index:AssertionError@dataframe/dask_expr/_repartition.py:_partitions_boundaries":
        "same mechanism when only ONE partition results: compute() appends repartition(npartitions=1) because npartitions "
        "reports n > 1, RepartitionToFewer asserts npartitions_input > npartitions",
}

INDEX_KINDS = ("range", "sorted", "dups", "dups", "unsorted", "datetime", "datetime_days", "strings", "float")
DATETIME_KINDS = ("datetime", "datetime_days")
INT_KINDS = ("range", "sorted", "dups", "unsorted")
SIZES = ("100B", "200B", "300B", "500B", "700B", "1kB", "2kB", "3kB", "5kB", "1MB", 150, 300, 1500, 4000)
# fixed frequencies (minute-resolution index spanning <= 160 min); "td:" = passed as pd.Timedelta
FREQS_MINUTES = ("10min", "1h", "37min", "30min", "2h", "1D", "7min", "td:15min", "td:1h", "20min")
# day-resolution index spanning months: period-end aliases are mapped to period starts, anchored and multiple offsets, weeks
FREQS_DAYS = ("ME", "MS", "W", "QE", "2ME", "QE-FEB", "10D", "SME", "7D", "td:10D", "YE", "W-WED", "1D")
E_SPARSE = [10, 20, 30, 40, 50, 60]
E_DENSE = [0, 1, 2, 3, 4, 5]
E_DUPS = [1, 1, 2, 3, 3, 3]
E_GRID = list(range(10, 61, 5))


# --------------------------------------------------------------------------- cases
def _subsets(items):
    for r in range(len(items) + 1):
        yield from itertools.combinations(items, r)


def cases(tier, seed):
    rng = random.Random(seed * 6700417 % (2 ** 31) + 44)
    # ---- complete sub-space: compositions x npartitions, x target division vectors
    for cuts in _subsets(range(1, 6)):
        for frame in ("sparse", "dense"):
            for known in (True, False):
                for n in range(1, 9):
                    yield {"space": "exhaustive", "e": frame, "cuts": list(cuts), "known": known,
                           "t": {"k": "npartitions", "n": n}}
        for inner in _subsets(E_SPARSE[1:-1]):
            yield {"space": "exhaustive", "e": "sparse", "cuts": list(cuts), "known": True,
                   "t": {"k": "divisions", "d": [E_SPARSE[0]] + list(inner) + [E_SPARSE[-1]], "force": False}}
    # ---- complete sub-space: every (source count o, target n < o) pair, one row per source partition
    omax = 32 if tier == "quick" else 48
    for o in range(2, omax + 1):
        for n in range(1, o):
            yield {"space": "exhaustive", "e": "range", "o": o, "known": (o + n) % 2 == 0, "t": {"k": "npartitions", "n": n}}
    # ---- complete sub-space: one partition of n rows (unknown divisions) cut into k pieces -- the cut points of
    # split_evenly are float based, like the boundaries of RepartitionToFewer
    nmax, kmax = (24, 26) if tier == "quick" else (48, 50)
    for n in range(1, nmax + 1):
        for k in range(2, kmax + 1):
            yield {"space": "exhaustive", "e": "pieces", "rows": n, "t": {"k": "npartitions", "n": k}}
    if tier == "thorough":
        for inner in _subsets(E_GRID[1:-1]):
            sd = [E_GRID[0]] + list(inner) + [E_GRID[-1]]
            for n in range(1, 9):
                yield {"space": "exhaustive", "e": "sparse", "sdiv": sd, "known": True, "t": {"k": "npartitions", "n": n}}
            for tin in _subsets(E_SPARSE[1:-1]):
                yield {"space": "exhaustive", "e": "sparse", "sdiv": sd, "known": True,
                       "t": {"k": "divisions", "d": [E_SPARSE[0]] + list(tin) + [E_SPARSE[-1]], "force": False}}
        dup_vectors = ([1, 3], [1, 2, 3], [1, 3, 3], [1, 2, 3, 3])
        for sd in dup_vectors:
            for n in range(1, 9):
                yield {"space": "exhaustive", "e": "dups", "sdiv": sd, "known": True, "t": {"k": "npartitions", "n": n}}
            for td in dup_vectors:
                yield {"space": "exhaustive", "e": "dups", "sdiv": sd, "known": True,
                       "t": {"k": "divisions", "d": td, "force": False}}
    # ---- random
    k = 2400 if tier == "quick" else 40000
    for _ in range(k):
        nrows = rng.choice((0, 1, 2, 3, 5, 6, 8)) if rng.random() < 0.25 else rng.randint(4, 40)
        kind = rng.choice(INDEX_KINDS)
        c = {"fs": rng.randrange(2 ** 31), "nrows": nrows, "index": kind,
             "cols": rng.choice(("basic", "basic", "wide")), "series": rng.random() < 0.08}
        tk = rng.choice(("npartitions",) * 5 + ("divisions",) * 6 + ("partition_size",) * 3 + ("from_pandas",) * 3
                        + ("pandas_divisions",) + (("freq",) * 9 if kind in DATETIME_KINDS else ()))
        if tk == "from_pandas":
            if rng.random() < 0.25:
                c["index"] = kind = "unsorted"
            c["t"] = {"k": tk, "by": rng.choice(("npartitions", "chunksize")), "n": rng.randint(1, max(2, nrows + 3)),
                      "sort": rng.random() < 0.7, "sort_unsorted": rng.random() < 0.8}
            yield c
            continue
        if tk == "pandas_divisions":
            # dd.repartition(<pandas object>, divisions): only division vectors that cover the index
            if kind == "unsorted":
                c["index"] = kind = "sorted"
            c["t"] = {"k": tk, "lo": rng.choice(("same", "same", "below")), "hi": rng.choice(("same", "same", "beyond")),
                      "np": rng.randint(1, 8), "gap": rng.random() < 0.4, "dup_last": rng.random() < 0.1,
                      "dseed": rng.randrange(2 ** 31), "as": rng.choice(("list", "tuple")), "force": False,
                      "beyond_inner": rng.random() < 0.5}
            yield c
            continue
        if tk == "partition_size" and rng.random() < 0.35:
            c["nrows"] = nrows = rng.randint(100, 400)          # partitions of several kB: sizes of 1kB..5kB split them
        srck = rng.choice(("from_pandas", "from_pandas", "known", "known", "slices", "delayed"))
        if tk in ("divisions", "freq") and rng.random() < 0.85 and srck in ("slices", "delayed"):
            srck = rng.choice(("from_pandas", "known"))
        if kind == "unsorted" and srck == "known":
            srck = "from_pandas"
        if srck == "from_pandas":
            c["src"] = {"how": rng.choice(("npartitions", "npartitions", "chunksize")), "n": rng.randint(1, 7),
                        "clear": tk not in ("divisions", "freq") and rng.random() < 0.12}
            if c["src"]["how"] == "chunksize":
                c["src"]["n"] = rng.randint(max(1, nrows // 12), max(1, nrows))
        elif srck == "known":
            c["src"] = {"how": "known", "np": rng.randint(1, 7), "sseed": rng.randrange(2 ** 31),
                        "gap": rng.random() < 0.5, "lo": rng.random() < 0.2, "hi": rng.random() < 0.2}
        else:
            c["src"] = {"how": srck, "cuts": [rng.randint(0, nrows) for _ in range(rng.randint(0, 5))]}
        if tk == "npartitions":
            n = rng.choice((1, 2, 3, rng.randint(1, 9), nrows + rng.randint(1, 4), max(1, nrows - 1), max(1, nrows)))
            c["t"] = {"k": tk, "n": n}
            if rng.random() < 0.22:           # npartitions given as a callable of the current partition count
                c["t"]["fn"] = rng.choice(("x2", "x3", "half", "plus1", "plus2", "minus1", "const"))
            if rng.random() < 0.12:           # force= is accepted next to npartitions (no effect on the rows)
                c["t"]["force"] = True
        elif tk == "divisions":
            lo = rng.choice(("same",) * 6 + ("below", "below", "above"))
            hi = rng.choice(("same",) * 6 + ("beyond", "beyond", "inside"))
            force = rng.random() < (0.8 if (lo, hi) != ("same", "same") else 0.3)
            c["t"] = {"k": tk, "lo": lo, "hi": hi, "force": force, "np": rng.randint(1, 8),
                      "gap": rng.random() < 0.4, "dup_last": rng.random() < 0.1, "dseed": rng.randrange(2 ** 31),
                      "as": rng.choice(("list", "list", "tuple")), "via": rng.choice(("method",) * 3 + ("function",)),
                      "floatdiv": rng.random() < 0.15, "beyond_inner": rng.random() < 0.5}
        elif tk == "partition_size":
            c["t"] = {"k": tk, "size": rng.choice(SIZES)}
            if rng.random() < 0.1:
                c["t"]["force"] = True
        else:
            c["t"] = {"k": tk, "freq": rng.choice(FREQS_DAYS if kind == "datetime_days" else FREQS_MINUTES)}
        # a filter under the repartition (partitions emptied behind known divisions) / a filter or projection above it
        # (both are pushed through Repartition by the optimizer)
        if rng.random() < 0.16:
            c["pre"] = rng.choice(("a>=2", "e", "a<0"))
        if rng.random() < 0.16:
            c["post"] = rng.choice(("a>=2", "e", "cols", "col"))
        c["also_compute"] = rng.random() < 0.34
        yield c


def shard_setup(tier, seed):
    from vf.gen import frames as F

    F.setup()
    import dask

    dask.config.set(scheduler="sync")
    warnings.simplefilter("ignore")


# --------------------------------------------------------------------------- building
def _ident(p):
    return p


def _plain(v):
    """numpy scalar -> python scalar (divisions given by a user are plain values)"""
    import numpy as np
    import pandas as pd

    if isinstance(v, np.generic) and not isinstance(v, (np.datetime64,)):
        return v.item()
    if isinstance(v, np.datetime64):
        return pd.Timestamp(v)
    return v


def known_source(pdf, divs):
    """from_map over the slices of ``pdf`` (sorted index) delimited by the division vector (last interval closed)"""
    import numpy as np

    from vf.gen import frames as F

    dd = F.setup()
    idx = pdf.index
    # (a repeated last division means: the last partition holds exactly the label divs[-1])
    pos = [int(idx.searchsorted(v, side="left")) for v in divs[:-1]]
    pos.append(len(pdf))
    pos[0] = 0
    pos = list(np.maximum.accumulate(pos))
    parts = [pdf.iloc[a:b] for a, b in zip(pos[:-1], pos[1:])]
    return dd.from_map(_ident, parts, meta=pdf.iloc[:0], divisions=tuple(divs))


def _between(a, b, kind):
    """a value strictly between a and b of the same kind, or None"""
    import pandas as pd

    kind = "datetime" if kind in DATETIME_KINDS else kind

    if kind in ("range", "sorted", "dups", "unsorted"):
        m = (int(a) + int(b)) // 2
        return m if a < m < b else None
    if kind == "float":
        m = round((float(a) + float(b)) / 2, 3)
        return m if a < m < b else None
    if kind == "datetime":
        m = pd.Timestamp(a) + (pd.Timestamp(b) - pd.Timestamp(a)) / 2
        m = m.floor("s")
        return m if a < m < b else None
    if kind == "strings":
        m = str(a) + "m"
        return m if a < m < b else None
    return None


def _outside(v, kind, up):
    import pandas as pd

    if kind == "datetime_days":
        return pd.Timestamp(v) + pd.Timedelta(days=40 if up else -20)

    if kind in ("range", "sorted", "dups", "unsorted"):
        return int(v) + (4 if up else -3)
    if kind == "float":
        return float(v) + (2.5 if up else -1.5)
    if kind == "datetime":
        return pd.Timestamp(v) + pd.Timedelta(minutes=90 if up else -45)
    if kind == "strings":
        return "t" if up else "a"
    raise ValueError(kind)


def _pool(pdf, kind, rng, gap):
    vals = [_plain(v) for v in pdf.index.unique()]
    pool = list(vals)
    if gap:
        for a, b in zip(vals[:-1], vals[1:]):
            if rng.random() < 0.5:
                m = _between(a, b, kind)
                if m is not None:
                    pool.append(m)
    return sorted(pool)


def random_known_divs(pdf, kind, src):
    rng = random.Random(src["sseed"])
    pool = _pool(pdf, kind, rng, src.get("gap"))
    lo, hi = pool[0], pool[-1]
    inner = [v for v in pool if lo < v < hi]
    take = sorted(rng.sample(inner, min(len(inner), max(0, src["np"] - 1))))
    d = [lo] + take + [hi]
    if src.get("lo"):
        d = [_outside(lo, kind, False)] + d if rng.random() < 0.5 else [_outside(lo, kind, False)] + d[1:]
    if src.get("hi"):
        d = d + [_outside(hi, kind, True)] if rng.random() < 0.5 else d[:-1] + [_outside(hi, kind, True)]
    if len(d) == 1:
        d = d * 2
    return d


def build(case):
    """-> dict(pdf, expected, src (dask frame or None), kind)"""
    import pandas as pd

    from vf.gen import frames as F

    F.setup()
    if case.get("e") == "pieces":
        n = case["rows"]
        pdf = pd.DataFrame({"x": [(5 * i) % n for i in range(n)]}, index=pd.RangeIndex(n))
        return {"pdf": pdf, "src": F.partition(pdf, {"how": "npartitions", "n": 1, "clear": True}), "kind": "range"}
    if case.get("e") == "range":
        o = case["o"]
        pdf = pd.DataFrame({"x": [(7 * i) % o for i in range(o)]}, index=pd.RangeIndex(o))
        src = F.partition(pdf, {"how": "chunksize", "n": 1, "clear": not case["known"]})
        return {"pdf": pdf, "src": src, "kind": "range"}
    if "e" in case:
        idx = {"sparse": E_SPARSE, "dense": E_DENSE, "dups": E_DUPS}[case["e"]]
        pdf = pd.DataFrame({"x": [5, 3, 8, 1, 9, 2], "y": list("abcdef")}, index=pd.Index(idx, name="i"))
        kind = "sorted"
        if "sdiv" in case:
            src = known_source(pdf, case["sdiv"])
        else:
            b = [0] + list(case["cuts"]) + [6]
            divs = [idx[x] for x in b[:-1]] + [idx[-1]]
            if case["known"]:
                src = known_source(pdf, divs)
            else:
                dd = F.setup()
                src = dd.from_map(_ident, [pdf.iloc[x:y] for x, y in zip(b[:-1], b[1:])], meta=pdf.iloc[:0])
        return {"pdf": pdf, "src": src, "kind": kind}
    kind = case["index"]
    pdf = F.rand_frame(case["fs"], nrows=case["nrows"], index="datetime" if kind == "datetime_days" else kind, cols=case["cols"])
    if kind == "datetime_days" and len(pdf):
        # the same sorted offsets, one minute -> six hours: the index spans up to ~40 days per 40 rows (months for 100+ rows)
        base = pd.Timestamp("2021-03-01")
        pdf.index = pd.DatetimeIndex(base + (pdf.index - base) * 360, name="ts")
    if case.get("series"):
        pdf = pdf["c"]
    if case["t"]["k"] in ("from_pandas", "pandas_divisions"):
        return {"pdf": pdf, "src": None, "kind": kind}
    s = case["src"]
    if s["how"] == "known":
        if len(pdf) == 0 or not pdf.index.is_monotonic_increasing:
            src = F.partition(pdf, {"how": "npartitions", "n": s["np"]})
        else:
            src = known_source(pdf, random_known_divs(pdf, kind, s))
    else:
        src = F.partition(pdf, s)
    return {"pdf": pdf, "src": src, "kind": kind}


def _select(obj, what):
    """the same filter / projection program on a pandas or a dask object"""
    series = obj.ndim == 1
    if what == "a>=2":
        return obj[obj > 0] if series else obj[obj["a"] >= 2]
    if what == "e":
        return obj[obj < 0.3] if series else obj[obj["e"]]
    if what == "a<0":                                        # keeps no row at all: every partition becomes empty
        return obj[obj > 1e9] if series else obj[obj["a"] < 0]
    if what == "cols":
        return obj if series else obj[["c", "a"]]
    if what == "col":
        return obj if series else obj["b"]
    raise ValueError(what)


def resolve_divisions(t, src, pdf, kind):
    """symbolic target -> (division list, lo, hi) or None when the source cannot carry it"""
    if "d" in t:
        return list(t["d"]), t.get("lo", "same"), t.get("hi", "same")
    rng = random.Random(t["dseed"])
    if src is not None and src.known_divisions:
        a0, a1 = _plain(src.divisions[0]), _plain(src.divisions[-1])
    elif len(pdf) and pdf.index.is_monotonic_increasing:
        a0, a1 = _plain(pdf.index[0]), _plain(pdf.index[-1])
    else:
        return None
    pool = [v for v in _pool(pdf, kind, rng, t.get("gap")) if a0 < v < a1]
    lo, hi = t["lo"], t["hi"]
    if lo == "above" and not pool:
        lo = "same"
    if hi == "inside" and not pool:
        hi = "same"
    first = a0 if lo == "same" else _outside(a0, kind, False) if lo == "below" else pool[0]
    last = a1 if hi == "same" else _outside(a1, kind, True) if hi == "beyond" else pool[-1]
    if not first <= last:
        first, last, lo, hi = a0, a1, "same", "same"
    inner = [v for v in pool if first < v < last]
    take = sorted(rng.sample(inner, min(len(inner), max(0, t["np"] - 1))))
    d = [first] + take + [last]
    if lo == "below" and rng.random() < 0.5 and a0 not in d:
        d = sorted(d + [a0])
    if hi == "beyond" and rng.random() < 0.5 and a1 not in d:
        d = sorted(d + [a1])
    if t.get("beyond_inner"):
        # inner divisions that lie outside the data: an interval that is entirely below / beyond every row
        if lo == "below":
            m = _between(first, a0, kind)
            if m is not None and m not in d:
                d = sorted(d + [m])
        if hi == "beyond":
            m = _between(a1, last, kind)
            if m is not None and m not in d:
                d = sorted(d + [m])
    if t.get("floatdiv") and kind in INT_KINDS:
        # float-valued inner divisions on an integer index (x.5 lies strictly between two integers)
        d = [d[0]] + [v + 0.5 if v + 0.5 < d[-1] else v for v in d[1:-1]] + [d[-1]]
    if t.get("dup_last") and len(d) >= 2 and d[-1] != d[-2]:
        d = d + [d[-1]]
    if len(d) == 1:
        d = d * 2
    return d, lo, hi


def _idxclass(src):
    import pandas as pd
    from pandas.api.types import is_datetime64_any_dtype, is_numeric_dtype

    dt = pd.Series(list(src.divisions)).dtype if src.known_divisions else None
    if dt is not None and (is_numeric_dtype(dt) or is_datetime64_any_dtype(dt)):
        return "numeric-or-datetime"
    return "other"


def _div_equal(got, want):
    if len(got) != len(want):
        return False
    for g, w in zip(got, want):
        try:
            if not (g == w):
                return False
        except Exception:  # noqa: BLE001
            return False
    return True


NP_FUNCS = {"x2": lambda k: 2 * k, "x3": lambda k: 3 * k, "half": lambda k: max(1, k // 2), "plus1": lambda k: k + 1,
            "plus2": lambda k: k + 2, "minus1": lambda k: max(1, k - 1)}


def _np_callable(t):
    if t["fn"] == "const":
        n = t["n"]
        return lambda k: n
    return NP_FUNCS[t["fn"]]


def _freq_arg(f):
    import pandas as pd

    return pd.Timedelta(f[3:]) if isinstance(f, str) and f.startswith("td:") else f


class Target:
    """one request: ``mk()`` builds the lazy result; what may be demanded of it"""

    def __init__(self, **kw):
        self.may_raise = False
        self.dwant = None
        self.n = None           # requested partition count (npartitions targets)
        self.reject = None
        self.ordered = True
        self.counts = []
        self.__dict__.update(kw)


def make_target(t, src, pdf, kind):
    """target description -> Target (never evaluates anything but the cheap attributes of ``src``)"""
    from vf.gen import frames as F

    dd = F.setup()
    tk = t["k"]
    if tk == "from_pandas":
        mono = bool(pdf.index.is_monotonic_increasing)
        sort = bool(t["sort"]) and (mono or bool(t.get("sort_unsorted")))
        kw = {t["by"]: t["n"]}
        T = Target(feat="from_pandas:%s&sort=%s&%s-index" % (t["by"], sort, "monotonic" if mono else "unsorted"),
                   mk=lambda: dd.from_pandas(pdf, sort=sort, **kw), op="from_pandas", ordered=mono or not sort)
        if sort and not mono:
            T.counts.append("from_pandas_sort_unsorted")
        return T
    if tk == "pandas_divisions":
        rd = resolve_divisions(t, None, pdf, kind)
        if rd is None:
            return Target(reject="no division vector can be drawn for an unsorted/empty frame")
        d, lo, hi = rd
        arg = tuple(d) if t.get("as") == "tuple" else list(d)
        dup_last = len(d) > 2 and d[-1] == d[-2]
        return Target(feat="repartition:pandas-object:lo-%s&hi-%s%s" % (lo, hi, "&dup-last" if dup_last else ""), dwant=d,
                      mk=lambda: dd.repartition(pdf, arg), op="repartition-pandas-object", counts=["pandas_object_divisions"])
    known = bool(src.known_divisions)
    srcnp = src.npartitions
    if tk == "npartitions":
        if t.get("fn"):
            f = _np_callable(t)
            n = f(srcnp)
            arg = f
        else:
            n = arg = t["n"]
        rel = "more" if n > srcnp else "fewer" if n < srcnp else "same"
        kw = {"force": True} if t.get("force") else {}
        T = Target(feat="repartition:npartitions:%s&%s-divisions&%s-index" % (rel, "known" if known else "unknown", _idxclass(src)),
                   n=n, mk=lambda: src.repartition(npartitions=arg, **kw), op="repartition", rel=rel)
        T.counts.append("npartitions_" + rel)
        if t.get("fn"):
            T.counts.append("npartitions_callable")
        if kw:
            T.counts.append("force_with_npartitions_or_size")
        return T
    if tk == "divisions":
        rd = resolve_divisions(t, src, pdf, kind)
        if rd is None:
            return Target(reject="no division vector can be drawn for an unsorted/empty source")
        d, lo, hi = rd
        force = bool(t["force"])
        dup_last = len(d) > 2 and d[-1] == d[-2]
        feat = "repartition:divisions:%s&lo-%s&hi-%s%s" % ("force" if force else "noforce", lo, hi, "&dup-last" if dup_last else "")
        may_raise = False
        if not known:
            may_raise = True
            feat = "repartition:divisions:unknown-source-divisions"
        elif not force and (lo, hi) != ("same", "same"):
            may_raise = True
        elif force and (lo == "above" or hi == "inside"):
            may_raise = True
        arg = tuple(d) if t.get("as") == "tuple" else list(d)
        if t.get("via") == "function":
            mk = lambda: dd.repartition(src, arg, force=force)  # noqa: E731
        else:
            mk = lambda: src.repartition(divisions=arg, force=force)  # noqa: E731
        T = Target(feat=feat, dwant=d, may_raise=may_raise, mk=mk, op="repartition", lo=lo, hi=hi, force=force)
        T.counts.append("divisions_force" if force else "divisions_noforce")
        if (lo, hi) != ("same", "same"):
            T.counts.append("divisions_outer_changed")
        if t.get("as") == "tuple":
            T.counts.append("divisions_as_tuple")
        if t.get("via") == "function":
            T.counts.append("divisions_via_function")
        if any(isinstance(v, float) for v in d[1:-1]) and kind in INT_KINDS:
            T.counts.append("divisions_float_on_int_index")
        return T
    if tk == "partition_size":
        kw = {"force": True} if t.get("force") else {}
        T = Target(feat="repartition:partition_size:%s-divisions" % ("known" if known else "unknown"),
                   mk=lambda: src.repartition(partition_size=t["size"], **kw), op="repartition")
        if kw:
            T.counts.append("force_with_npartitions_or_size")
        return T
    if tk == "freq":
        if not known or kind not in DATETIME_KINDS:
            return Target(reject="freq needs a datetime index with known divisions")
        f = _freq_arg(t["freq"])
        T = Target(feat="repartition:freq", mk=lambda: src.repartition(freq=f), op="repartition")
        if not isinstance(f, str):
            T.counts.append("freq_timedelta")
        elif kind == "datetime_days" and not f[-1] in "D":
            T.counts.append("freq_calendar_offset")
        return T
    raise ValueError(tk)


def sibling_target(case, t, T, src, pdf, kind):
    """-> (param, description of the same request with ONE parameter changed) or None"""
    from ..mon import siblings as S

    srng = S.rng_for(case)
    tk = t["k"]
    if tk == "npartitions":
        pool = [v for v in (1, 2, 3, 4, 5, 7, 9, T.n + 1, T.n - 1, 2 * T.n) if v >= 1 and v != T.n]
        return "npartitions", {"k": tk, "n": srng.choice(pool)}
    if tk in ("divisions", "pandas_divisions"):
        d = list(T.dwant)
        if tk == "divisions" and srng.random() < 0.2 and (T.lo, T.hi) == ("same", "same"):
            return "force", dict(t, d=d, force=not t["force"])
        inner = list(range(1, len(d) - 1))
        cand = [v for v in _pool(pdf, kind, srng, True) if d[0] < v < d[-1] and v not in d]
        if inner and (not cand or srng.random() < 0.5):
            i = srng.choice(inner)
            d2 = d[:i] + d[i + 1:]
        elif cand:
            d2 = sorted(d[:-1] + [srng.choice(cand)]) + [d[-1]]
        else:
            return None
        return "divisions", dict(t, d=d2, lo=getattr(T, "lo", "same"), hi=getattr(T, "hi", "same"))
    if tk == "partition_size":
        return "partition_size", dict(t, size=srng.choice([z for z in SIZES if z != t["size"]]))
    if tk == "freq":
        fam = FREQS_DAYS if kind == "datetime_days" else FREQS_MINUTES
        return "freq", dict(t, freq=srng.choice([f for f in fam if f != t["freq"]]))
    if tk == "from_pandas":
        if srng.random() < 0.25:
            return "sort", dict(t, sort=not t["sort"])
        return t["by"], dict(t, n=srng.choice([v for v in (1, 2, 3, 4, 6, t["n"] + 1, max(1, t["n"] - 1)) if v != t["n"]]))
    return None


# --------------------------------------------------------------------------- run
def run_case(case, ctx):
    with warnings.catch_warnings():
        warnings.simplefilter("ignore")
        _run(case, ctx)


def _parts(coll):
    import dask

    return list(dask.compute(*coll.to_delayed(), scheduler="sync"))


def _parts_many(colls):
    import dask

    return [list(v) for v in dask.compute(*[list(c.to_delayed()) for c in colls], scheduler="sync")]


def _whole(coll):
    return [coll.compute(scheduler="sync")]


def _whole_many(colls):
    import dask

    return [[v] for v in dask.compute(*colls, scheduler="sync")]


def _same_parts(x, y):
    from vf.gen import frames as F

    return len(x) == len(y) and all(F.compare(p, q, ordered=True) is None for p, q in zip(x, y))


def _run(case, ctx):
    import dask
    import pandas as pd

    from vf.gen import frames as F
    from ..mon import siblings as S

    F.setup()
    try:
        b = build(case)
    except NotImplementedError as e:
        ctx.unsupported("source: %s" % e)
        return
    except Exception as e:  # noqa: BLE001
        from vf.core.ctx import dask_frame

        if dask_frame(e):
            ctx.exception(e, prefix="source:%s" % (case.get("src", {}).get("how", "from_map")))
        else:
            raise
        return
    pdf, src, kind = b["pdf"], b["src"], b["kind"]
    t = case["t"]
    tk = t["k"]
    ctx.op("target:" + tk)
    ctx.sig = case
    pre, post = case.get("pre"), case.get("post")
    if src is not None and pre:
        # the source is a filtered frame: same divisions, partitions emptied / thinned behind them
        src = _select(src, pre)
        pdf = _select(pdf, pre)
        ctx.count("source_after_filter")
    T = make_target(t, src, pdf, kind)
    if T.reject:
        ctx.reject(T.reject)
        return
    feat, dwant, may_raise = T.feat, T.dwant, T.may_raise
    for name in T.counts:
        ctx.count(name)
    if src is None:
        srcnp = 1
    else:
        srcnp = src.npartitions
        ctx.count("source_known_divisions" if src.known_divisions else "source_unknown_divisions")
        if tk == "npartitions" and T.n > len(pdf):
            ctx.count("npartitions_above_row_count")
        if "space" not in case and any(len(p) == 0 for p in _src_lengths(src)):
            ctx.count("source_with_empty_partitions")
    expected = pdf
    if post:
        expected = _select(pdf, post)
    desc = _describe(case, dwant, src)

    def final(T_):
        r_ = T_.mk()
        return _select(r_, post) if post else r_

    # ---- run ---------------------------------------------------------------------------------------------
    try:
        r = final(T)
        rnp = r.npartitions
        rdiv = r.divisions
        parts = _parts(r)
        whole = r.compute(scheduler="sync") if case.get("also_compute") else None
    except NotImplementedError as e:
        ctx.unsupported("%s: %s" % (feat, e))
        return
    except ValueError as e:
        if may_raise:
            ctx.count("expected_error")
            ctx.sample = {"expected_error": str(e)[:120], "feat": feat}
            _after_error(ctx, case, src, pdf, feat, desc)
            return
        ctx.exception(e, prefix=feat, case=desc)
        return
    except Exception as e:  # noqa: BLE001
        ctx.exception(e, prefix=feat, case=desc)
        return
    if may_raise:
        ctx.count("may_raise_but_returned")
    if post:
        ctx.count("post_filter" if post in ("a>=2", "e") else "post_projection")
    ctx.nontrivial = len(pdf) >= 2 and (srcnp >= 2 or len(parts) >= 2)
    ctx.count("results_checked")
    if case.get("e") == "pieces":
        ctx.count("pieces_space_checked")
    ctx.count("partitions_observed", len(parts))
    ctx.distinct("target_feature", feat)
    # ---- rows and order ----------------------------------------------------------------------------------------
    got = pd.concat(parts) if parts else expected.iloc[:0]
    m = F.compare(got, expected, ordered=T.ordered)
    if m is not None:
        ctx.violation("%s:rows-%s" % (feat, m[0]), "concat(partitions) differs from the pandas frame: %s" % m[1],
                      case=desc, partition_lengths=[len(p) for p in parts])
    elif not T.ordered and not got.index.is_monotonic_increasing:
        ctx.violation(feat + ":index-not-sorted", "from_pandas(sort=True) is documented to sort by the index; the partitions "
                      "concatenate to a non-monotonic index", case=desc)
    if whole is not None:
        ctx.count("compute_views")
        m2 = F.compare(whole, expected, ordered=T.ordered)
        if m2 is not None and m is None:
            ctx.violation("%s:compute-rows-%s" % (feat, m2[0]), "compute() differs from the pandas frame: %s" % m2[1], case=desc)
    # ---- partition count -----------------------------------------------------------------------------------------
    count_fired = False
    if tk == "npartitions":
        ctx.count("npartitions_checked")
        if len(parts) != T.n:
            count_fired = True
            ctx.violation(feat + ":partition-count", "repartition(npartitions=%d) gave %d partitions (reports npartitions=%d, divisions %r)"
                          % (T.n, len(parts), rnp, _short_div(rdiv)), case=desc)
        elif rnp != T.n:
            count_fired = True
            ctx.violation(feat + ":npartitions-reported", "repartition(npartitions=%d) reports npartitions=%d (graph has %d)"
                          % (T.n, rnp, len(parts)), case=desc)
    # ---- requested divisions ---------------------------------------------------------------------------------------
    if tk in ("divisions", "pandas_divisions"):
        ctx.count("divisions_checked")
        if not _div_equal(tuple(rdiv), tuple(dwant)):
            ctx.violation(feat + ":divisions-reported", "requested divisions %r, reported %r" % (_short_div(dwant), _short_div(rdiv)), case=desc)
        elif len(parts) != len(dwant) - 1:
            count_fired = True
            ctx.violation(feat + ":partition-count", "requested %d divisions but the graph has %d partitions" % (len(dwant), len(parts)), case=desc)
        else:
            dv = _layout(dwant, parts)
            if dv is not None:
                ctx.violation(feat + ":layout:" + dv[0], dv[1], case=desc)
    else:
        # ---- divisions monitor (C41 style) on the other targets -------------------------------------------------------
        if r.known_divisions:
            ctx.count("divisions_monitor_runs")
            if len(parts) == len(rdiv) - 1:
                dv = F.divisions_violation(r, parts)
            else:
                dv = ("npartitions-vs-divisions", "graph has %d partitions, divisions %r" % (len(parts), _short_div(rdiv)))
            if dv is not None and not (count_fired and dv[0] == "npartitions-vs-divisions"):
                ctx.violation("%s:divisions-monitor:%s" % (feat, dv[0]), dv[1], case=desc)
    if tk == "freq" and len(rdiv) > 2 and rdiv[-1] == rdiv[-2]:
        ctx.count("freq_last_division_on_grid")
    ctx.sample = {"feat": feat, "src_npartitions": srcnp, "out_partitions": [len(p) for p in parts][:12]}
    # ---- sibling facet: the same request on the SAME source with one parameter changed, in one graph ------------------
    if "space" in case:
        return
    sib = sibling_target(case, t, T, src, pdf, kind)
    if sib is None:
        return
    param, t2 = sib
    T2 = make_target(t2, src, pdf, kind)
    if T2.reject or T2.may_raise:
        return
    mode = S.pick(case, 2, salt="c44mode")
    together = True if tk == "partition_size" else S.want_together(case, fraction=0.35, salt="c44")
    if tk == "partition_size":
        ctx.count("sibling_partition_size")
    if mode == 0:
        S.check(ctx, T.op, param, r, lambda: final(T2), va=parts, together=together, compute=_parts,
                compute_many=_parts_many, same=_same_parts, describe={"changed": param, "to": _jsonable(t2.get(_PARAM_FIELD.get(param, param)))})
    else:
        S.check(ctx, T.op, param, r, lambda: final(T2), va=[whole] if whole is not None else None, together=together,
                compute=_whole, compute_many=_whole_many, same=_same_parts,
                describe={"changed": param, "to": _jsonable(t2.get(_PARAM_FIELD.get(param, param)))})


_PARAM_FIELD = {"npartitions": "n", "chunksize": "n", "divisions": "d", "partition_size": "size"}


def _jsonable(v):
    if isinstance(v, (list, tuple)):
        return [str(x) for x in _short_div(v)]
    return v if isinstance(v, (int, float, str, bool, type(None))) else str(v)


def _after_error(ctx, case, src, pdf, feat, desc):
    """STATE: a refused request must leave the source usable -- a following repartition of the same frame is right"""
    import pandas as pd

    from vf.gen import frames as F
    from ..mon import siblings as S

    if src is None:
        return
    n = 1 + S.pick(case, 4, salt="after")
    try:
        parts = _parts(src.repartition(npartitions=n))
    except Exception as e:  # noqa: BLE001
        ctx.exception(e, prefix="repartition:npartitions-after-refused-divisions", case=desc)
        return
    ctx.count("after_error_followup")
    got = pd.concat(parts) if parts else pdf.iloc[:0]
    m = F.compare(got, pdf, ordered=True)
    if m is not None:
        ctx.violation("repartition:npartitions-after-refused-divisions:rows-%s" % m[0],
                      "after a refused repartition(divisions=...) the same frame repartitioned to %d partitions differs "
                      "from the pandas frame: %s" % (n, m[1]), case=desc)


def _src_lengths(src):
    import dask

    try:
        return dask.compute(*src.to_delayed(), scheduler="sync")
    except Exception:  # noqa: BLE001
        return ()


def _layout(d, parts):
    """partition i holds only index values of [d[i], d[i+1]) (last: closed)"""
    n = len(parts)
    for i, p in enumerate(parts):
        if len(p) == 0:
            continue
        lo, hi = p.index.min(), p.index.max()
        last = i == n - 1
        try:
            if lo < d[i]:
                return ("index-below-division", "partition %d holds index %r below requested divisions[%d]=%r (%r)" % (i, lo, i, d[i], _short_div(d)))
            if (hi > d[i + 1]) if last else (hi >= d[i + 1]):
                return ("index-above-division", "partition %d holds index %r outside [%r, %r%s (%r)"
                        % (i, hi, d[i], d[i + 1], "]" if last else ")", _short_div(d)))
        except TypeError as ex:
            return ("division-type", "cannot compare index %r with divisions %r: %s" % (lo, _short_div(d), ex))
    return None


def _short_div(d):
    d = list(d)
    return d if len(d) <= 14 else d[:7] + ["..."] + d[-6:]


def _describe(case, dwant, src):
    out = {k: v for k, v in case.items() if k not in ("space",)}
    if dwant is not None:
        out["requested_divisions"] = [str(v) for v in _short_div(dwant)]
    if src is not None:
        out["source_divisions"] = [str(v) for v in _short_div(src.divisions)]
        out["source_npartitions"] = src.npartitions
    return out
