"""C43 — the DataFrame optimizer preserves results and converges.

Monitor (stage-differential + pandas reference).  Every generated program (a small
let-list DAG over ONE base frame, see ``vf/gen/c43_programs.py``) is built once as a
dask expression and once as a pandas value from the same description, then the REAL
optimizer is run and its output is executed at every stage:

  (a) pandas on the concatenated frame                                  -> reference
  (b) ``collection.compute(scheduler="sync")``                          -> stage "compute"
  (c) for stage in logical, simplified-logical, tuned-logical, physical,
      simplified-physical, fused:  ``dask._expr.optimize_until(expr, stage)``, then
      ``lower_completely()`` (a no-op from "physical" on), ``__dask_graph__()`` /
      ``__dask_keys__()`` of THAT expression, ``dask.get`` (sync), finalised with the
      collection's own ``__dask_postcompute__``
  (d) ``optimize(optimize(expr))`` with fuse on and with fuse off       -> "reoptimized-fused" / "reoptimized"

Every one of these values must equal the pandas value (own comparison discipline,
``vf.gen.frames.compare``: kind, columns and their order, dtypes, length, index, values;
ordered where both libraries promise an order, as row multisets otherwise).  Any exception
raised by the optimizer or by executing an optimized graph — including the
"Optimizer does not converge" RuntimeError — is a violation labelled by stage.
``NotImplementedError`` -> unsupported; exceptions through the pyarrow import stub ->
environment-limited; pandas raising -> rejected.

Labels: ``<first disagreeing stage>:<op kinds of the SHRUNK program>:<symptom>``.  After a
disagreement the program is shrunk (earlier output / bypass one node) while the same stage keeps
showing the same symptom; the op kinds of the minimal program name the mechanism, so frames,
seeds and partitionings never enter a label.  The first stage in pipeline order is named: a
disagreement already present at "logical" (lowered without any simplification) is not caused by
a rewrite but is still a deviation from pandas and is reported under that stage name.

Known mechanisms (triaged by hand, see findings_proposed/C43.md) are recognised by what the symptom itself says or by
an input-feature predicate of the shrunk program (``_label``), so that one mechanism keeps one label per symptom.

Calibration
-----------
* ``frames.compare`` classifies an assert message containing "[index]:" as an index mismatch although the VALUES
  differ; the module re-checks the index itself and relabels such results ``values``.
* groupby results are compared as multisets: ``ddf.groupby('a').c.sum()`` does not come back sorted by key on this tree
  (sort order of groupby is C38's business, not the optimizer's).
* programs stay inside the domain where dask WITHOUT any rewrite ("logical" stage) agrees with pandas; constructs whose
  unoptimized result already differs were removed from the generator after triage (they belong to other properties and
  are listed as side observations in findings_proposed/C43.md): int min/max/sum combined arithmetically with an int
  column when some partitions are empty (float instead of int, C37), ``const / column`` and division by an arbitrary
  reduction (inf, then reductions over inf differ), ``merge(how='left')`` with unmatched keys (data-dependent dtypes,
  C40/C42), ``Series.notna`` (attribute missing in dask; ``notnull`` is used).
* ``tree_repr()`` is not used to detect rewrites (it reprs every partition of a from_map frame: 8 s per case); the
  expression ``_name`` (the optimizer's own fixpoint criterion) is compared instead.
* ``head(n)`` with the default ``npartitions=1`` and ``tail(n)`` only look at the first/last partition: they are used only
  when that partition holds >= n rows at run time (decided on the dask side, mirrored on the pandas side), otherwise
  ``head(n, npartitions=-1)`` / no step is used on both sides.
* float ties: ``x[x.c >= x.c.mean()]`` with a value exactly on the threshold gives different rows in pandas and in dask
  before any rewrite (different summation order, last bit).  After a mismatch the pandas side is re-evaluated with every
  reduction-valued comparison threshold moved by +-1e-9 (relative); if dask equals one of those, the case is rejected as
  a float tie (counted ``float_ties``), not reported (false alarm ``logical:filt+pred+reduce:length`` corrected; witness in
  the thorough run, 1 of 13 242 programs).
* multiset comparisons (order not promised) sort rows by value; two rows whose floats differ in the last bit were ordered
  differently on the two sides and then compared index-against-index (false alarm ``logical:elemwise+reduce:values``
  corrected: floats are rounded to 8 decimals before a multiset comparison; witness set_index('a') + (d*(c+c.sum()))**2).
* re-optimization groups are only run when the first pass agreed with pandas (they would inherit its failure).
"""
from __future__ import annotations

import itertools
import random
import warnings

PROP = "C43"
STAGES = ("logical", "simplified-logical", "tuned-logical", "physical", "simplified-physical", "fused")
ALL_STAGES = STAGES + ("compute", "reoptimized-fused", "reoptimized")
# within a group the first disagreement is reported (later stages inherit it); groups are independent
GROUPS = (STAGES + ("compute",), ("reoptimized-fused",), ("reoptimized",))

RULE = ("case = (program, frame seed, rows, index kind, partitioning). Programs are let-list DAGs over one base frame "
        "(columns a int, b str, c float+NaN, d float, e bool, u unique int): complete sub-space first (all 24 orders of "
        "{projection keeping a, filter on a, assign shadowing a from d and a, filter on the then-current a} x 3 "
        "partitionings), then 20 hand-written shared-sub-expression templates x frames x partitionings, then typed-random "
        "'chain' programs (2-6 frame steps in random order from proj/filter/assign(shadowing)/fillna/astype/rename/head/"
        "tail/set_index/sort_values/drop/dropna/frame-arithmetic/concat of two branches/axis-1 concat/merge of two "
        "branches, predicates with reductions inside) and 'dag' programs (steps branch from any earlier frame; terminals: "
        "frame, series arithmetic over several consumers of one column, filtered series, where, scalar reductions, frame "
        "reductions, groupby after projection). Each program is executed by pandas, by compute(), at each of the 6 "
        "optimize_until stages, and after re-optimizing. non-trivial = at least 2 operations and >= 2 partitions or a "
        "rewrite happened; distinct = distinct (program, partitioning kind, index kind)")
ASSUMPTIONS = [
    "pandas 3.0.5 on the concatenated frame defines the expected value (floats rtol 1e-9, atol 1e-8)",
    "dask.dataframe is imported through the pyarrow import stub (pandas-backed strings, convert-string=False); Arrow-string rewrites are not exercised",
    "dask.get (synchronous scheduler) executes a materialised graph faithfully (C01)",
    "the shrinker only names the mechanism; the verdict comes from the unshrunk program",
]
BUDGET = {"quick": 150, "thorough": 900}
CASE_TIMEOUT = 240
EXHAUSTIVE_SPACE = ("all 24 orderings of the 4 steps {x[['a','d']], x[x.a > 0], x.assign(a = x.d - x.a), x[x.a < 2]} x 3 "
                    "partitionings (1 partition; 3 partitions with known divisions; 4 row slices incl. an empty one with "
                    "unknown divisions), each checked at all 9 evaluation points")
LEVEL_NOTE = ("trusts pandas as reference and the sync scheduler; the optimizer, lowering, fusion and graph materialisation "
              "are the real code under test; Arrow-backed strings need the real pyarrow and are not exercised")
TECHNIQUE = ("runtime monitoring: stage-differential oracle — the real optimizer's output at every optimize_until stage is "
             "executed and compared with pandas; complete 24-order sub-space + typed random DAG programs; shrinker-derived labels")
CLAIM = ("Every generated program was optimized by the real optimizer and executed at each of its six stages, through "
         "compute(), and after a second optimization; all observed values equalled the pandas value and no optimizer "
         "exception (including non-convergence) occurred, except for the labels listed as findings. Held means: no "
         "counterexample among the programs observed (all 24 orders of the 4-step space completely; everything else sampled).")

FLOORS = {
    # ~45 % of the counts on the unchanged tree (quick: 883 evaluations, scaled from a measured 1177-case run; thorough measured: 13 242)
    "quick": {"evaluations": 400, "distinct_nontrivial": 380,
              "counters": {"stage_evaluations": 3500, "changed_by_simplify": 360, "fused_programs": 380,
                           "changed_by_lowering": 280, "changed_by_second_simplify": 70, "programs_with_shared_subexpr": 330,
                           "programs_agreeing_at_all_stages": 370, "exhaustive_orders": 72},
              "sets": {"expr_classes": 35}, "max_skipped_fraction": 0.2},
    "thorough": {"evaluations": 5900, "distinct_nontrivial": 5400,
                 "counters": {"stage_evaluations": 50000, "changed_by_simplify": 5400, "fused_programs": 5600,
                              "changed_by_lowering": 4200, "changed_by_second_simplify": 1000,
                              "programs_with_shared_subexpr": 4800, "programs_agreeing_at_all_stages": 5000,
                              "exhaustive_orders": 72},
                 "sets": {"expr_classes": 40}, "max_skipped_fraction": 0.2},
}

# All labels that fired on the tree this module was calibrated on have repository fixes
# (fixes_ready/C43_*.patch, or fixes that entered /repo meanwhile); they are listed under "fixed" in
# known_findings.d/C43.json.  Nothing is left pending.
PENDING = {}

PARTS_EXH = (
    {"how": "npartitions", "n": 1},
    {"how": "npartitions", "n": 3},
    {"how": "slices", "cuts": [4, 4, 9]},
)
INDEXES = ("range", "range", "sorted", "dups", "unsorted")


_TMP = None


def shard_setup(tier, seed):
    import tempfile

    import dask
    from vf.gen import frames

    frames.setup()
    warnings.simplefilter("ignore")
    # disk-based shuffles (sort_values / set_index / merge) leave *.partd directories behind: keep them in a
    # run-private directory that shard_finish removes
    global _TMP
    _TMP = tempfile.mkdtemp(prefix="vf-c43-")
    dask.config.set({"temporary-directory": _TMP})


def shard_finish():
    import shutil

    global _TMP
    if _TMP:
        shutil.rmtree(_TMP, ignore_errors=True)
    _TMP = None
    return {}


# --------------------------------------------------------------------------------------------
# case stream

def cases(tier, seed):
    from vf.gen import c43_programs as P
    from vf.gen.frames import rand_partition_desc

    rng = random.Random(seed * 104729 + 43)
    # ---- complete sub-space: 24 orders x 3 partitionings ------------------------------------
    for order in itertools.permutations(P.PERM_STEPS):
        for part in PARTS_EXH:
            yield {"space": "exhaustive", "family": "perm", "order": list(order), "prog": P.perm_program(order),
                   "ord": True, "idx": True, "fseed": 11, "nrows": 14, "index": "range", "part": part}
    # ---- named templates -------------------------------------------------------------------------
    T = P.templates()
    reps = 3 if tier == "quick" else 30
    for name, (prog, ordered) in T.items():
        for _ in range(reps):
            n = rng.randint(0, 30) if rng.random() < 0.9 else 0
            yield {"family": "template", "template": name, "prog": prog, "ord": ordered and "groupby" not in name,
                   "idx": "merge" not in name, "fseed": rng.randrange(10 ** 6), "nrows": n, "index": rng.choice(INDEXES),
                   "part": rand_partition_desc(rng, n)}
    # ---- the same 24 orders on random frames / partitionings (sampled) ------------------------
    k = 48 if tier == "quick" else 600
    for _ in range(k):
        order = list(P.PERM_STEPS)
        rng.shuffle(order)
        n = rng.randint(0, 30)
        yield {"family": "perm", "order": order, "prog": P.perm_program(order), "ord": True, "idx": True,
               "fseed": rng.randrange(10 ** 6), "nrows": n, "index": rng.choice(INDEXES), "part": rand_partition_desc(rng, n)}
    # ---- typed random programs ------------------------------------------------------------------
    k = 700 if tier == "quick" else 12000
    for j in range(k):
        fam = "chain" if j % 2 == 0 else "dag"
        prog, m = P.random_program(rng, fam)
        n = rng.randint(0, 30) if rng.random() < 0.93 else 0
        yield {"family": fam, "prog": prog, "ord": m["ord"], "idx": m["idx"], "fseed": rng.randrange(10 ** 6), "nrows": n,
               "index": rng.choice(INDEXES), "part": rand_partition_desc(rng, n)}


# --------------------------------------------------------------------------------------------
# evaluation

def _base(case):
    import numpy as np
    from vf.gen import frames

    pdf = frames.rand_frame(case["fseed"], nrows=case["nrows"], index=case["index"], cols="basic")
    r = np.random.default_rng(case["fseed"] + 1)
    pdf["u"] = r.permutation(len(pdf)).astype("int64")
    # columns are correlated (d follows a, c follows u) so that a filter on one column visibly moves the mean/max of
    # another one: a reduction evaluated over the wrong (unfiltered) rows then selects different rows
    pdf["d"] = (pdf["a"] * 2 - 3 + r.integers(-1, 2, len(pdf))).astype("float64")
    if len(pdf):
        c = pdf["c"].to_numpy().copy()
        c = np.round(c * 0.5 + (pdf["u"].to_numpy() - len(pdf) / 2) / max(1, len(pdf)) * 4, 2)
        pdf["c"] = c
    return pdf


class _Unsupported(Exception):
    pass


def _stage_expr(expr, stage):
    """The real optimizer's output for `stage` (None for "compute", which goes through the collection)."""
    from dask._expr import optimize_until

    if stage == "compute":
        return None
    if stage in ("reoptimized-fused", "reoptimized"):
        fuse = stage == "reoptimized-fused"
        return expr.optimize(fuse=fuse).optimize(fuse=fuse)
    return optimize_until(expr, stage)


def _execute(e, coll):
    """Materialise the graph of stage expression e and run it with the synchronous scheduler."""
    import dask
    from dask.dataframe.dask_expr._collection import new_collection

    if e is None:
        return coll.compute(scheduler="sync")
    low = e.lower_completely()
    graph = low.__dask_graph__()
    keys = low.__dask_keys__()
    res = dask.get(graph, keys)
    fin, args = new_collection(low).__dask_postcompute__()
    return fin(res, *args)


def _fused_stale(e):
    """Structural invariant of Fused nodes: every expression a fused group reads is either inside the group or one
    of the group's declared operands.  Returns a description of the first stale reference or None."""
    try:
        todo = [f for f in e.walk() if type(f).__name__ == "Fused"]
        seen = set()
        while todo:
            f = todo.pop()
            if f._name in seen:
                continue
            seen.add(f._name)
            known = {x._name for x in f.exprs} | {d._name for d in f.dependencies()}
            for x in f.exprs:
                if type(x).__name__ == "Fused":
                    todo.append(x)    # a group fused again by the second pass
                for d in x.dependencies():
                    if d._name not in known:
                        return "fused group %s reads %s which is neither in the group nor among its operands" % (f._name, d._name)
    except Exception:  # noqa: BLE001
        return None
    return None


def _check(prog, pdf, part, ordered, idx_ok, stages, observe=None):
    """Run prog on pandas and on dask at `stages`.
    Returns ("reject", msg) | ("ok", None) | ("unsupported", msg) | ("env", msg) |
            ("bad", stage, symptom, message, exc_or_None)."""
    from vf.core.ctx import exc_label, through_shim
    from vf.gen import c43_programs as P
    from vf.gen import frames

    with warnings.catch_warnings():
        warnings.simplefilter("ignore")
        dec = {}
        try:
            ddf = frames.partition(pdf, part)
            coll = P.evaluate(prog, ddf, "dd", dec)
        except NotImplementedError as e:
            return ("unsupported", "%s" % e)
        except Exception as e:  # noqa: BLE001  building the expression (meta computation) failed
            # decide whether pandas accepts the program at all
            try:
                P.evaluate(prog, pdf, "pd", dec)
            except Exception as e2:  # noqa: BLE001
                return ("reject", "pandas: %s: %s" % (type(e2).__name__, e2))
            if through_shim(e):
                return ("env", "%s: %s" % (type(e).__name__, e))
            return ("bad", [("build", exc_label(e), "%s: %s" % (type(e).__name__, e), e, None)])
        try:
            expected = P.evaluate(prog, pdf, "pd", dec)
        except Exception as e:  # noqa: BLE001
            return ("reject", "pandas: %s: %s" % (type(e).__name__, e))
        if not hasattr(coll, "expr"):
            return ("reject", "program does not produce a dask collection")
        expr = coll.expr
        if observe is not None:
            observe("expr", expr)
        groups = stages if stages and isinstance(stages[0], (tuple, list)) else (tuple(stages),)
        fails = []
        for gi, grp in enumerate(groups):
            if gi and fails:
                break   # re-optimization inherits whatever the first pass got wrong
            for st in grp:
                e = None
                try:
                    e = _stage_expr(expr, st)
                    if observe is not None:
                        observe(st, e)
                    val = _execute(e, coll)
                except NotImplementedError as ex:
                    return ("unsupported", "%s: %s" % (st, ex))
                except Exception as ex:  # noqa: BLE001
                    if through_shim(ex):
                        return ("env", "%s: %s" % (type(ex).__name__, ex))
                    fails.append((st, exc_label(ex), "%s: %s" % (type(ex).__name__, ex), ex, _fused_stale(e) if e is not None else None))
                    break
                try:
                    m = _cmp(val, expected, ordered, idx_ok)
                    if m is not None and m[0] == "index" and _same_index(val, expected, ordered):
                        m = ("values", m[1])   # frames._classify reads "[index]:" in a VALUES message as an index mismatch
                except Exception as ex:  # noqa: BLE001  comparison itself failed: treat as a mismatch with the reason
                    m = ("uncomparable", "%s: %s" % (type(ex).__name__, ex))
                if m is not None and _aligned_by_index_shuffle(ddf, val, expected):
                    # Calibration (after dask repair e783733): an elementwise operation between two collections whose
                    # co-alignment dask cannot prove and whose divisions are unknown is aligned by a shuffle on the index,
                    # which promises the right rows per index label but no row order.  With a unique index the result is
                    # therefore judged after sorting both sides by index.
                    import pandas as pd

                    try:
                        if expected.index.is_unique:
                            m = _cmp(val.sort_index(), expected.sort_index(), ordered, idx_ok)
                        else:
                            # duplicated labels: rows are compared as a multiset of (label, values)
                            def _canon(x):
                                f = x.to_frame(name="__v") if isinstance(x, pd.Series) else x
                                f = f.reset_index()
                                f.columns = [str(c) for c in f.columns]
                                return f.sort_values(list(f.columns), kind="stable", key=lambda c: c.astype(str)).reset_index(drop=True)
                            m = _cmp(_canon(val), _canon(expected), True, idx_ok)
                    except Exception as ex:  # noqa: BLE001
                        m = ("uncomparable", "%s: %s" % (type(ex).__name__, ex))
                    if observe is not None:
                        observe("index_shuffle_aligned", True)
                if m is not None and _label_alignment_on_duplicate_labels(prog, coll, val, expected):
                    # Calibration (after dask repair e783733): operands that dask cannot prove co-aligned and whose divisions
                    # are unknown are aligned BY LABEL through an index shuffle.  pandas aligns by label too, except that it
                    # short-cuts to positional pairing when the two indexes are the identical object / equal - which dask
                    # cannot see.  With duplicated labels the two notions differ (label alignment multiplies the rows of a
                    # label), so such programs are outside what the statement can demand of the optimizer.
                    return ("reject", "label alignment of operands with duplicated row labels that are not provably co-aligned")
                if m is not None and not idx_ok and _aligns_on_labels_after_merge(prog):
                    # Calibration (after dask repair e783733): the row labels of a dask merge result are partition-local
                    # (documented divergence from pandas; the generator marks them "not comparable").  An elementwise
                    # operation that has to ALIGN two collections derived from such a result aligns on those labels, so
                    # its outcome is not defined by pandas' labels: outside the domain.
                    return ("reject", "label alignment on the partition-local row labels of a merge result")
                if m is not None and _float_tie(prog, pdf, dec, val, ordered, idx_ok):
                    # a value sits exactly on a threshold computed by a float reduction (x >= x.mean()): pandas and dask
                    # sum in different orders, the last bit decides the row.  Float reassociation, not a disagreement.
                    if observe is not None:
                        observe("float_tie", True)
                    return ("reject", "float tie: a value equals a reduction-valued threshold up to rounding")
                if m is not None:
                    fails.append((st, m[0], "%s | got %s | expected %s" % (m[1], _show(val), _show(expected)), None,
                                  _fused_stale(e) if e is not None else None))
                    break
        if fails:
            return ("bad", fails)
        return ("ok", None)


def _label_alignment_on_duplicate_labels(prog, coll, val, expected):
    """The un-optimized expression already contains an alignment shuffle that no program operation asks for, and row labels
    are duplicated in the expected or the computed result."""
    import pandas as pd

    from vf.gen import c43_programs as P

    try:
        if not isinstance(expected, (pd.Series, pd.DataFrame)):
            return False
        dup = (not expected.index.is_unique) or (isinstance(val, (pd.Series, pd.DataFrame)) and not val.index.is_unique)
        if not dup:
            return False
        for e in coll.expr.walk():
            if "Align" not in type(e).__name__:
                continue
            for dep in e.dependencies():
                try:
                    if getattr(dep, "ndim", 0) >= 1 and not dep.known_divisions:
                        return True         # an alignment node over an operand with unknown divisions: aligned by label
                except Exception:  # noqa: BLE001
                    continue
        return False
    except Exception:  # noqa: BLE001
        return False


def _aligns_on_labels_after_merge(prog):
    """A live multi-operand elementwise / concat(axis=1) node with a merge among its ancestors."""
    from vf.gen import c43_programs as P

    nodes = prog["nodes"]
    lv = set(P.live(prog))

    def ancestors(i, seen):
        for r in P.refs(nodes[i]):
            if r not in seen:
                seen.add(r)
                ancestors(r, seen)
        return seen

    for i in lv:
        op = nodes[i][0]
        if op in ("sbin", "cbin", "fbin", "where", "concat1", "sfilt", "filt", "assign"):
            rs = [r for r in P.refs(nodes[i])]
            if len(set(rs)) >= 2 and any(nodes[a][0] == "merge" for a in ancestors(i, set())):
                return True
    return False


def _aligned_by_index_shuffle(ddf, val, expected):
    """True when the base frame has unknown divisions and both results are pandas objects over the same unique index labels
    in a different order (the only freedom an index-shuffle alignment has); duplicated labels are allowed."""
    import pandas as pd

    try:
        if ddf.known_divisions:
            return False
        if not isinstance(val, (pd.Series, pd.DataFrame)) or type(val) is not type(expected):
            return False
        a, b = val.index, expected.index
        if len(a) != len(b):
            return False
        return (not a.equals(b) or not b.is_unique) and a.sort_values().equals(b.sort_values())
    except Exception:  # noqa: BLE001
        return False


def _roundf(x):
    import pandas as pd

    try:
        if isinstance(x, pd.Series) and x.dtype.kind == "f":
            return x.round(8)
        if isinstance(x, pd.DataFrame):
            fl = [c for c in x.columns if getattr(x[c].dtype, "kind", "") == "f"]
            if fl and x.columns.is_unique:
                x = x.copy()
                x[fl] = x[fl].round(8)
    except Exception:  # noqa: BLE001
        pass
    return x


def _cmp(val, expected, ordered, idx_ok):
    """frames.compare; for multiset comparisons floats are rounded to 8 decimals first, because the row sort inside the
    multiset comparison would otherwise order two rows that differ in the last bit differently on the two sides."""
    from vf.gen import frames

    if not ordered:
        val, expected = _roundf(val), _roundf(expected)
    return frames.compare(val, expected, ordered=ordered, check_index=idx_ok, rtol=1e-9)


def _float_tie(prog, pdf, dec, val, ordered, idx_ok):
    """True when the dask value equals the pandas value of the SAME program with every reduction-valued comparison
    threshold moved by +-1e-9 (relative)."""
    from vf.gen import c43_programs as P
    from vf.gen import frames

    if not any(nd[0] == "sbin" and nd[1] in ("gt", "lt", "ge", "le", "eq", "ne") and
               any("n" in o and prog["nodes"][o["n"]][0] in ("red", "cbin") for o in nd[2:4]) for nd in prog["nodes"]):
        return False
    for eps in (1e-9, -1e-9):
        try:
            alt = P.evaluate(prog, pdf, "pd", dict(dec), nudge=eps)
            if _cmp(val, alt, ordered, idx_ok) is None:
                return True
        except Exception:  # noqa: BLE001
            continue
    return False


def _same_index(a, b, ordered=True):
    try:
        if len(a.index) != len(b.index):
            return False
        if ordered:
            return bool((a.index == b.index).all())
        return sorted(map(repr, a.index)) == sorted(map(repr, b.index))
    except Exception:  # noqa: BLE001
        return False


def _show(v):
    try:
        import pandas as pd

        if isinstance(v, (pd.DataFrame, pd.Series)):
            return v.head(8).to_string().replace("\n", " / ")[:300]
    except Exception:  # noqa: BLE001
        pass
    return repr(v)[:200]


def _shrink(prog, pdf, part, ordered, idx_ok, stage, symptom, limit=150):
    """Smallest program found that still shows `symptom` at `stage` (order/index flags kept: they can only
    make the comparison weaker for sub-programs produced by bypassing, never stronger)."""
    from vf.gen import c43_programs as P

    cur = prog
    budget = limit
    stages = (stage,) if stage != "build" else ()
    progress = True
    while progress and budget > 0:
        progress = False
        for cand in P.shrink_candidates(cur):
            if budget <= 0:
                break
            if len(P.live(cand)) >= len(P.live(cur)):
                continue
            budget -= 1
            try:
                r = _check(cand, pdf, part, ordered, idx_ok, stages)
            except Exception:  # noqa: BLE001
                continue
            if r[0] == "bad" and r[1][0][0] == stage and r[1][0][1] == symptom:
                cur = cand
                progress = True
                break
    return cur


def run_case(case, ctx):
    from vf.gen import c43_programs as P
    from vf.gen import frames

    frames.setup()
    prog = case["prog"]
    try:
        pdf = _base(case)
    except Exception as e:  # noqa: BLE001
        ctx.reject("frame generator: %s" % e)
        return
    part = case["part"]
    seen = {}

    def observe(stage, e):
        seen[stage] = e

    r = _check(prog, pdf, part, case["ord"], case["idx"], GROUPS, observe)
    feats = P.features(prog)
    nlive = len(P.live(prog))
    ctx.sig = (P.text(prog), part.get("how"), case["index"], case["nrows"] == 0)
    for f in feats:
        ctx.op(f)
    ctx.op("family:" + case["family"])
    ctx.op("partitioning:" + part.get("how", "?") + (":cleared" if part.get("clear") else ""))

    # ---- evidence: what the optimizer did to this program --------------------------------------
    changed = fusedn = 0
    lowered_changed = 0
    try:
        e0 = seen.get("expr")
        if e0 is not None:
            for e in seen.values():
                if e is None or not hasattr(e, "walk"):
                    continue
                for n in e.walk():
                    ctx.distinct("expr_classes", type(n).__name__)
            sl = seen.get("simplified-logical")
            if sl is not None and sl._name != e0._name:
                changed = 1
                ctx.count("changed_by_simplify")
            ph, sp = seen.get("physical"), seen.get("simplified-physical")
            tl = seen.get("tuned-logical")
            if ph is not None and tl is not None and ph._name != tl._name:
                lowered_changed = 1
                ctx.count("changed_by_lowering")
            if ph is not None and sp is not None and ph._name != sp._name:
                ctx.count("changed_by_second_simplify")
            if tl is not None and sl is not None and tl._name != sl._name:
                ctx.count("changed_by_tune")
            fu = seen.get("fused")
            if fu is not None:
                fusedn = sum(1 for n in fu.walk() if type(n).__name__ == "Fused")
                if fusedn:
                    ctx.count("fused_programs")
                    ctx.count("fused_nodes", fusedn)
            ctx.count("stage_evaluations", sum(1 for s in ALL_STAGES if s in seen or s == "compute"))
    except Exception as ex:  # noqa: BLE001  evidence only
        ctx.count("evidence_errors")
        ctx.sample = {"evidence_error": repr(ex)[:200]}
    if "shared" in feats:
        ctx.count("programs_with_shared_subexpr")
    if case.get("space") == "exhaustive":
        ctx.count("exhaustive_orders")

    npart = None
    try:
        npart = frames.partition(pdf, part).npartitions
    except Exception:  # noqa: BLE001
        pass
    ctx.nontrivial = nlive >= 3 and ((npart or 1) >= 2 or changed or fusedn or lowered_changed)

    if r[0] == "reject":
        if seen.get("float_tie"):
            ctx.count("float_ties")
        ctx.reject(r[1])
        return
    if r[0] == "unsupported":
        ctx.unsupported(r[1])
        return
    if r[0] == "env":
        ctx.envlimited(r[1])
        return
    if r[0] == "ok":
        ctx.count("programs_agreeing_at_all_stages")
        ctx.sample = {"program": P.text(prog), "partitioning": part, "rows": len(pdf), "simplify_changed": bool(changed),
                      "fused_nodes": fusedn, "stages_checked": len(ALL_STAGES)}
        return
    # ---- disagreement(s): shrink to name the mechanism ------------------------------------------
    for stage, symptom, message, exc, stale in r[1]:
        if stale:
            small = prog
            label = "%s:fused-group-reads-rewritten-dependency:%s" % (stage, symptom)
            message = stale + " | " + message
        else:
            try:
                small = _shrink(prog, pdf, part, case["ord"], case["idx"], stage, symptom)
            except Exception:  # noqa: BLE001
                small = prog
            label = _label(stage, symptom, message, small)
        detail = {"program": P.text(prog), "shrunk_program": P.text(small), "partitioning": part, "rows": len(pdf),
                  "index": case["index"], "frame_seed": case["fseed"]}
        if exc is not None:
            import traceback

            detail["traceback"] = "".join(traceback.format_exception(type(exc), exc, exc.__traceback__))[-2500:]
        ctx.violation(label, "%s at stage %s: %s" % (symptom, stage, message), **detail)


def _label(stage, symptom, message, small):
    """Mechanism label.  Known mechanisms are recognised by what the symptom itself says (sound: each rule's text
    explains why the symptom can only arise that way); everything else is named by the coarse op kinds of the
    shrunk program."""
    from vf.gen import c43_programs as P

    if symptom.startswith("AttributeError@") and ("has no attribute 'head'" in message or "has no attribute 'tail'" in message):
        # .head/.tail was called on a scalar: Head/Tail pushed into the scalar (reduction) operand of an elementwise op
        return "%s:head-or-tail-pushed-into-scalar-operand-of-elemwise:%s" % (stage, symptom)
    if symptom == "IndexError@dataframe/dask_expr/_concat.py:_meta":
        # Concat left without any frame: a projection that selects none of the frames' columns (only assigned ones)
        return "%s:concat-projected-to-zero-columns:%s" % (stage, symptom)
    if symptom.endswith("@dataframe/dask_expr/_reductions.py:_nfirst") or symptom.endswith("@dataframe/dask_expr/_reductions.py:_nlast"):
        # sort_values(k).head/tail(n) became NFirst/NLast and a later projection was pushed below it without keeping k
        # (KeyError) or turning the frame into a Series (TypeError: Series.sort_values(by=))
        return "%s:projection-pushed-below-sort-head:%s" % (stage, symptom)
    nodes = small["nodes"]
    lv = P.live(small)
    if not symptom.count("@") and any(nodes[i][0] in ("head", "head1") and nodes[nodes[i][1]][0] in ("head", "head1") for i in lv):
        # Head(Head(x, n1, p1), n2, p2) is merged into Head(x, min(n1, n2), p2): the outer head's npartitions.  The shrinker
        # kept both heads, i.e. bypassing either one makes the disagreement disappear.
        return "%s:head-of-head-uses-outer-npartitions:%s" % (stage, symptom)
    if stage != "logical" and not symptom.count("@") and any(nodes[i][0] == "fillna" and isinstance(nodes[i][2], dict) for i in lv):
        # the frame-level fillna({col: v}) survived shrinking (bypassing it removes the disagreement): a column projection
        # pushed through Fillna turns the per-column mapping into Series.fillna(dict), which fills nothing
        return "%s:projection-through-fillna-dict:%s" % (stage, symptom)
    if stage != "logical" and not symptom.count("@") and _concat_of_different_columns(small):
        # Projection(Concat(axis=0)) drops every input frame that lacks the selected columns, and with it its rows
        return "%s:projection-through-concat-of-frames-with-different-columns:%s" % (stage, symptom)
    return "%s:%s:%s" % (stage, "+".join(P.label_features(small)) or "none", symptom)


def _concat_of_different_columns(prog):
    """Input-feature predicate on the (shrunk) program: some row-wise concat joins frames whose column SETS differ.
    Decided by typing the program with pandas on a tiny frame."""
    from vf.gen import c43_programs as P

    try:
        pdf = _base({"fseed": 1, "nrows": 4, "index": "range"})
        for i in P.live(prog):
            nd = prog["nodes"][i]
            if nd[0] == "concat0":
                a = P.evaluate({"nodes": prog["nodes"], "out": nd[1]}, pdf, "pd", {})
                b = P.evaluate({"nodes": prog["nodes"], "out": nd[2]}, pdf, "pd", {})
                if set(a.columns) != set(b.columns):
                    return True
    except Exception:  # noqa: BLE001
        return False
    return False
