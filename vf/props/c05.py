"""C05 — scheduler callbacks fire in protocol order and contexts nest like a stack.

Monitor: histories of enter/exit (Callback `with`, add_callbacks, Callback
subclasses), register/unregister and scheduler calls are executed against the
real dask.callbacks / dask.local; every scheduler call runs on the controlled
executor with a seeded completion order.  An activation model (a callback is
active iff registered, or inside >= 1 un-exited context) predicts which
callbacks must fire in each call; the recorded callback events are checked for
the per-call protocol (start once before any task, pretask exactly once before
posttask exactly once per executed task, finish once at the end even on
failure).

Histories are generated only where the statement is unambiguous:
  * contexts are exited LIFO;
  * unregister(cb) only when cb is registered and not inside any context;
  * register(cb) only when cb is not inside a context ("an EARLIER register()").
"""
from __future__ import annotations

import itertools
import random

from ..gen import graphs as G
from ..mon import sched as S

PROP = "C05"
RULE = ("cases = operation histories over 2-3 callback objects: enter(cb, style in {with-Callback, add_callbacks(tuple), "
        "add_callbacks(Callback), Callback subclass}), exit (LIFO), register, unregister, get(ok graph | failing graph). "
        "Complete part: all valid histories of length <= 4 (quick) / <= 5 (thorough) over 2 callbacks and 2 enter styles; "
        "sampled part: random valid histories of length <= 8 over 3 callbacks and all styles. non-trivial = history has a "
        "scheduler call while >= 1 context is open or a callback is registered; distinct = distinct histories.")
ASSUMPTIONS = ["single-threaded histories (concurrent scheduler calls swapping Callback.active are outside the statement)",
               "activation model: active iff registered or inside >=1 un-exited context"]
BUDGET = {"quick": 40, "thorough": 500}
FLOORS = {"quick": {"evaluations": 6000, "distinct_nontrivial": 3000,
                    "counters": {"scheduler_calls": 8000, "calls_with_nested_same_callback": 300,
                                 "calls_with_registered_and_context": 300, "failing_calls": 2000,
                                 "calls_with_raising_callback": 2000, "raising_hook_start": 700, "raising_hook_posttask": 300}},
          "thorough": {"evaluations": 80000, "distinct_nontrivial": 50000,
                       "counters": {"scheduler_calls": 100000, "failing_calls": 30000}}}
EXHAUSTIVE_SPACE = {"quick": "all valid histories of length <= 4 over ops {enter x 2 callbacks x 2 styles, exit, register x 2, "
                             "unregister x 2, get ok, get failing}",
                    "thorough": "all valid histories of length <= 5 over the same operations"}
CLAIM = ("For every executed history the callbacks that fired in each scheduler call were exactly those the activation "
         "model says are active, each in protocol order, and Callback.active returned to its initial value after the "
         "history was unwound. Held = no counterexample among the histories executed.")
LEVEL_NOTE = "model restricted to histories where the statement is unambiguous (see module docstring)"
TECHNIQUE = "runtime monitoring: callback event history vs activation model, complete bounded histories + random longer ones"

STYLES2 = ("with", "add_tuple")
STYLES_ALL = ("with", "add_tuple", "add_cb", "subclass")


def _valid_next(state, ncb, styles):
    """state = (stack tuple of cb ids, registered frozenset). Yields ops."""
    stack, reg = state
    for i in range(ncb):
        for st in styles:
            yield ("enter", i, st)
    if stack:
        yield ("exit",)
    for i in range(ncb):
        if i not in reg and i not in stack:
            yield ("reg", i)
        if i in reg and i not in stack:
            yield ("unreg", i)
    yield ("get", "ok")
    yield ("get", "fail")
    if stack or reg:
        yield ("get", "cbfail")


def _step(state, op):
    stack, reg = state
    if op[0] == "enter":
        return (stack + (op[1],), reg)
    if op[0] == "exit":
        return (stack[:-1], reg)
    if op[0] == "reg":
        return (stack, reg | {op[1]})
    if op[0] == "unreg":
        return (stack, reg - {op[1]})
    return state


def _enum(maxlen, ncb, styles):
    def rec(hist, state):
        if hist:
            yield hist
        if len(hist) == maxlen:
            return
        for op in _valid_next(state, ncb, styles):
            yield from rec(hist + [op], _step(state, op))
    yield from rec([], ((), frozenset()))


def cases(tier, seed):
    rng = random.Random(seed * 31337 + 5)
    maxlen = 4 if tier == "quick" else 5
    for h in _enum(maxlen, 2, STYLES2):
        if len(h) == maxlen or h[-1][0] == "get":
            yield {"space": "exhaustive", "h": [list(o) for o in h], "seed": len(h)}
    n = 6000 if tier == "quick" else 60000
    for _ in range(n):
        ln = rng.randint(3, 8)
        state = ((), frozenset())
        h = []
        for _i in range(ln):
            ops = list(_valid_next(state, 3, STYLES_ALL))
            # bias towards nesting and gets
            w = [3 if o[0] == "enter" else (3 if o[0] == "get" else 1) for o in ops]
            op = rng.choices(ops, w)[0]
            h.append(op)
            state = _step(state, op)
        if h[-1][0] != "get":
            h.append(("get", rng.choice(("ok", "fail", "cbfail") if (state[0] or state[1]) else ("ok", "fail"))))
        yield {"h": [list(o) for o in h], "seed": rng.randrange(2 ** 31)}


def _make_callbacks(ncb):
    from dask.callbacks import Callback

    objs = []
    for i in range(ncb):
        tup = S.recorder("cb%d" % i)
        cb = Callback(*tup)

        class Sub(Callback):
            pass
        for name, f in zip(("_start", "_start_state", "_pretask", "_posttask", "_finish"), S.recorder("sub%d" % i)):
            # subclass style: methods defined on the class (bound methods in ._callback)
            setattr(Sub, name, (lambda f: (lambda self, *a: f(*a)))(f))
        objs.append({"tuple": tup, "cb": cb, "sub": Sub()})
    return objs


def run_case(case, ctx):
    import dask.callbacks as C

    hist = [tuple(o) for o in case["h"]]
    ncb = 3
    objs = _make_callbacks(ncb)
    initial = set(C.Callback.active)
    prog_ok = G.small_program(3, 0b011, ["call", "call", "call"])
    prog_fail = G.small_program(3, 0b011, ["call", "call", "call"], fail=[(1, "ValueError")])
    dsk_ok, dsk_fail = prog_ok.legacy(), prog_fail.legacy()
    rng = random.Random(case["seed"])
    stack = []          # [(cb id, context manager object)]
    registered = {}     # cb id -> object whose register() was called
    feats = set()
    ngets = 0
    trivial = True

    def out(symptom, msg, pos):
        f = "&".join(sorted(feats)) or "plain"
        if len(ctx.violations) < 4:
            ctx.violation("%s:%s" % (f, symptom), msg, history=case["h"], at=pos)

    try:
        for pos, op in enumerate(hist):
            if op[0] == "enter":
                i, style = op[1], op[2]
                if _ident(i, style) in [_ident(s[0], s[2]) for s in stack]:
                    feats.add("same-callback-re-entered")
                if i in registered and style != "subclass":
                    feats.add("registered-callback-entered")
                if style == "with":
                    cm = objs[i]["cb"]
                    cm.__enter__()
                elif style == "subclass":
                    cm = objs[i]["sub"]
                    cm.__enter__()
                elif style == "add_cb":
                    cm = C.add_callbacks(objs[i]["cb"])
                    cm.__enter__()
                else:
                    cm = C.add_callbacks(objs[i]["tuple"])
                    cm.__enter__()
                stack.append((i, cm, style))
                ctx.op("enter:" + style)
            elif op[0] == "exit":
                i, cm, style = stack.pop()
                cm.__exit__(None, None, None)
                ctx.op("exit")
            elif op[0] == "reg":
                objs[op[1]]["cb"].register()
                registered[op[1]] = objs[op[1]]["cb"]
                ctx.op("register")
            elif op[0] == "unreg":
                registered.pop(op[1]).unregister()
                ctx.op("unregister")
            else:
                ngets += 1
                failing = op[1] == "fail"
                active = {_ident(s[0], s[2]) for s in stack} | {"cb%d" % i for i in registered}
                if active:
                    trivial = False
                depth = {}
                for s in stack:
                    depth[_ident(s[0], s[2])] = depth.get(_ident(s[0], s[2]), 0) + 1
                if any(v > 1 for v in depth.values()):
                    ctx.count("calls_with_nested_same_callback")
                if set(registered) and stack:
                    ctx.count("calls_with_registered_and_context")
                ctx.count("scheduler_calls")
                if op[1] == "cbfail" and active:
                    _cbfail_call(ctx, S, C, dsk_ok, sorted(active), rng, out, pos, feats)
                    continue
                if failing:
                    ctx.count("failing_calls")
                obs = S.run_controlled(dsk_fail if failing else dsk_ok, ["k2", "k1"], num_workers=2, chunksize=1,
                                       policy="random", rng=random.Random(rng.randrange(2 ** 31)), callbacks="global",
                                       trace_cache=False)
                if failing and not isinstance(obs.exc, ValueError):
                    out("failing-call-did-not-raise", "exc=%r" % (obs.exc,), pos)
                if not failing and obs.exc is not None:
                    out("ok-call-raised", "exc=%r" % (obs.exc,), pos)
                fired = {ev[2] for ev in obs.events if ev[1].startswith("cb_")}
                expect = set(active)
                if fired != expect:
                    miss, extra = sorted(expect - fired), sorted(fired - expect)
                    if miss:
                        out("active-callback-did-not-fire", "active per model %s, fired %s" % (sorted(expect), sorted(fired)), pos)
                    if extra:
                        out("inactive-callback-fired", "active per model %s, fired %s" % (sorted(expect), sorted(fired)), pos)

                def pout(symptom, msg, pos=pos):
                    out("protocol:" + symptom, msg, pos)
                S.check_callbacks(obs, pout, tags=sorted(fired & expect))
                if failing:
                    for ev in obs.events:
                        if ev[1] == "cb_finish" and ev[3] is not True:
                            out("protocol:finish-flag-not-set-on-failure", "tag %s failed=%r" % (ev[2], ev[3]), pos)
                # the scheduler must leave the global registry as it found it
                now = set(C.Callback.active)
                exp_now = set()
                for s in stack:
                    exp_now.add(_cbtuple(objs, s[0], s[2]))
                for i in registered:
                    exp_now.add(objs[i]["cb"]._callback)
                if now != exp_now:
                    out("registry-differs-from-model-after-call", "Callback.active has %d entries, model %d" % (len(now), len(exp_now)), pos)
    finally:
        # unwind so that the next case starts clean (and check restoration)
        while stack:
            i, cm, style = stack.pop()
            try:
                cm.__exit__(None, None, None)
            except Exception:  # noqa: BLE001
                pass
        for i in list(registered):
            try:
                registered.pop(i).unregister()
            except Exception:  # noqa: BLE001
                pass
        leftover = set(C.Callback.active) - initial
        C.Callback.active = set(initial)
    if leftover:
        out("callbacks-left-active-after-unwinding", "%d callback tuples still active" % len(leftover), len(hist))
    ctx.nontrivial = not trivial
    ctx.sig = case["h"]
    ctx.sample = {"history": case["h"], "scheduler_calls": ngets}


def _cbfail_call(ctx, S, C, dsk_ok, active, rng, out, pos, feats):
    """A scheduler call during which one hook of one active callback raises: the call fails with that exception, and
    every callback whose start completed gets exactly one finish, with the failure flag set ("even on failure")."""
    tag = rng.choice(active)
    hook = rng.choice(("start", "start", "start_state", "pretask", "posttask"))
    before = set(C.Callback.active)
    S.FAULT.update(tag=tag, hook=hook)
    try:
        obs = S.run_controlled(dsk_ok, ["k2", "k1"], num_workers=2, chunksize=1, policy="random",
                               rng=random.Random(rng.randrange(2 ** 31)), callbacks="global", trace_cache=False)
    finally:
        S.FAULT.update(tag=None, hook=None)
    ctx.count("calls_with_raising_callback")
    ctx.count("raising_hook_" + hook)
    f = "callback-%s-raises" % hook
    if len(active) > 1:
        f += "&several-active"
    raised = [ev for ev in obs.events if ev[1] == "cb_raise"]
    if not raised:
        out(f + ":hook-never-called", "the %s hook of %s was never called; events %s" % (hook, tag, [e[1:3] for e in obs.events][:12]), pos)
        return
    if not isinstance(obs.exc, S.CallbackBoom):
        out(f + ":exception-not-surfaced", "scheduler call ended with %r" % (obs.exc,), pos)
    started = [ev[2] for ev in obs.events if ev[1] == "cb_started"]
    for t in active:
        nfin = [ev for ev in obs.events if ev[1] == "cb_finish" and ev[2] == t]
        want = 1 if t in started else 0
        if t == tag and hook == "start":
            want = 0            # its start did not complete; nothing is demanded either way
            if len(nfin) > 1:
                out(f + ":finish-count", "%s: finish fired %d times" % (t, len(nfin)), pos)
            continue
        if len(nfin) != want:
            out(f + ":finish-count", "%s (start completed: %s): finish fired %d times, expected %d; started=%s raising=%s"
                % (t, t in started, len(nfin), want, started, tag), pos)
        for ev in nfin:
            if ev[3] is not True:
                out(f + ":finish-flag-not-set-on-failure", "tag %s failed=%r" % (t, ev[3]), pos)
        if started.count(t) > 1:
            out(f + ":start-count", "%s: start fired %d times" % (t, started.count(t)), pos)
    if hook in ("start", "start_state") and any(ev[1] in ("cb_pre", "cb_post") for ev in obs.events):
        out(f + ":task-ran-after-callback-failure", "tasks were started although %s raised" % hook, pos)
    if set(C.Callback.active) != before:
        out(f + ":registry-changed-by-call", "Callback.active has %d entries, before %d" % (len(C.Callback.active), len(before)), pos)


def _ident(i, style):
    """Identity of the callback object a style activates: the Callback object and its tuple are the same
    registry entry; the subclass instance is a different callback."""
    return ("sub%d" if style == "subclass" else "cb%d") % i


def _cbtuple(objs, i, style):
    if style == "with" or style == "add_cb":
        return objs[i]["cb"]._callback
    if style == "subclass":
        return objs[i]["sub"]._callback
    return objs[i]["tuple"]
