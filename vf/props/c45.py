"""C45 — division planning never splits equal index values.

Facet 1 (contract monitor on the real function): every call of
``dask.dataframe.io.io.sorted_division_locations`` made on a generated sorted
sequence is checked against the four rules of the statement, evaluated by the
harness on its own Python list of the same values:

* locations strictly increase from 0 to ``len(seq)``;
* each division equals the value at its location (the last division equals
  the last value);
* equal values never straddle a boundary (``seq[l-1] != seq[l]`` for every
  internal location ``l``);
* with ``npartitions=k`` and at least k distinct values exactly k partitions
  come back.

Facet 2: quantile-based divisions.  ``dd.from_pandas(df, k).set_index(col)``
without given divisions, and ``Series._repartition_quantiles`` (the
``RepartitionQuantiles`` expression, i.e. percentiles_summary ->
merge_and_compress_summaries -> process_val_weights) directly, on random
columns; the returned divisions must be non-decreasing, first <= min(data) and
last >= max(data) (min/max computed by pandas on the source column).

Facet 3 (parameter audit): the planner as ``from_pandas`` applies it.  ``dd.from_pandas(frame, npartitions=k |
chunksize=c, sort=True|False)`` on an index of the generated values (int, RangeIndex, float, str, datetime, tz-aware
datetime, timedelta, bool, uint8, nullable Int64, ordered categorical; with duplicates; sorted, shuffled or reversed;
DataFrame or Series).  Read off the published divisions and the partitions of the graph: every partition holds rows and
all rows are there in index order (locations strictly increase from 0 to len), ``divisions[i]`` is the first index value
of partition i and the last division the last value, no index value ends one partition and starts the next, and with
``npartitions=k`` and at least k distinct index values exactly k partitions come back.  ``sort=False`` on an unsorted
index: all divisions are None as documented (nothing else is demanded); ``sort=False`` on a monotonic index: checked like
``sort=True`` when divisions are published (the implementation plans them), not demanded when they are None.

Parameter audit, other additions: sdl value types bool / timedelta / uint8 / nullable Int64 / tz-aware timestamps /
ordered categorical, multiplicity shapes "singletons in front, one long run at the end" and its mirror image; quantile
columns bool, nullable Int64 (no NA), ordered categorical whose category order differs from the lexical one (divisions
are compared in category order), uint8, int8, float32, timedelta, tz-aware timestamps east and west of UTC,
datetime64[s], integers beyond 2**53 (int64 near both ends, uint64 above 2**63); ``set_index`` given the column as a name,
a one-element list or a Series.

Calibration
-----------
* columns holding +-inf are not generated: ``pandas.Series.quantile`` (the arithmetic the summaries are built from)
  itself returns NaN for every quantile of such a column, q=0 and q=1 included.
* unordered categoricals are not generated for the quantile facet: pandas defines no min/max for them.
* categorical INDEX values for sdl / from_pandas use categories in lexical order, so that the order of the dtype and the
  order of the plain values that ``tolist`` hands to the planner agree (the statement speaks of a sorted sequence).
* ``sorted_division_locations`` takes ndarray / pd.Index / pd.Series (it goes
  through ``tolist`` dispatch), not plain lists: only those containers are
  generated.  A ``datetime64[ns]`` *ndarray* is turned into integers by
  ``ndarray.tolist()`` (NumPy behaviour), so timestamps are passed as
  DatetimeIndex / Series only.
* Empty sequences are outside the statement (no location sequence can strictly
  increase from 0 to 0) and are not generated; NaN/NaT are not generated (a
  sequence containing them is not sorted under ``<``).
* nothing is demanded about the size of chunks in ``chunksize`` mode: the
  statement does not promise any.
* false alarm corrected: ``set_index(col, npartitions=1)`` (or a single input partition) returns
  *unknown* divisions ``(None, None)`` -- ``BaseSetIndexSortValues._divisions`` plans no quantile
  divisions for one output partition, so the property does not speak; such results are counted
  (``set_index_single_partition_unknown_divisions``) and not checked.  Witness: from_pandas(3 rows, 4
  partitions).set_index('k', npartitions=1).divisions == (None, None).
* quantile facet: index columns never contain nulls (dask documents nulls in
  the index as unsupported); divisions are compared with ``<=``/``>=`` only.
"""
from __future__ import annotations

import itertools
import random

PROP = "C45"
RULE = ("facet sdl: cases = sorted sequences; ALL sorted sequences of length 1..8 over a 4-letter alphabet "
        "(thorough: 1..11 over 5 letters), each as str and as int values, each passed as np.ndarray, pd.Index and "
        "pd.Series with every npartitions and every chunksize in 1..len+1; then random longer sequences (ints, floats, "
        "strings, timestamps, heavy duplicates, length 9..1500) with sampled npartitions/chunksize around the number "
        "of distinct values (also bool, timedelta, uint8, Int64, tz-aware, ordered categorical).  facet quantile: random "
        "columns (int with duplicates, wide int, float, float with duplicates, str, datetime, bool, Int64, ordered "
        "categorical, uint8, int8, float32, timedelta, tz-aware, datetime64[s], integers beyond 2**53; random/sorted/"
        "reversed/blocked order; outliers) -> from_pandas(k).set_index(col as name | [name] | Series[, npartitions, "
        "upsample]) and Series._repartition_quantiles(m, upsample, random_state).  facet from_pandas: index of the same "
        "value types (sorted / shuffled / reversed, duplicates) x npartitions | chunksize x sort on/off.  non-trivial = "
        "length >= 2; distinct = distinct (values, container, mode) resp. (column description, call parameters)")
ASSUMPTIONS = [
    "pandas/numpy define min/max and == of the generated values; the harness list of values is the reference sequence",
    "dask.dataframe is imported through the pyarrow import stub (pandas-backed strings, convert-string=False)",
]
BUDGET = {"quick": 60, "thorough": 540}
FLOORS = {
    "quick": {"evaluations": 4000, "distinct_nontrivial": 3800,
              "counters": {"sdl_calls": 55000, "sdl_npartitions_calls": 27000, "sdl_chunksize_calls": 27000,
                           "sdl_inputs_with_duplicates": 48000, "npartitions_exact_checked": 12000,
                           "internal_boundaries_checked": 650000, "quantile_set_index": 2200,
                           "quantile_direct": 2200, "quantile_divisions_checked": 4000,
                           "set_index_quantile_divisions": 1800, "quantile_with_empty_input_partitions": 300},
              "max_skipped_fraction": 0.1},
    "thorough": {"evaluations": 40000, "distinct_nontrivial": 38000,
                 "counters": {"sdl_calls": 730000, "sdl_npartitions_calls": 360000, "sdl_chunksize_calls": 360000,
                              "sdl_inputs_with_duplicates": 630000, "npartitions_exact_checked": 150000,
                              "internal_boundaries_checked": 10000000, "quantile_set_index": 18000,
                              "quantile_direct": 18000, "quantile_divisions_checked": 33000,
                              "set_index_quantile_divisions": 15000, "quantile_with_empty_input_partitions": 2800},
                 "max_skipped_fraction": 0.1},
}
# parameter audit (from_pandas facet, new quantile dtypes, set_index(other=) forms): about 45 percent of the smallest count
# of the five quick seeds on the tree with the C45 patches; thorough scaled by the stream ratios (from_pandas x11.5, quantile x8)
FLOORS["quick"]["counters"].update({'from_pandas_calls': 1170, 'from_pandas_npartitions_calls': 569, 'from_pandas_chunksize_calls': 569, 'from_pandas_index_with_duplicates': 647, 'from_pandas_planned_divisions': 1075, 'from_pandas_sorted_by_from_pandas': 255, 'from_pandas_unsorted_without_sort': 80, 'from_pandas_npartitions_exact_checked': 316, 'from_pandas_boundaries_checked': 4200, 'quantile_new_dtype': 1279, 'set_index_other_series': 556, 'set_index_other_list': 549})
FLOORS["thorough"]["counters"].update({'from_pandas_calls': 12870, 'from_pandas_npartitions_calls': 6259, 'from_pandas_chunksize_calls': 6259, 'from_pandas_index_with_duplicates': 7117, 'from_pandas_planned_divisions': 11825, 'from_pandas_sorted_by_from_pandas': 2805, 'from_pandas_unsorted_without_sort': 880, 'from_pandas_npartitions_exact_checked': 3476, 'from_pandas_boundaries_checked': 46200, 'quantile_new_dtype': 10232, 'set_index_other_series': 4448, 'set_index_other_list': 4392})
FLOORS["quick"]["sets"] = {"from_pandas_index_dtypes": 10, "quantile_dtypes": 13, "random_value_types": 9}
FLOORS["thorough"]["sets"] = {"from_pandas_index_dtypes": 10, "quantile_dtypes": 13, "random_value_types": 9}
EXHAUSTIVE_SPACE = {
    "quick": "all 494 sorted sequences of length 1..8 over a 4-letter alphabet (as str and as int values) x "
             "{ndarray, pd.Index, pd.Series} x every npartitions and every chunksize in 1..len+1",
    "thorough": "all 4367 sorted sequences of length 1..11 over a 5-letter alphabet (as str and as int values) x "
                "{ndarray, pd.Index, pd.Series} x every npartitions and every chunksize in 1..len+1",
}
CLAIM = ("Every call of sorted_division_locations on the generated sorted sequences (the complete space of short "
         "sequences over a small alphabet with every npartitions/chunksize, plus random long sequences of ints, "
         "floats, strings and timestamps with heavy duplicates) satisfied the four rules of the statement, checked by "
         "the harness on its own copy of the values; every set of quantile-based divisions produced by set_index "
         "without divisions and by the RepartitionQuantiles expression on random columns was non-decreasing and "
         "spanned the column's pandas min/max; the divisions and partitions of every from_pandas call on the generated "
         "indexes obeyed the same four rules.  Held means: no counterexample among the executions observed.")
LEVEL_NOTE = ("trusts Python/pandas equality and ordering of the generated scalars and pandas min/max; "
              "Arrow-backed strings are not exercised (pyarrow stub)")
TECHNIQUE = ("runtime monitoring: post-condition contract on every real sorted_division_locations call "
             "(complete small space + random), on the divisions/partitions of from_pandas, and on quantile divisions of "
             "set_index/RepartitionQuantiles")
PENDING = {}

LETTERS = "ABCDE"
CONTAINERS = ("ndarray", "index", "series")


def shard_setup(tier, seed):
    import pandas  # noqa: F401
    import vf.shim

    vf.shim.install_pyarrow()
    import dask
    import dask.dataframe  # noqa: F401

    dask.config.set(scheduler="sync")


# --------------------------------------------------------------------------- cases
def cases(tier, seed):
    rng = random.Random(seed * 104729 + 45)
    alpha, lmax = (4, 8) if tier == "quick" else (5, 11)
    for vals in ("str", "int"):
        for ln in range(1, lmax + 1):
            for comb in itertools.combinations_with_replacement(range(alpha), ln):
                yield {"space": "exhaustive", "facet": "sdl", "letters": "".join(map(str, comb)), "vals": vals}
    nrand = 3000 if tier == "quick" else 40000
    nq = 5000 if tier == "quick" else 40000
    nfp = 2600 if tier == "quick" else 30000
    # interleave the random facets so that a truncated stream still has all of them
    iq = ifp = 0
    for i in range(nrand):
        n = rng.choice((9, 10, 12, 15, 20, 30, 50, 80, 120, 200, 400, rng.randint(9, 1500)))
        yield {"facet": "sdl", "rand": True, "dtype": rng.choice(SDL_DTYPES),
               "n": n, "nd": rng.choice((1, 2, 3, rng.randint(1, n), rng.randint(1, max(1, n // 4)), n)),
               "skew": rng.choice((0, 0, 1, 2, 3, 4)), "dseed": rng.randrange(2 ** 31)}
        while iq * nrand < (i + 1) * nq:
            iq += 1
            yield _quantile_case(rng)
        while ifp * nrand < (i + 1) * nfp:
            ifp += 1
            yield _from_pandas_case(rng)
        if i % 25 == 0:
            # CategoricalIndex whose categories are NOT in lexical order: pandas sorts it by category order, the
            # planner compares labels; observed with a logical step bound (termination facet)
            yield {"facet": "catidx", "n": rng.choice((4, 5, 6, 8, 12)), "k": rng.choice((2, 3, 4)), "ordered": rng.random() < 0.5,
                   "dseed": rng.randrange(2 ** 31), "sort": rng.random() < 0.8}


SDL_DTYPES = ("int", "int", "float", "str", "ts", "negint", "bool", "td", "uint8", "Int64", "tzts", "cat")
FP_DTYPES = ("int", "int", "range", "float", "str", "ts", "negint", "bool", "td", "uint8", "Int64", "tzts", "cat")


def _from_pandas_case(rng):
    """dd.from_pandas(frame, npartitions | chunksize, sort): the divisions it plans and the partitions it cuts"""
    n = rng.choice((1, 2, 3, 4, 5, 6, 8, 12, 20, 40, 90, rng.randint(1, 300)))
    nd = rng.choice((1, 2, 3, rng.randint(1, n), rng.randint(1, max(1, n // 3)), n, n))
    by = rng.choice(("npartitions", "chunksize"))
    # the count / size asked for: around the number of distinct values, small, and above the length
    k = rng.choice((1, 2, 3, max(1, nd - 1), nd, nd + 1, max(1, nd // 2), max(1, n // 2), n, n + 1, rng.randint(1, n + 1)))
    return {"facet": "from_pandas", "dtype": rng.choice(FP_DTYPES), "n": n, "nd": nd, "skew": rng.choice((0, 0, 1, 2, 3, 4)),
            "order": rng.choice(("sorted", "sorted", "shuffled", "reversed")), "by": by, "k": k,
            "sort": rng.choice((True, True, True, False)), "series": rng.random() < 0.15, "dseed": rng.randrange(2 ** 31)}


def _quantile_case(rng):
    n = rng.choice((1, 2, 3, 5, 8, 13, 30, 60, 100, 200, rng.randint(1, 400)))
    return {"facet": "quantile",
            "dtype": rng.choice(Q_DTYPES),
            "other": rng.choice(("name", "name", "series", "list")),
            "n": n, "parts_in": rng.choice((1, 2, 3, 4, 5, 7, 12, 20)),
            "order": rng.choice(("random", "random", "sorted", "sorted", "reversed", "blocks")),
            "outliers": rng.random() < 0.4,
            "out": rng.choice((None, None, 1, 2, 3, 5, 8, 15, 40)),
            "upsample": rng.choice((1.0, 1.0, 0.1, 4.0)),
            "rs": rng.choice((None, rng.randrange(1000))),
            "drop": rng.randrange(1, 10 ** 6) if rng.random() < 0.2 else 0,   # empty some input partitions
            "dseed": rng.randrange(2 ** 31)}


Q_DTYPES = ("intdup", "intdup", "intwide", "float", "floatdup", "str", "str", "dt", "dtdup",
            "bool", "Int64", "catord", "uint8", "int8", "float32", "td", "tz", "tzwest", "inthuge", "uint64", "dts")


# --------------------------------------------------------------------------- sdl facet
def _container(ref, dtype, kind):
    import numpy as np
    import pandas as pd

    if dtype in ("ts", "tzts", "td", "Int64", "cat"):
        if dtype == "td":
            idx = pd.TimedeltaIndex(ref)
        elif dtype == "Int64":
            idx = pd.Index(pd.array(ref, dtype="Int64"))
        elif dtype == "cat":
            idx = pd.CategoricalIndex(ref, categories=sorted(set(ref)), ordered=True)
        else:
            idx = pd.DatetimeIndex(ref)
        if kind == "series":
            return pd.Series(idx, index=range(100, 100 + len(ref)))
        return idx                      # 'ndarray' is mapped to the pandas Index (see Calibration)
    if dtype == "uint8" and kind != "index":
        arr = np.array(ref, dtype="uint8")
        return arr if kind == "ndarray" else pd.Series(arr, index=range(100, 100 + len(ref)))
    if dtype == "uint8":
        return pd.Index(np.array(ref, dtype="uint8"))
    if kind == "ndarray":
        return np.array(ref, dtype=object) if dtype == "strobj" else np.array(ref)
    if kind == "index":
        return pd.Index(ref)
    return pd.Series(ref, index=range(100, 100 + len(ref)))   # labels != positions


def _check_sdl(ctx, sdl, ref, nd, seq, mode, k, vt):
    n = len(ref)
    dups = nd < n
    ctx.count("sdl_calls")
    ctx.count("sdl_%s_calls" % mode)
    if dups:
        ctx.count("sdl_inputs_with_duplicates")
    feat = "%s&%s" % (mode, "dups" if dups else "no-dups")
    if mode == "npartitions":
        feat += "&k<=distinct" if k <= nd else "&k>distinct"
    try:
        out = sdl(seq, npartitions=k) if mode == "npartitions" else sdl(seq, chunksize=k)
    except Exception as e:  # noqa: BLE001
        ctx.exception(e, prefix="sdl:" + feat + "&" + vt, values=ref[:40], k=k)
        return None
    detail = {"values": ref[:60], "n": n, mode: k}
    try:
        divs, locs = out
        divs, locs = list(divs), [int(x) for x in locs]
    except Exception:  # noqa: BLE001
        ctx.violation("sdl:%s:not-a-(divisions,locations)-pair" % feat, repr(out)[:300], **detail)
        return None
    detail.update(divisions=divs[:60], locations=locs[:60])
    if len(divs) != len(locs) or len(locs) < 2:
        ctx.violation("sdl:%s:divisions-and-locations-differ-in-length" % feat,
                      "%d divisions, %d locations" % (len(divs), len(locs)), **detail)
        return None
    ok_locs = locs[0] == 0 and locs[-1] == n and all(a < b for a, b in zip(locs, locs[1:]))
    if not ok_locs:
        ctx.violation("sdl:%s:locations-not-strictly-increasing-from-0-to-len" % feat,
                      "locations %r for len %d" % (locs[:40], n), **detail)
    else:
        bad = [i for i in range(len(locs) - 1) if not divs[i] == ref[locs[i]]]
        if bad or not divs[-1] == ref[-1]:
            which = "last-division-not-last-value" if not bad else "division-not-value-at-location"
            ctx.violation("sdl:%s:%s" % (feat, which),
                          "divisions %r locations %r" % (divs[:20], locs[:20]), **detail)
        inner = locs[1:-1]
        ctx.count("internal_boundaries_checked", len(inner))
        strad = [l for l in inner if ref[l - 1] == ref[l]]
        if strad:
            ctx.violation("sdl:%s:equal-values-straddle-boundary" % feat,
                          "value %r on both sides of location %d" % (ref[strad[0]], strad[0]), **detail)
    if mode == "npartitions" and k <= nd:
        ctx.count("npartitions_exact_checked")
        if len(locs) - 1 != k:
            ctx.violation("sdl:%s:npartitions-not-met" % feat,
                          "asked %d partitions with %d distinct values, got %d" % (k, nd, len(locs) - 1), **detail)
    return divs, locs


def _run_sdl_exhaustive(case, ctx):
    from dask.dataframe.io.io import sorted_division_locations as sdl

    letters = case["letters"]
    if case["vals"] == "str":
        ref = [LETTERS[int(c)] for c in letters]
    else:
        ref = [int(c) * 3 - 2 for c in letters]
    n, nd = len(ref), len(set(ref))
    ctx.nontrivial = n >= 2
    ctx.sig = ("sdl", case["vals"], letters)
    ctx.op("sdl:exhaustive:" + case["vals"])
    last = None
    for kind in CONTAINERS:
        seq = _container(ref, case["vals"], kind)
        for mode in ("npartitions", "chunksize"):
            for k in range(1, n + 2):
                last = _check_sdl(ctx, sdl, ref, nd, seq, mode, k, case["vals"])
    ctx.sample = {"values": "".join(map(str, ref)) if case["vals"] == "str" else ref,
                  "chunksize=len+1 ->": last}


def _rand_sorted(case):
    import numpy as np
    import pandas as pd

    rng = np.random.default_rng(case["dseed"])
    n, nd, dt = case["n"], max(1, min(case["nd"], case["n"])), case["dtype"]
    if dt in ("int", "negint"):
        lo = -10 ** 6 if dt == "negint" else 0
        pool = rng.choice(np.arange(lo, lo + max(4 * nd, 10) * 7, 7), size=nd, replace=False).tolist()
    elif dt == "bool":
        pool = [False, True][:nd] if rng.random() < 0.8 else [True]
    elif dt == "uint8":
        pool = rng.choice(np.arange(0, 256), size=min(nd, 256), replace=False).tolist()
    elif dt == "Int64":
        pool = rng.choice(np.arange(-50, max(4 * nd, 10) * 3, 3), size=nd, replace=False).tolist()
    elif dt == "td":
        offs = rng.choice(np.arange(0, max(4 * nd, 10)), size=nd, replace=False)
        unit = ["us", "s", "D"][int(rng.integers(0, 3))]
        pool = [pd.Timedelta(int(o) - 3, unit=unit) for o in offs]
    elif dt == "tzts":
        base = pd.Timestamp("2021-03-27 22:00", tz=["Europe/Berlin", "US/Pacific", "Asia/Kolkata"][int(rng.integers(0, 3))])
        offs = rng.choice(np.arange(0, max(4 * nd, 10)), size=nd, replace=False)
        unit = ["s", "h", "D"][int(rng.integers(0, 3))]            # hours/days walk across the DST change of 28 March
        pool = [base + pd.Timedelta(int(o), unit=unit) for o in offs]
    elif dt == "cat":
        pool = sorted({"c%03d" % int(v) for v in rng.choice(np.arange(0, max(4 * nd, 10)), size=nd, replace=False)})
    elif dt == "float":
        pool = set()
        for _ in range(30):                              # bounded: coarse rounding may not have nd distinct values
            if len(pool) >= nd:
                break
            pool.update(np.round(rng.normal(0, 10.0 ** rng.integers(-3, 6), nd), int(rng.integers(0, 6))).tolist())
        pool = sorted(pool)[:nd]
        pool = [float(x) + 0.0 for x in pool]          # -0.0 and 0.0 are equal values: keep one
        pool = sorted(set(pool))
    elif dt == "str":
        abc = "abAB zé_0"
        pool = set()
        for _ in range(40 * nd):
            if len(pool) >= nd:
                break
            pool.add("".join(abc[int(j)] for j in rng.integers(0, len(abc), int(rng.integers(0, 6)))))
        pool = sorted(pool)
    else:
        base = pd.Timestamp("2001-03-04 05:06:07")
        offs = rng.choice(np.arange(0, max(4 * nd, 10)), size=nd, replace=False)
        unit = ["ns", "s", "D"][int(rng.integers(0, 3))]
        pool = [base + pd.Timedelta(int(o), unit=unit) for o in offs]
    nd = len(pool)
    # multiplicities: skew 0 = uniform, 1 = zipf-like, 2 = one giant run
    if case["skew"] == 0 or nd == 1:
        w = np.ones(nd)
    elif case["skew"] == 1:
        w = 1.0 / (1 + rng.permutation(nd)) ** 1.5
    elif case["skew"] == 2:
        w = np.full(nd, 0.02 / nd)
        w[int(rng.integers(0, nd))] = 1.0
    else:
        # 3: singletons in front, one long run at the very end;  4: one long run first, singletons behind it
        w = np.full(nd, 0.02 / nd)
        w[-1 if case["skew"] == 3 else 0] = 1.0
    w = w / w.sum()
    if n >= nd:
        counts = np.ones(nd, dtype=int) + rng.multinomial(n - nd, w)
    else:
        counts = rng.multinomial(n, w)
    pool = sorted(pool)
    ref = []
    for v, c in zip(pool, counts):
        ref.extend([v] * int(c))
    return ref


def _run_sdl_random(case, ctx):
    from dask.dataframe.io.io import sorted_division_locations as sdl

    ref = _rand_sorted(case)
    n, nd = len(ref), len(set(ref))
    dt = case["dtype"]
    prng = random.Random(case["dseed"] ^ 0x5A5A)
    ctx.nontrivial = n >= 2
    ctx.sig = ("sdl-rand", case["dtype"], case["n"], case["nd"], case["skew"], case["dseed"])
    ctx.op("sdl:random:" + case["dtype"])
    ctx.distinct("random_value_types", case["dtype"])
    ks = {1, 2, 3, max(1, nd - 1), nd, nd + 1, max(1, n // 2), n - 1, n, n + 1,
          max(1, nd // 2), max(1, nd // 3), max(1, int(nd * 0.9))}
    for _ in range(6):
        ks.add(prng.randint(1, n + 1))
        ks.add(prng.randint(1, max(1, nd)))
    ks = sorted(k for k in ks if 1 <= k <= n + 1)
    if dt == "str" and prng.random() < 0.5:
        dt = "strobj"
    seqs = {kind: _container(ref, dt, kind) for kind in CONTAINERS}
    last = None
    for j, k in enumerate(ks):
        for m, mode in enumerate(("npartitions", "chunksize")):
            kind = CONTAINERS[(j + m + case["dseed"]) % 3]
            last = _check_sdl(ctx, sdl, ref, nd, seqs[kind], mode, k, case["dtype"])
    ctx.sample = {"n": n, "distinct": nd, "first_values": [repr(v) for v in ref[:6]],
                  "last_call_locations": None if last is None else last[1][:12]}


# --------------------------------------------------------------------------- quantile facet
def _column(case):
    import numpy as np
    import pandas as pd

    rng = np.random.default_rng(case["dseed"])
    n, dt = case["n"], case["dtype"]
    if dt == "intdup":
        col = rng.integers(-3, int(rng.choice([2, 5, 20, 100])), n)
    elif dt == "intwide":
        col = rng.integers(-2 ** 40, 2 ** 40, n)
    elif dt == "float":
        col = rng.normal(0, 10.0 ** rng.integers(-3, 6), n)
    elif dt == "floatdup":
        col = np.round(rng.normal(0, 3, n), int(rng.integers(0, 2)))
        col = col + 0.0
    elif dt == "str":
        m = int(rng.choice([2, 5, 30, 1000]))
        col = np.array(["k%04d" % x if x % 3 else "Z" * (x % 5) + "é%d" % x for x in rng.integers(0, m, n)], dtype=object)
    elif dt in NEW_Q_DTYPES:
        return _new_column(case, rng)
    else:
        m = 10 ** 6 if dt == "dt" else int(rng.choice([2, 6, 40]))
        col = (pd.Timestamp("1999-12-31 23:00") + pd.to_timedelta(rng.integers(0, m, n), unit="min")).values
    col = np.array(col)            # writable copy
    if case["outliers"] and n >= 3 and dt not in ("str",):
        srt = np.sort(col)
        span = srt[-1] - srt[0]
        i, j = rng.choice(n, 2, replace=False)
        if dt.startswith("dt"):
            col[i] = srt[0] - np.timedelta64(10 ** 4, "m") - span * 50
            col[j] = srt[-1] + np.timedelta64(10 ** 4, "m") + span * 50
        elif dt.startswith("int"):
            col[i] = srt[0] - 10 ** 6 - span * 50
            col[j] = srt[-1] + 10 ** 6 + span * 50
        else:
            col[i] = srt[0] - 1e3 - span * 50
            col[j] = srt[-1] + 1e3 + span * 50
    elif case["outliers"] and n >= 3:
        i, j = rng.choice(n, 2, replace=False)
        col[i], col[j] = "", "~~~~"
    order = case["order"]
    if order == "sorted":
        col = np.sort(col)
    elif order == "reversed":
        col = np.sort(col)[::-1].copy()
    elif order == "blocks":        # sorted blocks in shuffled order: partitions with disjoint ranges, not presorted
        col = np.sort(col)
        nb = max(1, min(case["parts_in"], n))
        pieces = np.array_split(col, nb)
        perm = rng.permutation(nb)
        col = np.concatenate([pieces[p] for p in perm])
    return col


NEW_Q_DTYPES = ("bool", "Int64", "catord", "uint8", "int8", "float32", "td", "tz", "tzwest", "inthuge", "uint64", "dts")


def _new_column(case, rng):
    """value classes added by the parameter audit: small / unsigned / huge integers, bool, nullable, ordered categorical (category
    order different from the lexical one), timedelta, tz-aware and second-resolution timestamps, infinities"""
    import numpy as np
    import pandas as pd

    n, dt = case["n"], case["dtype"]
    m = int(rng.choice([2, 6, 40, 10 ** 6]))
    if dt == "bool":
        col = pd.array(rng.random(n) < rng.choice([0.1, 0.5, 0.9]), dtype="bool")
    elif dt == "Int64":
        col = pd.array(rng.integers(-5, m, n), dtype="Int64")
    elif dt == "catord":
        cats = ["g", "f", "e", "d", "c", "b", "a", "Z", "é"][: int(rng.integers(2, 10))]
        col = pd.Categorical(rng.choice(cats[: max(1, min(len(cats), m))], n), categories=cats + ["unused"], ordered=True)
    elif dt == "uint8":
        col = rng.integers(0, 256 if m > 40 else m, n).astype("uint8")
    elif dt == "int8":
        col = rng.integers(-128, 128, n).astype("int8") if m > 40 else rng.integers(-3, m, n).astype("int8")
    elif dt == "float32":
        col = rng.normal(0, 10.0 ** rng.integers(-3, 6), n).astype("float32")
    elif dt == "td":
        col = pd.array(pd.to_timedelta(rng.integers(-5, m, n), unit=["s", "min", "D"][int(rng.integers(0, 3))]))
    elif dt in ("tz", "tzwest"):
        zone = {"tz": ["Europe/Berlin", "Asia/Kolkata"], "tzwest": ["US/Pacific", "America/Sao_Paulo"]}[dt][int(rng.integers(0, 2))]
        col = pd.array(pd.Timestamp("2021-03-27 21:00", tz=zone) + pd.to_timedelta(rng.integers(0, m, n), unit="min"))
    elif dt == "inthuge":
        col = rng.integers(2 ** 62, 2 ** 63 - 1, n) if rng.random() < 0.5 else rng.integers(-2 ** 63, -2 ** 62, n)
        if m <= 40:
            col = col[rng.integers(0, max(1, min(n, m)), n)]
    elif dt == "uint64":
        col = rng.integers(2 ** 63, 2 ** 64 - 1, n, dtype="uint64")
    else:  # "dts"
        col = (pd.Timestamp("1999-12-31 23:00") + pd.to_timedelta(rng.integers(0, m, n), unit="s")).values.astype("datetime64[s]")
    ser = pd.Series(col)
    order = case["order"]
    if order in ("sorted", "reversed", "blocks"):
        ser = ser.sort_values(ascending=order != "reversed", kind="stable").reset_index(drop=True)
        if order == "blocks" and n:
            nb = max(1, min(case["parts_in"], n))
            pieces = np.array_split(np.arange(n), nb)
            perm = rng.permutation(nb)
            ser = ser.iloc[np.concatenate([pieces[p] for p in perm])].reset_index(drop=True)
    return ser


def _check_divisions(ctx, api, feat, divs, lo, hi, detail, key=None):
    ctx.count("quantile_divisions_checked")
    try:
        divs = list(divs)
        if key is not None:          # ordered categorical: compare in the category order
            shown_divs = divs
            divs = [key[d] for d in divs]
            lo, hi = key[lo], key[hi]
        if len(divs) < 2:
            ctx.violation("quantile:%s:%s:fewer-than-two-divisions" % (api, feat), repr(divs), **detail)
            return
        dec = [i for i in range(len(divs) - 1) if not divs[i] <= divs[i + 1]]
        below = not divs[0] <= lo
        above = not divs[-1] >= hi
    except Exception as e:  # noqa: BLE001   (None / NaN / unorderable divisions)
        ctx.violation("quantile:%s:%s:divisions-not-comparable-with-data" % (api, feat),
                      "%s: %s; divisions=%r" % (type(e).__name__, e, divs), **detail)
        return
    shown = [repr(d) for d in (divs if key is None else shown_divs)[:25]]
    if dec:
        ctx.violation("quantile:%s:%s:divisions-decrease" % (api, feat),
                      "divisions[%d]=%r > divisions[%d]=%r" % (dec[0], divs[dec[0]], dec[0] + 1, divs[dec[0] + 1]),
                      divisions=shown, **detail)
    if below:
        ctx.violation("quantile:%s:%s:first-division-above-minimum" % (api, feat),
                      "divisions[0]=%r but min=%r" % (divs[0], lo), divisions=shown, **detail)
    if above:
        ctx.violation("quantile:%s:%s:last-division-below-maximum" % (api, feat),
                      "divisions[-1]=%r but max=%r" % (divs[-1], hi), divisions=shown, **detail)


def _run_quantile(case, ctx):
    import numpy as np
    import pandas as pd
    import dask.dataframe as dd

    col = _column(case)
    n = len(col)
    df = pd.DataFrame({"k": col, "v": np.arange(n)})
    if n == 0 and case["dtype"] == "catord":
        df["k"] = pd.Categorical([], categories=["a"], ordered=True)
    lo, hi = df["k"].min(), df["k"].max()
    dt = case["dtype"]
    feat = {"intdup": "int", "intwide": "int", "float": "float", "floatdup": "float", "str": "str",
            "dt": "datetime", "dtdup": "datetime", "tz": "datetime-tz", "tzwest": "datetime-tz", "dts": "datetime-s",
            "catord": "ordered-categorical", "td": "timedelta", "Int64": "nullable-int", "inthuge": "int-beyond-2**53",
            "uint64": "int-beyond-2**53"}.get(dt, dt)
    key = None
    if dt == "catord":
        key = {c: i for i, c in enumerate(df["k"].cat.categories)}
    if dt in NEW_Q_DTYPES:
        ctx.count("quantile_new_dtype")
    how = case.get("other", "name")
    ctx.nontrivial = n >= 2
    ctx.op("quantile:" + dt)
    ctx.op("quantile:order=" + case["order"])
    ctx.distinct("quantile_dtypes", str(df["k"].dtype))
    detail = {"dtype": str(df["k"].dtype), "n": n, "min": repr(lo), "max": repr(hi), "parts_in": case["parts_in"]}
    try:
        ddf = dd.from_pandas(df, npartitions=case["parts_in"], sort=False)
    except Exception as e:  # noqa: BLE001
        ctx.exception(e, prefix="quantile:from_pandas")
        return
    if case.get("drop") and ddf.npartitions >= 2 and ddf.known_divisions:
        # empty whole input partitions with a filter on the positional column v
        prng = random.Random(case["drop"])
        b = list(ddf.divisions)
        gone = prng.sample(range(ddf.npartitions), prng.randint(1, ddf.npartitions - 1))
        keep_pd = np.ones(n, dtype=bool)
        cond = None
        for j in gone:
            lo_v, hi_v = b[j], (b[j + 1] if j + 1 < ddf.npartitions else b[j + 1] + 1)
            keep_pd &= ~((df["v"].values >= lo_v) & (df["v"].values < hi_v))
            c = (ddf["v"] < lo_v) | (ddf["v"] >= hi_v)
            cond = c if cond is None else (cond & c)
        if keep_pd.any():
            ddf = ddf[cond]
            lo, hi = df["k"][keep_pd].min(), df["k"][keep_pd].max()
            detail.update(min=repr(lo), max=repr(hi), emptied_partitions=sorted(gone))
            feat += "&empty-input-partitions"
            ctx.count("quantile_with_empty_input_partitions")
    sample = {"n": n, "dtype": str(df["k"].dtype), "input_partitions": ddf.npartitions}
    # --- set_index without divisions
    kw = {}
    if case["out"] is not None:
        kw["npartitions"] = case["out"]
    if case["upsample"] != 1.0:
        kw["upsample"] = case["upsample"]
    ctx.count("quantile_set_index")
    try:
        if how == "series":
            ctx.count("set_index_other_series")
            res = ddf.set_index(ddf["k"], **kw)
        elif how == "list":
            ctx.count("set_index_other_list")
            res = ddf.set_index(["k"], **kw)
        else:
            res = ddf.set_index("k", **kw)
        divs = res.divisions
    except NotImplementedError as e:
        ctx.unsupported(str(e))
        return
    except Exception as e:  # noqa: BLE001
        ctx.exception(e, prefix="quantile:set_index:" + feat, **detail)
        divs = None
    if divs is not None and all(d is None for d in divs):
        # one output partition: set_index plans no quantile divisions at all (divisions unknown) -- see Calibration
        ctx.count("set_index_single_partition_unknown_divisions")
        sample["set_index_divisions"] = "unknown"
    elif divs is not None:
        ctx.count("set_index_quantile_divisions")
        _check_divisions(ctx, "set_index", feat, divs, lo, hi, dict(detail, kwargs=kw, order=case["order"], other=how), key=key)
        sample["set_index_divisions"] = [repr(d) for d in divs[:8]]
    # --- the quantile expression itself
    m = case["out"] if case["out"] is not None else ddf.npartitions
    ctx.count("quantile_direct")
    try:
        q = ddf["k"]._repartition_quantiles(m, upsample=case["upsample"], random_state=case["rs"]).compute()
    except Exception as e:  # noqa: BLE001
        ctx.exception(e, prefix="quantile:repartition_quantiles:" + feat, **detail)
        q = None
    if q is not None:
        qv = list(q)
        _check_divisions(ctx, "repartition_quantiles", feat, qv, lo, hi,
                         dict(detail, npartitions=m, upsample=case["upsample"], random_state=case["rs"]), key=key)
        sample["quantiles"] = [repr(d) for d in qv[:8]]
    ctx.sample = sample


# --------------------------------------------------------------------------- from_pandas facet
def _run_from_pandas(case, ctx):
    """The division planner as from_pandas applies it: ``dd.from_pandas(frame, npartitions | chunksize, sort)`` on an index
    of the generated values; the four rules are read off the published divisions and the partitions of the graph."""
    import dask
    import numpy as np
    import pandas as pd
    import dask.dataframe as dd

    dt = case["dtype"]
    n = case["n"]
    if dt == "range":
        ref = list(range(n))
        idx = pd.RangeIndex(n)
    else:
        ref = _rand_sorted(dict(case, dtype=dt))
        n = len(ref)
        idx = _container(ref, "strobj" if dt == "str" and case["dseed"] % 2 else dt, "index")
    nd = len(set(ref))
    prng = np.random.default_rng(case["dseed"] ^ 0x77)
    if case["order"] == "shuffled" and dt != "range":
        idx = idx[prng.permutation(n)]
    elif case["order"] == "reversed" and dt != "range":
        idx = idx[::-1]
    mono = bool(idx.is_monotonic_increasing)
    df = pd.DataFrame({"v": np.arange(n)}, index=idx)
    obj = df["v"] if case["series"] else df
    by, k, sort = case["by"], case["k"], bool(case["sort"])
    dups = nd < n
    ctx.nontrivial = n >= 2
    ctx.op("from_pandas:" + dt)
    ctx.op("from_pandas:%s&sort=%s&%s" % (by, sort, "monotonic" if mono else "unsorted"))
    ctx.distinct("from_pandas_index_dtypes", str(idx.dtype))
    ctx.count("from_pandas_calls")
    ctx.count("from_pandas_%s_calls" % by)
    if dups:
        ctx.count("from_pandas_index_with_duplicates")
    feat = "%s&%s" % (by, "dups" if dups else "no-dups")
    if by == "npartitions":
        feat += "&k<=distinct" if k <= nd else "&k>distinct"
    feat += "&sort=%s&%s-index" % (sort, "monotonic" if mono else "unsorted")
    detail = {"index_dtype": str(idx.dtype), "n": n, "distinct": nd, by: k, "sort": sort, "first_values": [repr(v) for v in list(idx[:12])]}
    try:
        ddf = dd.from_pandas(obj, sort=sort, **{by: k})
        divs = tuple(ddf.divisions)
        parts = dask.compute(*ddf.to_delayed(), scheduler="sync")
    except NotImplementedError as e:
        ctx.unsupported(str(e))
        return
    except Exception as e:  # noqa: BLE001
        ctx.exception(e, prefix="from_pandas:" + feat + "&" + dt, **detail)
        return
    idxs = [list(p.index) for p in parts]
    lens = [len(x) for x in idxs]
    detail.update(divisions=[repr(d) for d in divs[:30]], partition_lengths=lens[:30])
    ctx.sample = {"feat": feat, "dtype": dt, "divisions": [repr(d) for d in divs[:6]], "partition_lengths": lens[:8]}
    if len(divs) != len(parts) + 1:
        ctx.violation("from_pandas:%s:divisions-and-partitions-differ-in-number" % feat,
                      "%d divisions, %d partitions" % (len(divs), len(parts)), **detail)
        return
    unknown = all(d is None for d in divs)
    if not sort and (unknown or not mono):
        # documented: without sorting all divisions are None (the planner is not involved); on an index that happens to
        # be monotonic the implementation plans divisions nevertheless -- checked below when it does
        ctx.count("from_pandas_unsorted_without_sort" if not mono else "from_pandas_sort_false_unknown_divisions")
        if not unknown:
            ctx.violation("from_pandas:%s:divisions-published-for-unsorted-rows" % feat, "divisions %r" % (divs[:10],), **detail)
        return
    if unknown and n:
        ctx.violation("from_pandas:%s:no-divisions-planned" % feat, "sort=True is documented to give known divisions; got %r" % (divs[:10],), **detail)
        return
    ctx.count("from_pandas_planned_divisions")
    if not mono:
        ctx.count("from_pandas_sorted_by_from_pandas")
    # locations strictly increase from 0 to len: every partition holds rows and all rows are there, in index order
    flat = [v for x in idxs for v in x]
    if sum(lens) != n or any(l == 0 for l in lens):
        ctx.violation("from_pandas:%s:locations-not-strictly-increasing-from-0-to-len" % feat,
                      "partition lengths %r for %d rows" % (lens[:30], n), **detail)
        return
    if not all(a == b for a, b in zip(flat, ref)):
        ctx.violation("from_pandas:%s:partitions-not-the-sorted-index" % feat,
                      "the partitions do not concatenate to the sorted index values", **detail)
        return
    bad = [i for i in range(len(parts)) if not divs[i] == idxs[i][0]]
    if bad:
        ctx.violation("from_pandas:%s:division-not-value-at-location" % feat,
                      "divisions[%d]=%r but partition %d starts with %r" % (bad[0], divs[bad[0]], bad[0], idxs[bad[0]][0]), **detail)
    elif not divs[-1] == idxs[-1][-1]:
        ctx.violation("from_pandas:%s:last-division-not-last-value" % feat,
                      "divisions[-1]=%r, last index value %r" % (divs[-1], idxs[-1][-1]), **detail)
    ctx.count("from_pandas_boundaries_checked", len(parts) - 1)
    strad = [i for i in range(len(parts) - 1) if idxs[i][-1] == idxs[i + 1][0]]
    if strad:
        ctx.violation("from_pandas:%s:equal-values-straddle-boundary" % feat,
                      "index value %r ends partition %d and starts partition %d" % (idxs[strad[0]][-1], strad[0], strad[0] + 1), **detail)
    if by == "npartitions" and k <= nd:
        ctx.count("from_pandas_npartitions_exact_checked")
        if len(parts) != k or ddf.npartitions != k:
            ctx.violation("from_pandas:%s:npartitions-not-met" % feat,
                          "asked %d partitions with %d distinct index values, got %d (reports %d)" % (k, nd, len(parts), ddf.npartitions), **detail)


def _run_catidx(case, ctx):
    import pandas as pd

    import dask.dataframe as dd
    from dask.dataframe.io import io as ddio

    from vf.mon import steps

    r = random.Random(case["dseed"])
    cats = ["a", "b", "c", "d"]
    perm = cats[:]
    while perm == sorted(perm):
        r.shuffle(perm)
    labels = [r.choice(cats) for _ in range(case["n"])]
    ix = pd.CategoricalIndex(labels, categories=perm, ordered=case["ordered"], name="k")
    pdf = pd.DataFrame({"v": range(case["n"])}, index=ix)
    ctx.op("from_pandas:categorical-index")
    ctx.count("catidx_cases")
    ctx.sig = ("catidx", tuple(labels), tuple(perm), case["k"], case["ordered"], case["sort"])
    ctx.nontrivial = True
    feat = "from_pandas:categorical-index&categories-not-in-lexical-order&sort=%s" % case["sort"]
    try:
        with steps.bounded([ddio.sorted_division_locations], 200000):
            ddf = dd.from_pandas(pdf, npartitions=case["k"], sort=case["sort"])
            ddf.npartitions            # the divisions are planned lazily
            got = ddf.compute()
    except steps.StepBoundExceeded:
        ctx.violation(feat + ":planner-loops-or-raises", "sorted_division_locations executed more than 200000 lines for %d "
                      "labels %r (categories %r), npartitions=%d" % (case["n"], labels, perm, case["k"]))
        return
    except Exception as ex:  # noqa: BLE001
        import traceback

        tb = traceback.extract_tb(ex.__traceback__)
        if isinstance(ex, IndexError) and tb and tb[-1].name == "sorted_division_locations":
            # the same mechanism (the cursor computed from offsets of a sequence that is not sorted in label order) runs
            # off the end instead of looping
            ctx.violation(feat + ":planner-loops-or-raises", "IndexError in sorted_division_locations for labels %r "
                          "(categories %r), npartitions=%d" % (labels, perm, case["k"]))
            return
        ctx.exception(ex, prefix=feat)
        return
    exp = pdf.sort_index() if case["sort"] else pdf
    if sorted(map(tuple, got.reset_index().astype(str).values.tolist())) != sorted(map(tuple, exp.reset_index().astype(str).values.tolist())):
        ctx.violation(feat + ":rows", "rows differ from the pandas frame")
    ctx.sample = {"labels": labels, "categories": perm, "npartitions": ddf.npartitions}


def run_case(case, ctx):
    if case["facet"] == "catidx":
        return _run_catidx(case, ctx)
    if case["facet"] == "quantile":
        _run_quantile(case, ctx)
    elif case["facet"] == "from_pandas":
        _run_from_pandas(case, ctx)
    elif case.get("rand"):
        _run_sdl_random(case, ctx)
    else:
        _run_sdl_exhaustive(case, ctx)
