"""C48 — dask.bag operations equal their plain-Python reference.

Statement (fixed, /verif/properties.jsonl): for any sequence and partitioning,
map, starmap, filter, remove, map_partitions, pluck, flatten, distinct,
frequencies, topk, fold, reduction, foldby, groupby (task and disk shuffles),
join, product, accumulate, take, repartition, zip, concat and the summary
statistics give the same result as the corresponding plain-Python computation
on the concatenated sequence, up to order where bags promise none.

Monitor: a typed mini-language of bag pipelines.  A case is a seed; from it the
harness draws an element kind (ints, strings, (int,int) tuples, (str,int,int)
tuples, dicts), a sequence of 0-40 elements with duplicates, a partitioning
(``from_sequence(npartitions=)``, ``from_sequence(partition_size=)`` or a
``from_delayed`` list with explicit partition lengths INCLUDING zeros) and a
pipeline of 1-3 operations whose last operation is forced by the case (so every
operation family is hit equally often).  Every step is applied to the real Bag
and, independently, to a plain-Python reference state (the list of partitions
as lists).  The computed result is compared with the reference:

* order-SENSITIVE for everything that is partition-wise or documented with an
  ordered doctest: map, starmap, filter, remove, map_partitions, pluck,
  flatten, accumulate, take, repartition, zip, concat (and the non-commutative
  folds: string / tuple concatenation, which exercise the order in which
  partition results are combined);
* as MULTISETS (type-aware canonical text, dicts normalised) where the bag
  promises no order: distinct ("Unordered without repeats"), frequencies,
  foldby, groupby (also inside each group), join, product; once a pipeline
  went through such a step all later comparisons are multiset comparisons and
  order-dependent operations are not generated after it;
* ``distinct(key=...)``: exactly one element per key, every element a member of
  the input with that key (WHICH representative is not documented);
* ``topk``: the key values of the result are the k largest key values in
  descending order and the result is a sub-multiset of the input (ties may be
  broken either way);
* ``frequencies(sort=True)``: same multiset of (element, count), counts
  non-increasing;
* statistics mean/var/std: exact rational reference, 1e-9 relative tolerance
  (relative to max(|expected|, mean of squares) because var is computed as
  E[x^2]-E[x]^2); count/sum/min/max/any/all exactly;
* ``fold``/``foldby``/``reduction`` are only generated with operators for which
  the partition-wise evaluation is *defined* to equal the sequential one:
  associative binops, ``initial`` an identity of binop (dask applies it once per
  partition, as documented in fold's docstring), combine consistent with binop.

Python reference raising (max of an empty sequence, reduce of an empty sequence
without initial, var with n-ddof<=0 ...) -> ``ctx.reject``; NotImplementedError
from dask (join with a multi-partition Bag) -> ``ctx.unsupported``.

Labels.  A failing pipeline is first *isolated*: every step is re-run alone on
a fresh ``from_delayed`` bag holding the reference input of that step; the
failing step is then *shrunk* greedily (drop empty partitions, merge partitions,
drop partitions, drop elements) keeping the same symptom.  The label is
``<op>:<op parameter features>&<layout features of the minimal witness>:<symptom>``
where layout features are ``empty-bag | first-partition-empty | empty-partition``
and ``npartitions>1``, and the symptom is ``values`` / ``order`` /
``ExcType@file.py:function``.  If no single step reproduces the failure, the
ORIGINAL pipeline is recomputed with bag's optimisation minus its ``lazify`` pass
(``dask.config.set(bag_optimize=...)``, diagnosis only): if that agrees with the
reference the label is ``lazify:<how the partition is read twice>:<symptom>``
(``product(self)`` | ``item-argument`` | ``input-used-twice``).  Otherwise the
shortest failing suffix / sub-pipeline is searched and shrunk and the label names
it (earlier steps by class: ``elementwise>concat>zip:...``; ``unshrunk`` when the
failure cannot be reproduced on a rebuilt bag).

Calibration (unchanged tree, seeds 0, 1, 2, 7, 12345):

* FALSE ALARM corrected — ``map_partitions(f)`` with ``f`` returning a *generator*
  followed by a step that reads the bag from two tasks (``zip(b, b.map(g))``): the
  partition is a one-shot generator, so the second reader sees nothing.  That is
  the user function's choice, not a bag defect; generator-returning partition
  functions are now only generated as the LAST step of a pipeline.
* design decisions taken before any alarm: ``distinct(key=)`` does not demand a
  particular representative; ``topk`` ties may be broken either way; groups of
  ``groupby`` are compared as multisets; ``fold``/``foldby`` initials are identities.
* disk ``groupby``: the default ``blocksize`` costs ~0.15 s per input partition
  (``toolz.partition_all(2**20, ...)``) and partd fsyncs every append; most disk
  cases pass a small documented ``blocksize=`` and point ``temporary_directory``
  at a run-private tmpfs directory (both recorded as label features).
* GENUINE defects (PENDING, /verif/findings_proposed/C48.md): accumulate with an
  empty first partition and no initial; fold(initial=) on an all-empty
  multi-partition bag; lazily evaluated partitions read twice (through the alias
  tasks of concat/repartition, or ``b.product(b)``).

Sibling facet (vf/mon/siblings.py): every case is also built a second time with ONE result-relevant parameter changed
(the same prefix followed by the same last operation planned again with other arguments; repartition grid: another npartitions).
The two lazily built collections must not share output keys unless their stand-alone values are equal (label
``<op>:<param>-not-in-name:siblings-share-keys``); for a seeded ~15 % of the cases both are also computed in one graph and
compared with their stand-alone values (``<op>:<param>:differs-when-computed-with-sibling``).  Counters siblings_built /
siblings_computed_together / siblings_with_different_values have floors.
Calibration of the facet: FALSE ALARM corrected — results were first compared as ordered lists; a disk ``groupby``
returns the same groups in another order when its tasks run in another order (joint graph): results are compared as
multisets (members of a group too).  GENUINE (fixes_ready/SIB_02): ``repartition(partition_size=)`` is named from
(bag, size) although its boundaries come from sampled memory estimates that change from call to call — the same call
twice gives one name with 9 and 11 partitions, ``concat`` of the two loses elements; seen as
``repartition:arguments-not-in-name:siblings-share-keys`` (sibling '200B' vs 200), about one case per run.

Parameter audit (second pass).  Every keyword of the named operations is now passed non-default values on data where
the default gives another result, and the families that the random planners reach too rarely are FORCED in a second
case stream (``AUDIT_FEATS``: the planner of the operation is re-drawn until the last step has the wanted feature;
``AUDIT_MODS``: cross-cutting classes), each with its own counter ``aud_*`` (counted only when a result was compared) and floor:

* arguments of ``map`` / ``starmap`` / ``map_partitions`` that are Bags (derived, independent with the same partition
  lengths, THE SAME bag), Items, Delayed objects, positional and keyword, mixed with constants (a Bag keyword switches
  ``map_partitions`` from blockwise to hand-built tasks);
* ``pluck`` with a list key (tuples) without/with ``default=``, falsy defaults (0, None); ``unzip(n)``;
* ``topk(key=)`` non-callable (also the falsy index 0) and a key function of several arguments; ``split_every=False`` and
  ``split_every`` above the partition count for every tree reduction; counters for THREE tree levels (``*_three_levels``; with
  the default split_every=8 that needs > 64 partitions: layout class ``lay:deep`` 65-72 partitions);
* ``fold(out_type=Bag)``, ``reduction(out_type=Bag)``; ``foldby(combine_initial=)`` over several levels; ``var/std(ddof=2)``;
  ``accumulate(initial=<falsy>)``; ``take(warn=True)`` with too few elements in the requested partitions;
* ``groupby`` without ``shuffle=``: the method comes from the configuration (disk / tasks / p2p -> tasks); keys that are
  None / floats; ``join`` with a lazily evaluated single-partition Bag and a Delayed built by a call;
* ``zip(b, b)``; constructors ``from_sequence(seq)`` without arguments, sequences of 101-260 elements (from_sequence
  switches from ceil to floor partition sizes above 100), ``db.range(n, npartitions)`` incl. n < npartitions;
  13-40 / 65-72 partitions;
* pre-steps that leave state in front of every operation: ``persist()``, ``from_delayed(to_delayed(optimize_graph=))``,
  ``repartition``;
* ``thr:yield``: the threaded scheduler (4 workers) behind a lazily evaluated ``map(yield_ident)`` (a sleep per element
  hands the GIL over) on 2-6 partitions of several elements each: the per-partition tasks of operations that keep state
  (counters, heaps, accumulators, spill files) interleave element by element.  A failure that the synchronous scheduler
  does not show is labelled ``<op>:only-on-threads&gil-yielding-lazy-input:<symptom>``;
* ``to_dataframe(meta= | columns=, optimize_graph=)`` through the harness' pyarrow import stub, against
  ``pandas.DataFrame(list(seq), columns=...).astype(meta dtypes)`` (column names, dtype kinds, rows in order; index ignored);
* ``repartition-grow`` grid (the growing direction of ``repartition(npartitions=)`` and the split step of
  ``repartition(partition_size=)``): old partition length L in 1..130 (thorough 400) x split factor k in 2..16 x N in
  {1,2,3} old partitions - the slice positions are ``int(L / k * i)``, whether the last slice reaches the end depends on
  the pair (L, k).
Not generated: one-shot iterators as ``join(other)`` (consumed by the first partition: the user's choice, like generator
partitions), ``reduction(name=)`` (names only), random_sample (C49).
Calibration of the audit (unchanged tree): no oracle corrections were needed.  GENUINE, patches in /verif/fixes_ready:
C48_05 ``zip(b, b)`` / ``b.map(f, b)`` / ``b.map_partitions(f, b | q=b)`` of a lazily evaluated bag pair up wrong elements
(label ``lazify:same-partition-twice-in-one-task:values`` and, same mechanism seen by the sibling facet,
``{map,map_partitions,zip}:arguments:differs-when-computed-with-sibling``); C48_06 ``db.range(n, npartitions)`` with
n < npartitions raises (``range:n<npartitions:ValueError@bag/core.py:bag_range``); C48_07 ``reduction/fold(out_type=Bag)``
shares its layer name with the Item form (``fold:arguments:differs-when-computed-with-sibling``).
"""
from __future__ import annotations

import fractions
import functools
import itertools
import math
import operator
import random
import time

from vf.core.ctx import CaseTimeout as G_TIMEOUT, exc_label
from vf.gen import bags as G
from vf.mon import siblings as S

PROP = "C48"
RULE = ("cases = (forced last operation, case seed); the seed determines element kind (int/str/(int,int)/(str,int,int)/dict), "
        "a sequence of 0-40 elements with duplicates, the partitioning (from_sequence npartitions|partition_size, or from_delayed "
        "with explicit partition lengths incl. empty first/last/all partitions, up to 12 partitions), a random typed prefix of 0-2 "
        "operations and the parameters of every operation (split_every, keys, binops/initials, groupby shuffle/npartitions/max_branch, "
        "take npartitions, repartition npartitions|partition_size ...); a seeded ~12% run on the threaded scheduler, the rest on sync; "
        "non-trivial = non-empty input sequence; distinct = distinct (pipeline description, data, layout); "
        "+ a parameter-audit stream: (operation, wanted feature of its last step) families and cross-cutting classes (persist / to_delayed / "
        "repartition in front of the operation, threaded scheduler behind a GIL-yielding lazy step, 13-72 partitions, 101-260 elements, "
        "from_sequence without arguments, db.range), each forced equally often; + complete grids of repartition(npartitions=) over "
        "(current, requested) counts (shrinking) and over (old partition length, split factor, old partition count) (growing, also "
        "through partition_size=)")
ASSUMPTIONS = ["CPython builtins / itertools / functools.reduce / fractions as the reference",
               "dask.delayed builds the partitions the harness wrote",
               "the operator library used in folds is associative with identity initials (checked by construction)"]
BUDGET = {"quick": 110, "thorough": 800}   # cap, not target (the audit stream and the grow grid add ~70 % CPU to the first version)
# floors: ~45 % of the counts measured on the unchanged tree for the full quick stream (9000 cases, seeds 0-2, 7, 12345);
# the thorough stream is 150000 cases of the same mixture (x16.7), floored at x15 of the quick floors
_QUICK_COUNTERS = {
    "results_compared": 3800, "multi_step_pipelines": 1100, "empty_partition_cases": 1600, "empty_partition_in_reduction": 1000,
    "threads_runs": 450, "groupby_shuffle_tasks": 120, "groupby_shuffle_disk": 120, "groupby_multi_stage": 35,
    "fold_multi_level": 65, "foldby_multi_level": 80, "frequencies_multi_level": 80, "reduction_multi_level": 70, "topk_multi_level": 70,
    "op_map": 400, "op_starmap": 150, "op_filter": 330, "op_remove": 200, "op_map_partitions": 210, "op_pluck": 200, "op_flatten": 120,
    "op_distinct": 230, "op_frequencies": 200, "op_topk": 190, "op_fold": 185, "op_reduction": 185, "op_foldby": 220, "op_groupby": 300,
    "op_join": 95, "op_product": 95, "op_accumulate": 250, "op_take": 190, "op_repartition": 300, "op_zip": 130, "op_concat": 200,
    "op_count": 95, "op_sum": 90, "op_mean": 75, "op_std": 75, "op_var": 70, "op_min": 80, "op_max": 80, "op_any": 95, "op_all": 95,
}
FLOORS = {
    "quick": {"evaluations": 4000, "distinct_nontrivial": 3400, "counters": _QUICK_COUNTERS, "sets": {"pipelines": 1500},
              "max_skipped_fraction": 0.15},
    "thorough": {"evaluations": 60000, "distinct_nontrivial": 50000, "counters": {k: v * 15 for k, v in _QUICK_COUNTERS.items()},
                 "sets": {"pipelines": 12000}, "max_skipped_fraction": 0.15},
}
FLOORS["quick"]["counters"] = dict(_QUICK_COUNTERS, op_repartition_grid=300)
FLOORS["thorough"]["counters"]["op_repartition_grid"] = 1400
# sibling facet (vf/mon/siblings.py): ~45 % of the smallest count of the five quick seeds on the unchanged tree; thorough =
# quick floor x (thorough / quick stream size) x 0.6.  A run in which the facet never executed is INCONCLUSIVE.
FLOORS["quick"]["counters"].update({"siblings_built": 3800, "siblings_computed_together": 540, "siblings_with_different_values": 355})
FLOORS["thorough"]["counters"].update({"siblings_built": 36000, "siblings_computed_together": 5100, "siblings_with_different_values": 3400})
# parameter audit: ~45 % of the smallest count of the five quick seeds (0, 1, 2, 7, 12345) measured with fixes_ready/C48_05-07
# applied; thorough = quick floor x 13 (the audit stream is x15), the repartition-grow grids x3 (L up to 400 instead of 130)
_AUDIT_COUNTERS = {
    "all_multi_level": 29, "all_three_levels": 12, "any_multi_level": 28, "any_three_levels": 11, "aud_accumulate_initial_falsy": 39,
    "aud_count_split_every_False": 26, "aud_default_split_three_levels": 18, "aud_fold_out_type_Bag": 44, "aud_fold_split_every_False": 36,
    "aud_foldby_combine_initial": 107, "aud_foldby_split_every_False": 40, "aud_frequencies_split_every_False": 37, "aud_groupby_key_None_float": 25,
    "aud_groupby_shuffle_config_disk": 28, "aud_groupby_shuffle_config_p2p": 30, "aud_groupby_shuffle_config_tasks": 29, "aud_join_on_other": 87,
    "aud_join_other_bag1_lazy": 27, "aud_join_other_delayed_call": 28, "aud_lay_bigseq": 67, "aud_lay_deep": 63, "aud_lay_fs": 64,
    "aud_lay_many": 65, "aud_lay_range": 63, "aud_map_delayed_arg": 17, "aud_map_delayed_kwarg": 17, "aud_map_independent_bag_arg": 19,
    "aud_map_mixed_args": 18, "aud_map_partitions_bag_arg": 19, "aud_map_partitions_bag_kwarg": 22, "aud_map_partitions_delayed_arg": 19,
    "aud_map_partitions_delayed_kwarg": 18, "aud_map_partitions_item_arg": 19, "aud_map_partitions_same_bag_arg": 18,
    "aud_map_partitions_same_bag_kwarg": 18, "aud_map_same_bag_arg": 18, "aud_map_same_bag_kwarg": 17, "aud_pluck_default_falsy": 19,
    "aud_pluck_key_list": 38, "aud_pre_persist": 164, "aud_pre_repartition": 63, "aud_pre_to_delayed": 157, "aud_reduction_out_type_Bag": 41,
    "aud_reduction_split_every_False": 34, "aud_starmap_delayed_kwarg": 22, "aud_starmap_item_kwarg": 23, "aud_std_ddof_2": 25, "aud_take_warn": 103,
    "aud_take_warn_short": 46, "aud_thr_yield": 133, "aud_thr_yield_several_nonempty_partitions": 133, "aud_to_dataframe_columns": 36,
    "aud_to_dataframe_meta_float": 32, "aud_to_dataframe_optimize_graph_False": 50, "aud_topk_key_multi_arg": 22, "aud_topk_key_non_callable": 58,
    "aud_topk_split_every_False": 40, "aud_unzip_any": 106, "aud_var_ddof_1": 46, "aud_var_ddof_2": 28, "aud_zip_same_bag_arg": 29,
    "count_multi_level": 32, "count_three_levels": 10, "distinct_multi_level": 38, "distinct_three_levels": 3, "fold_three_levels": 23,
    "foldby_combine_initial_multi_level": 29, "foldby_three_levels": 18, "frequencies_three_levels": 23, "max_multi_level": 30,
    "max_three_levels": 10, "min_multi_level": 29, "min_three_levels": 11, "op_persist": 278, "op_repartition_grow_grid": 2632,
    "op_repartition_size_split_grid": 877, "op_to_dataframe": 138, "op_to_delayed": 274, "op_unzip": 106, "reduction_three_levels": 17,
    "repartition_size_split_exactly_k_ways": 875, "sum_multi_level": 31, "sum_three_levels": 10, "topk_three_levels": 22,
}
_GRIDS = ("op_repartition_grow_grid", "op_repartition_size_split_grid", "repartition_size_split_exactly_k_ways")
FLOORS["quick"]["counters"].update(_AUDIT_COUNTERS)
FLOORS["thorough"]["counters"].update({k: v * (3 if k in _GRIDS else 13) for k, v in _AUDIT_COUNTERS.items()})
FLOORS["quick"].update(evaluations=9000, distinct_nontrivial=8500)
FLOORS["thorough"].update(evaluations=100000, distinct_nontrivial=90000)
EXHAUSTIVE_SPACE = None      # the repartition grids are complete over their (small) index ranges but are not the property's space
LEVEL_NOTE = ("trusts CPython's builtins/itertools/functools/fractions as reference and the harness' own multiset comparison; "
              "operators given to fold/foldby/reduction are associative with identity initials by construction")
CLAIM = ("Every generated bag pipeline (1-3 operations from the statement's list, each family forced equally often as the last "
         "step, on ints/strings/tuples/dicts, all three bag constructors, empty partitions in every position, split_every forcing "
         "multi-level reductions, task/disk groupby incl. multi-stage task shuffles; every keyword of every operation with non-default "
         "values; Bag/Item/Delayed arguments; persist/to_delayed/repartition pre-steps; threaded runs behind GIL-yielding lazy steps; "
         "up to 72 partitions and 260 elements; repartition over complete grids of partition counts and partition lengths) was computed by the real dask.bag and compared "
         "with an independent plain-Python evaluation of the same pipeline on the concatenated sequence; order-insensitively only "
         "where bags promise no order. Held means: no counterexample among the executions observed, except the recorded findings.")
TECHNIQUE = "runtime monitoring: differential oracle (plain-Python reference pipeline) on computed results, with step isolation + greedy witness shrinking for labels"
CASE_TIMEOUT = 120

# genuine defects seen on the unchanged tree (see /verif/findings_proposed/C48.md)
PENDING = {
    "accumulate:no-initial&first-partition-empty&npartitions>1:TypeError@bag/core.py:accumulate_part":
        "Bag.accumulate(binop) without initial: an empty first partition hands [] to the next partition as its initial value (TypeError)",
    "accumulate:no-initial&first-partition-empty&npartitions>1:values":
        "same mechanism when binop accepts a list (mul, max on lists ...): silently wrong values such as [[], [], []]",
    "fold:initial&empty-bag&npartitions>1:TypeError@bag/core.py:_reduce":
        "Bag.fold(binop, initial=x) on a bag whose (>1) partitions are all empty raises TypeError instead of returning x",
    "lazify:input-used-twice:values":
        "a lazily evaluated (filter/map/...) partition leaves a fused chain through the alias task of concat/repartition and is read "
        "by two tasks (zip(b, b.map(f)), product with a multi-partition bag ...): elements are lost; correct when lazify is skipped",
    "lazify:input-used-twice:ValueError@bag/core.py:check_all_iterators_consumed":
        "same mechanism when the second reader is Bag.map(f, other_bag): 'map called with multiple bags that aren't identically partitioned'",
    "lazify:product(self):values":
        "b.product(b) on a bag whose partitions are lazily evaluated (map/filter/starmap/repartition ...) returns [] "
        "(itertools.product(it, it) on one iterator); correct when lazify is skipped",
    "lazify:item-argument:values":
        "b.map(f, y=b.count()) / starmap(..., z=b.count()): tasks cloned for the Item argument are wrapped in ProhibitReuse._identity, "
        "lazify strips their reify, and a partition read by two cloned tasks (zip(b0, b0.map(g))) is consumed once: wrong Item value",
}


class RefReject(Exception):
    """the plain-Python reference itself refuses the input"""


class NotApplicable(Exception):
    pass


# ---------------------------------------------------------------------------
# element function library (module level: picklable, stable names)

def ident(x): return x
def inc(x): return x + 1
def dbl(x): return x * 2
def neg(x): return -x
def sq(x): return x * x
def mod3(x): return x % 3
def is_even(x): return x % 2 == 0
def pairkey(x): return (x % 2, x % 3)
def to_str(x): return str(x)
def to_pair(x): return (x % 3, x)
def rep(x): return [x] * (x % 3)
def to_dict(x): return {"k": x % 3, "v": x, "name": "n%d" % (x % 2)}
def s_len(x): return len(x)
def s_up(x): return x.upper()
def s_bang(x): return x + "!"
def s_trip(x): return (x, len(x), x.count("a"))
def s_head(x): return x[:1]
def p_sum(x): return x[0] + x[1]
def p_first(x): return x[0]
def p_second(x): return x[1]
def p_swap(x): return (x[1], x[0])
def p_par(x): return x[0] % 2
def p_trip(x): return ("x" if x[0] % 2 else "y", x[0], x[1])
def p_dict(x): return {"k": x[0], "v": x[1], "name": "al"}
def t_num(x): return x[1] + x[2]
def t0(x): return x[0]
def t_pair(x): return (x[1], x[2])
def t_key2(x): return (x[0], x[1])
def d_v(x): return x["v"]
def d_k(x): return x["k"]
def d_name(x): return x["name"]
def d_kn(x): return (x["k"], x["name"])
def d_pair(x): return (x["k"], x["v"])
def d_bump(x): return dict(x, v=x["v"] + 1)
def l_sum(x): return sum(x)
def l_rev(x): return list(reversed(x))

def odd(x): return x % 2 == 1
def pos(x): return x > 0
def lt3(x): return x < 3
def has_a(x): return "a" in x
def longish(x): return len(x) > 1
def p_lt(x): return x[0] < x[1]
def p_odd(x): return x[0] % 2 == 1
def t_pos(x): return x[2] > 0
def d_odd(x): return x["v"] % 2 == 1
def d_opt(x): return "opt" in x
def l_nonempty(x): return len(x) > 0
def never(x): return False
def always(x): return True

def add_c(x, c): return x + c
def add_kw(x, y=0): return x + y
def mul_kw(x, y=1): return (x, y)
def add2(a, b): return a + b
def swap2(a, b): return (b, a)
def add2z(a, b, z=0): return a + b + z
def trip3(s, a, b): return a + b + len(s)

def count_binop(acc, x): return acc + 1
def add_to_set(acc, x): return acc | frozenset([x])
def sum_v(acc, d): return acc + d["v"]
def len_binop(acc, s): return acc + len(s)
def count_iter(p): return sum(1 for _ in p)
def set_of(p): return frozenset(p)
def union_all(ps): return frozenset().union(*list(ps))
def two_smallest(p): return sorted(p)[:2]
def two_smallest_agg(ps): return sorted(itertools.chain.from_iterable(ps))[:2]

def tri_kw(x, c, y, z=0): return (x, c, y, z)
def append_binop(acc, x): return acc + [x]
def second_of_two(a, b): return b
def odd_none_half(x): return None if x % 2 else (0.5 if x % 4 == 0 else 2)


def yield_ident(x):
    """identity that hands the GIL over: lazily evaluated in front of an operation it makes the per-partition tasks
    of different threads interleave element by element"""
    time.sleep(0.0001)
    return x


def mp_zip(p, q): return [(x, y) for x, y in zip(p, q)]
def mp_zip_kw(p, q=None, c=0, n=None): return [(x, y, c, n) for x, y in zip(p, q)]
def mp_tag(p, c): return [(x, c) for x in p]
def mp_tag_kw(p, c=0): return [(x, c) for x in p]


def mp_elem(f, gen=False):
    def apply_part(p):
        if gen:
            return (f(x) for x in p)
        return [f(x) for x in p]
    apply_part.__name__ = "mp_%s%s" % (f.__name__, "_gen" if gen else "")
    return apply_part

def mp_rev(p): return list(reversed(list(p)))
def mp_len(p): return [count_iter(p)]
def mp_sum(p): return [sum(p)]
def mp_add(p, c): return [x + c for x in p]
def mp_add_kw(p, c=0): return [x + c for x in p]

MAPS = {
    "I": [(inc, "I"), (dbl, "I"), (neg, "I"), (sq, "I"), (mod3, "I"), (to_str, "S"), (to_pair, "P"), (rep, "L"), (to_dict, "D"), (ident, "I")],
    "S": [(s_len, "I"), (s_up, "S"), (s_bang, "S"), (s_trip, "T"), (ident, "S")],
    "P": [(p_sum, "I"), (p_first, "I"), (p_swap, "P"), (p_trip, "T"), (p_dict, "D"), (ident, "P")],
    "T": [(t_num, "I"), (t0, "S"), (t_pair, "P"), (ident, "T")],
    "D": [(d_v, "I"), (d_pair, "P"), (d_bump, "D"), (d_name, "S"), (ident, "D")],
    "L": [(l_sum, "I"), (l_rev, "L")],
}
PREDS = {
    "I": [odd, pos, lt3], "S": [has_a, longish], "P": [p_lt, p_odd], "T": [t_pos], "D": [d_odd, d_opt], "L": [l_nonempty],
}
KEYS = {  # hashable grouping keys
    "I": [mod3, ident, is_even, pairkey, to_str, odd_none_half], "S": [s_len, ident, s_head], "P": [p_first, ident, p_par],
    "T": [t0, t_key2, ident], "D": [d_k, d_name, d_kn], "L": [l_sum],
}
NONCALL_KEYS = {"P": [0, 1], "T": [0, 1], "D": ["k", "name"]}
HASHABLE = ("I", "S", "P", "T")
COMPARABLE = ("I", "S", "P", "T")
# besides key functions: a non-callable key (an index, also the falsy index 0) and a key function of several arguments
# (applied to the unpacked element; Bag.topk wraps it)
TOPK_KEYS = {"I": [None, neg, mod3], "S": [None, s_len], "P": [None, p_second, 1, 0, second_of_two], "T": [None, t_num, 1, 2], "D": [d_v, d_k, "v"]}
SPLITS = (None, None, 2, 2, 3, 4, False, 16)     # False: "one level, whatever the partition count"


class St:
    __slots__ = ("kind", "parts", "seq", "ordered", "sub")

    def __init__(self, kind, parts, seq=None, ordered=True, sub=None):
        self.kind = kind
        self.parts = parts
        self.seq = list(itertools.chain.from_iterable(parts)) if seq is None else seq
        self.ordered = ordered
        self.sub = sub   # for pair-like kinds (kind of component 0, kind of component 1)

    @property
    def nparts(self):
        return len(self.parts) if self.parts is not None else None


class Final:
    __slots__ = ("value", "mode", "extra")

    def __init__(self, value, mode, extra=None):
        self.value, self.mode, self.extra = value, mode, extra


class Step:
    def __init__(self, name, desc, dask, ref, feats=(), terminal=False, dyn=None):
        self.name, self.desc, self.dask, self.ref, self.feats, self.terminal = name, desc, dask, ref, list(feats), terminal
        self.dyn = dyn       # nparts -> features that depend on the number of input partitions

    def features(self, nparts):
        return self.feats + (self.dyn(nparts) if self.dyn and nparts is not None else [])


def _fn(f):
    return getattr(f, "__name__", repr(f))


def _elementwise(st, f, out_kind, sub=None):
    parts = [[f(x) for x in p] for p in st.parts] if st.parts is not None else None
    seq = None if parts is not None else [f(x) for x in st.seq]
    return St(out_kind, parts, seq, st.ordered, sub)


def _filterwise(st, pred):
    parts = [[x for x in p if pred(x)] for p in st.parts] if st.parts is not None else None
    seq = None if parts is not None else [x for x in st.seq if pred(x)]
    return St(st.kind, parts, seq, st.ordered, st.sub)


def _ref(thunk):
    """run a piece of plain Python; its refusal is a reject, never a verdict"""
    try:
        return thunk()
    except RefReject:
        raise
    except Exception as e:  # noqa: BLE001
        raise RefReject("%s: %s" % (type(e).__name__, e))


# ---------------------------------------------------------------------------
# planners: (rng, st) -> Step   (raise NotApplicable when the op does not fit the state)

def _delayed_const(c):
    import dask

    return dask.delayed(G._ident)(c)


def _plan_map_generic_args(rng, st):
    """kind-agnostic variants of the extra-argument classes of Bag.map (Bag / Item / Delayed / object, positional and keyword)"""
    r = rng.random()
    c = rng.randint(-2, 5)
    if r < 0.15:
        return Step("map", "map(mul_kw,y=delayed(%d))" % c, lambda b, s: b.map(mul_kw, y=_delayed_const(c)),
                    lambda s: _elementwise(s, lambda x: (x, c), "X"), ["delayed-kwarg"])
    if r < 0.30:
        return Step("map", "map(swap2,delayed(%d))" % c, lambda b, s: b.map(swap2, _delayed_const(c)),
                    lambda s: _elementwise(s, lambda x: (c, x), "X"), ["delayed-arg"])
    if r < 0.45:
        return Step("map", "map(swap2,b)", lambda b, s: b.map(swap2, b), lambda s: _elementwise(s, lambda x: (x, x), "X"), ["same-bag-arg"])
    if r < 0.60:
        return Step("map", "map(mul_kw,y=b)", lambda b, s: b.map(mul_kw, y=b), lambda s: _elementwise(s, lambda x: (x, x), "X"), ["same-bag-kwarg"])
    if r < 0.80 and st.parts is not None:
        base = rng.randint(0, 50)

        def dask_fn(b, s):
            lens = [len(p) for p in s.parts]
            other, _ = G.build_bag([base + i for i in range(sum(lens))], {"style": "delayed", "lens": lens, "how": "call"})
            return b.map(swap2, other)

        def ref(s):
            out, i = [], 0
            for p in s.parts:
                out.append([(base + i + j, x) for j, x in enumerate(p)])
                i += len(p)
            return St("X", out, None, s.ordered)
        return Step("map", "map(swap2,other-same-lengths)", dask_fn, ref, ["independent-bag-arg"])

    def ref3(s):
        n = len(s.seq)
        return _elementwise(s, lambda x: (x, c, x, n), "X")
    return Step("map", "map(tri_kw,%d,b.map(ident),z=b.count())" % c, lambda b, s: b.map(tri_kw, c, b.map(ident), z=b.count()),
                ref3, ["mixed-args", "bag-arg", "item-kwarg"])


def plan_map(rng, st):
    r0 = rng.random()
    if r0 < 0.04:
        return Step("map", "map(yield_ident)", lambda b, s: b.map(yield_ident), lambda s: _elementwise(s, ident, s.kind, s.sub), ["gil-yield"])
    if r0 < 0.22:
        return _plan_map_generic_args(rng, st)
    if st.kind not in MAPS:
        raise NotApplicable
    r = rng.random()
    if st.kind == "I" and r < 0.15:
        c = rng.randint(-2, 5)
        return Step("map", "map(add_c,%d)" % c, lambda b, s: b.map(add_c, c), lambda s: _elementwise(s, lambda x: x + c, "I"), ["const-arg"])
    if st.kind == "I" and r < 0.25:
        c = rng.randint(-2, 5)
        return Step("map", "map(add_kw,y=%d)" % c, lambda b, s: b.map(add_kw, y=c), lambda s: _elementwise(s, lambda x: x + c, "I"), ["const-kwarg"])
    if st.kind == "I" and r < 0.35:
        return Step("map", "map(add2,b.map(dbl))", lambda b, s: b.map(add2, b.map(dbl)), lambda s: _elementwise(s, lambda x: 3 * x, "I"), ["bag-arg"])
    if st.kind == "I" and r < 0.42:
        return Step("map", "map(add_kw,y=b.map(inc))", lambda b, s: b.map(add_kw, y=b.map(inc)), lambda s: _elementwise(s, lambda x: 2 * x + 1, "I"), ["bag-kwarg"])
    if st.kind == "I" and r < 0.52:
        def ref(s):
            n = len(s.seq)
            return _elementwise(s, lambda x: x + n, "I")
        if rng.random() < 0.5:
            return Step("map", "map(add2,b.count())", lambda b, s: b.map(add2, b.count()), ref, ["item-arg"])
        return Step("map", "map(add_kw,y=b.count())", lambda b, s: b.map(add_kw, y=b.count()), ref, ["item-kwarg"])
    f, out = rng.choice(MAPS[st.kind])
    return Step("map", "map(%s)" % _fn(f), lambda b, s: b.map(f), lambda s: _elementwise(s, f, out))


def plan_starmap(rng, st):
    if st.kind == "P":
        r = rng.random()
        if r < 0.35:
            return Step("starmap", "starmap(add2)", lambda b, s: b.starmap(add2), lambda s: _elementwise(s, lambda x: x[0] + x[1], "I"))
        if r < 0.5:
            return Step("starmap", "starmap(swap2)", lambda b, s: b.starmap(swap2), lambda s: _elementwise(s, lambda x: (x[1], x[0]), "P"))
        if r < 0.65:
            z = rng.randint(-1, 4)
            return Step("starmap", "starmap(add2z,z=%d)" % z, lambda b, s: b.starmap(add2z, z=z),
                        lambda s: _elementwise(s, lambda x: x[0] + x[1] + z, "I"), ["const-kwarg"])
        if r < 0.8:
            z = rng.randint(-1, 4)
            return Step("starmap", "starmap(add2z,z=delayed(%d))" % z, lambda b, s: b.starmap(add2z, z=_delayed_const(z)),
                        lambda s: _elementwise(s, lambda x: x[0] + x[1] + z, "I"), ["delayed-kwarg"])

        def ref(s):
            n = len(s.seq)
            return _elementwise(s, lambda x: x[0] + x[1] + n, "I")
        return Step("starmap", "starmap(add2z,z=b.count())", lambda b, s: b.starmap(add2z, z=b.count()), ref, ["item-kwarg"])
    if st.kind == "T":
        return Step("starmap", "starmap(trip3)", lambda b, s: b.starmap(trip3), lambda s: _elementwise(s, lambda x: x[1] + x[2] + len(x[0]), "I"))
    raise NotApplicable


def _plan_pred(rng, st):
    if st.kind not in PREDS:
        raise NotApplicable
    r = rng.random()
    if r < 0.08:
        return never
    if r < 0.12:
        return always
    return rng.choice(PREDS[st.kind])


def plan_filter(rng, st):
    p = _plan_pred(rng, st)
    return Step("filter", "filter(%s)" % _fn(p), lambda b, s: b.filter(p), lambda s: _filterwise(s, p))


def plan_remove(rng, st):
    p = _plan_pred(rng, st)
    return Step("remove", "remove(%s)" % _fn(p), lambda b, s: b.remove(p), lambda s: _filterwise(s, lambda x: not p(x)))


def _plan_mp_args(rng, st):
    """argument classes of Bag.map_partitions: Bag / Item / Delayed, positional and keyword (a Bag keyword switches
    map_partitions from blockwise to hand-built tasks)"""
    r = rng.random()
    c = rng.randint(-2, 5)
    if r < 0.2:
        return Step("map_partitions", "map_partitions(mp_zip,b.map(ident))", lambda b, s: b.map_partitions(mp_zip, b.map(ident)),
                    lambda s: _elementwise(s, lambda x: (x, x), "X"), ["bag-arg"])
    if r < 0.45:
        def ref(s):
            n = len(s.seq)
            return _elementwise(s, lambda x: (x, x, c, n), "X")
        return Step("map_partitions", "map_partitions(mp_zip_kw,q=b.map(ident),c=%d,n=b.count())" % c,
                    lambda b, s: b.map_partitions(mp_zip_kw, q=b.map(ident), c=c, n=b.count()), ref, ["bag-kwarg", "item-kwarg", "const-kwarg"])
    if r < 0.6:
        if rng.random() < 0.5:
            return Step("map_partitions", "map_partitions(mp_zip,b)", lambda b, s: b.map_partitions(mp_zip, b),
                        lambda s: _elementwise(s, lambda x: (x, x), "X"), ["same-bag-arg"])
        return Step("map_partitions", "map_partitions(mp_zip_kw,q=b)", lambda b, s: b.map_partitions(mp_zip_kw, q=b),
                    lambda s: _elementwise(s, lambda x: (x, x, 0, None), "X"), ["same-bag-kwarg"])
    if r < 0.75:
        def refn(s):
            n = len(s.seq)
            return _elementwise(s, lambda x: (x, n), "X")
        return Step("map_partitions", "map_partitions(mp_tag,b.count())", lambda b, s: b.map_partitions(mp_tag, b.count()), refn, ["item-arg"])
    if r < 0.88:
        return Step("map_partitions", "map_partitions(mp_tag,delayed(%d))" % c, lambda b, s: b.map_partitions(mp_tag, _delayed_const(c)),
                    lambda s: _elementwise(s, lambda x: (x, c), "X"), ["delayed-arg"])
    return Step("map_partitions", "map_partitions(mp_tag_kw,c=delayed(%d))" % c, lambda b, s: b.map_partitions(mp_tag_kw, c=_delayed_const(c)),
                lambda s: _elementwise(s, lambda x: (x, c), "X"), ["delayed-kwarg"])


def plan_map_partitions(rng, st):
    if rng.random() < 0.3:
        return _plan_mp_args(rng, st)
    r = rng.random()
    if st.kind in MAPS and r < 0.45:
        f, out = rng.choice(MAPS[st.kind])
        gen = rng.random() < 0.3
        mp = mp_elem(f, gen)
        return Step("map_partitions", "map_partitions(%s)" % mp.__name__, lambda b, s: b.map_partitions(mp),
                    lambda s: _elementwise(s, f, out), ["generator-result"] if gen else [])
    if st.kind == "I" and r < 0.6:
        c = rng.randint(-2, 3)
        if rng.random() < 0.5:
            return Step("map_partitions", "map_partitions(mp_add,%d)" % c, lambda b, s: b.map_partitions(mp_add, c),
                        lambda s: _elementwise(s, lambda x: x + c, "I"), ["const-arg"])
        return Step("map_partitions", "map_partitions(mp_add_kw,c=%d)" % c, lambda b, s: b.map_partitions(mp_add_kw, c=c),
                    lambda s: _elementwise(s, lambda x: x + c, "I"), ["const-kwarg"])
    if st.kind == "I" and r < 0.7:
        def ref(s):
            n = len(s.seq)
            return _elementwise(s, lambda x: x + n, "I")
        return Step("map_partitions", "map_partitions(mp_add_kw,c=b.count())", lambda b, s: b.map_partitions(mp_add_kw, c=b.count()), ref, ["item-kwarg"])
    if st.parts is None or not st.ordered:
        raise NotApplicable
    if r < 0.8:
        return Step("map_partitions", "map_partitions(mp_rev)", lambda b, s: b.map_partitions(mp_rev),
                    lambda s: St(s.kind, [list(reversed(p)) for p in s.parts], None, True, s.sub), ["per-partition"])
    if st.kind == "I" and r < 0.9:
        return Step("map_partitions", "map_partitions(mp_sum)", lambda b, s: b.map_partitions(mp_sum),
                    lambda s: St("I", [[sum(p)] for p in s.parts]), ["per-partition"])
    return Step("map_partitions", "map_partitions(mp_len)", lambda b, s: b.map_partitions(mp_len),
                lambda s: St("I", [[len(p)] for p in s.parts]), ["per-partition"])


def _get_default(x, i, default):
    try:
        return x[i]
    except (KeyError, IndexError):
        return default


def plan_pluck(rng, st):
    if st.kind in ("P", "T", "D") and rng.random() < 0.25:
        # key as a list ("pluck" of several fields gives tuples), without and with default=
        if st.kind == "D":
            ks = rng.choice((["k", "v"], ["name"], ["v", "k", "name"]))
            missing = "opt"
        else:
            ks = rng.choice(([1, 0], [0], [1, 1, 0])) if st.kind == "P" else rng.choice(([2, 0], [1], [0, 1, 2]))
            missing = 5
        if rng.random() < 0.5:
            return Step("pluck", "pluck(%r)" % (ks,), lambda b, s: b.pluck(list(ks)),
                        lambda s: _elementwise(s, lambda x: tuple(x[i] for i in ks), "X"), ["key=list"])
        ks2 = ks + [missing]
        dflt = rng.choice((None, 0, -1))
        return Step("pluck", "pluck(%r,default=%r)" % (ks2, dflt), lambda b, s: b.pluck(list(ks2), dflt),
                    lambda s: _elementwise(s, lambda x: tuple(_get_default(x, i, dflt) for i in ks2), "X"), ["key=list", "default"])
    if st.kind == "P" or st.kind == "KV":
        i = rng.choice((0, 1))
        if st.kind == "KV":
            out = st.sub[i]
        else:
            out = "I"
        return Step("pluck", "pluck(%d)" % i, lambda b, s: b.pluck(i), lambda s: _elementwise(s, lambda x: x[i], out))
    if st.kind == "T":
        i = rng.choice((0, 1, 2))
        if rng.random() < 0.2:
            return Step("pluck", "pluck(5,default=-1)", lambda b, s: b.pluck(5, -1), lambda s: _elementwise(s, lambda x: -1, "I"), ["default"])
        return Step("pluck", "pluck(%d)" % i, lambda b, s: b.pluck(i), lambda s: _elementwise(s, lambda x: x[i], "S" if i == 0 else "I"))
    if st.kind == "D":
        if rng.random() < 0.35:
            dflt = rng.choice((-1, -1, 0, None))      # falsy defaults are values too
            return Step("pluck", "pluck('opt',default=%r)" % (dflt,), lambda b, s: b.pluck("opt", dflt),
                        lambda s: _elementwise(s, lambda x: x.get("opt", dflt), "I" if dflt is not None else "X"),
                        ["default"] + (["default=falsy"] if not dflt else []))
        k = rng.choice(("k", "v", "name"))
        return Step("pluck", "pluck(%r)" % k, lambda b, s: b.pluck(k), lambda s: _elementwise(s, lambda x: x[k], "S" if k == "name" else "I"))
    raise NotApplicable


def plan_flatten(rng, st):
    out = {"L": "I", "S": "S", "P": "I"}.get(st.kind)
    if out is None:
        raise NotApplicable

    def ref(s):
        if s.parts is not None:
            return St(out, [[y for x in p for y in x] for p in s.parts], None, s.ordered)
        return St(out, None, [y for x in s.seq for y in x], s.ordered)
    return Step("flatten", "flatten()", lambda b, s: b.flatten(), ref)


def plan_unzip(rng, st):
    """``b.unzip(n)``: n bags of the components, computed together (documented as n plucks)"""
    import dask

    n = {"P": 2, "T": 3}.get(st.kind)
    if n is None or not st.ordered:
        raise NotApplicable
    m = rng.choice((n, n, 1)) if n > 1 else n
    return Step("unzip", "unzip(%d)" % m, lambda b, s: [list(v) for v in dask.compute(*b.unzip(m))],
                lambda s: Final([[x[i] for x in s.seq] for i in range(m)], "eq"), [], terminal=True)


def plan_persist(rng, st):
    """a pre-step that leaves state: the partitions are computed once and kept"""
    return Step("persist", "persist()", lambda b, s: b.persist(), lambda s: St(s.kind, s.parts, None if s.parts is not None else list(s.seq), s.ordered, s.sub))


def plan_to_delayed(rng, st):
    """round trip through ``to_delayed`` / ``from_delayed`` (one Delayed per partition)"""
    import dask.bag as db

    og = rng.random() < 0.6
    return Step("to_delayed", "from_delayed(to_delayed(optimize_graph=%r))" % og, lambda b, s: db.from_delayed(b.to_delayed(optimize_graph=og)),
                lambda s: St(s.kind, s.parts, None if s.parts is not None else list(s.seq), s.ordered, s.sub),
                [] if og else ["optimize_graph=False"])


def plan_distinct(rng, st):
    if st.kind in HASHABLE and rng.random() < 0.5:
        def ref(s):
            seen, out = set(), []
            for x in s.seq:
                if x not in seen:
                    seen.add(x)
                    out.append(x)
            return St(s.kind, None, out, False, s.sub)
        return Step("distinct", "distinct()", lambda b, s: b.distinct(), ref, ["no-key"], dyn=_se_dyn(None))
    # with key: terminal (the representative is not specified)
    if st.kind == "D" and rng.random() < 0.4:      # docstring: "key: {callable,str}"
        k = rng.choice(NONCALL_KEYS[st.kind])
        kf = operator.itemgetter(k)
        feats = ["key=non-callable"]
        desc = "distinct(key=%r)" % (k,)
    elif st.kind in KEYS:
        k = kf = rng.choice(KEYS[st.kind])
        feats = ["key=callable"]
        desc = "distinct(key=%s)" % _fn(k)
    else:
        raise NotApplicable
    return Step("distinct", desc, lambda b, s: b.distinct(key=k),
                lambda s: Final(None, "distinct-key", (kf, list(s.seq))), feats, terminal=True, dyn=_se_dyn(None))


def plan_frequencies(rng, st):
    if st.kind not in HASHABLE:
        raise NotApplicable
    se = rng.choice(SPLITS)
    if rng.random() < 0.25:
        return Step("frequencies", "frequencies(split_every=%r,sort=True)" % se, lambda b, s: b.frequencies(split_every=se, sort=True),
                    lambda s: Final(_freq(s.seq), "freq-sorted"), ["sort"], terminal=True, dyn=_se_dyn(se))
    return Step("frequencies", "frequencies(split_every=%r)" % se, lambda b, s: b.frequencies(split_every=se),
                lambda s: St("KV", None, _freq(s.seq), False, (s.kind, "I")), dyn=_se_dyn(se))


def _freq(seq):
    d = {}
    for x in seq:
        d[x] = d.get(x, 0) + 1
    return list(d.items())


def _se_dyn(se):
    if se is False:
        return lambda n: ["split_every=False"]
    eff = 8 if se is None else se
    return lambda n: (["multi-level"] if n > eff else []) + (["three-levels"] if n > eff * eff else []) + (["split_every>npartitions"] if se and se > n else [])


def plan_topk(rng, st):
    if st.kind not in TOPK_KEYS:
        raise NotApplicable
    key = rng.choice(TOPK_KEYS[st.kind])
    k = rng.choice((0, 1, 1, 2, 3, 5, len(st.seq), len(st.seq) + 2))
    se = rng.choice(SPLITS)
    kfeat = "key"
    if key is None:
        kf = ident
    elif key is second_of_two:
        kf, kfeat = p_second, "key=multi-arg"
    elif not callable(key):
        kf, kfeat = operator.itemgetter(key), "key=non-callable"
    else:
        kf = key

    def ref(s):
        ks = _ref(lambda: sorted((kf(x) for x in s.seq), reverse=True)[:k])
        return Final(ks, "topk", (kf, list(s.seq)))
    if key is None:
        return Step("topk", "topk(%d,split_every=%r)" % (k, se), lambda b, s: b.topk(k, split_every=se), ref,
                    (["k==0"] if k == 0 else []), terminal=True, dyn=_se_dyn(se))
    return Step("topk", "topk(%d,key=%s,split_every=%r)" % (k, _fn(key), se), lambda b, s: b.topk(k, key=key, split_every=se), ref,
                [kfeat] + (["k==0"] if k == 0 else []), terminal=True, dyn=_se_dyn(se))


# (name, binop, combine|None, initial|NO, commutative, kinds)
NO = object()
FOLDS = [
    ("add", operator.add, None, NO, True, ("I",)), ("add0", operator.add, None, 0, True, ("I",)),
    ("add/add0", operator.add, operator.add, 0, True, ("I",)),
    ("mul", operator.mul, None, NO, True, ("I",)), ("mul1", operator.mul, None, 1, True, ("I",)),
    ("max", max, None, NO, True, COMPARABLE), ("min", min, None, NO, True, COMPARABLE),
    ("count", count_binop, operator.add, 0, True, ("I", "S", "P", "T", "D", "L")),
    ("set", add_to_set, frozenset.union, frozenset(), True, HASHABLE),
    ("concat", operator.add, None, NO, False, ("S", "P", "T", "L")),
    ("concat-s", operator.add, None, "", False, ("S",)), ("concat-t", operator.add, None, (), False, ("P", "T")),
    ("concat-l", operator.add, operator.add, [], False, ("L",)),
    ("len", len_binop, operator.add, 0, True, ("S", "P", "T", "L")),
    ("sum_v", sum_v, operator.add, 0, True, ("D",)),
]


def plan_fold(rng, st):
    cands = [f for f in FOLDS if st.kind in f[5] and (f[4] or st.ordered)]
    if not cands:
        raise NotApplicable
    se = rng.choice(SPLITS)
    if rng.random() < 0.15:
        # out_type=Bag: the folded value is itself the (single) partition of the resulting bag
        from dask.bag import Bag

        kwb = {"out_type": Bag}
        if se is not None:
            kwb["split_every"] = se
        if st.ordered and rng.random() < 0.6:
            return Step("fold", "fold(append,add,initial=[],split_every=%r,out_type=Bag)" % se,
                        lambda b, s: b.fold(append_binop, operator.add, initial=[], **kwb), lambda s: Final(list(s.seq), "list"),
                        ["initial", "out_type=Bag"], terminal=True, dyn=_se_dyn(se))
        if st.kind in HASHABLE:
            return Step("fold", "fold(set,union,initial=frozenset(),split_every=%r,out_type=Bag)" % se,
                        lambda b, s: b.fold(add_to_set, frozenset.union, initial=frozenset(), **kwb),
                        lambda s: Final(list(set(s.seq)), "mset"), ["initial", "out_type=Bag"], terminal=True, dyn=_se_dyn(se))
    name, binop, combine, initial, _, _ = rng.choice(cands)
    kw = {}
    if combine is not None:
        kw["combine"] = combine
    if initial is not NO:
        kw["initial"] = initial
    if se is not None:
        kw["split_every"] = se

    def ref(s):
        if initial is NO:
            return Final(_ref(lambda: functools.reduce(binop, s.seq)), "eq")
        return Final(_ref(lambda: functools.reduce(binop, s.seq, initial)), "eq")
    feats = ["initial" if initial is not NO else "no-initial"]
    return Step("fold", "fold(%s,split_every=%r)" % (name, se), lambda b, s: b.fold(binop, **kw), ref, feats, terminal=True, dyn=_se_dyn(se))


def plan_reduction(rng, st):
    from dask.bag import Bag

    cands = [("count", count_iter, sum, lambda q: len(q), None)]
    if st.kind == "I":
        cands.append(("sum", sum, sum, lambda q: sum(q), None))
    if st.kind in COMPARABLE:
        cands.append(("max", max, max, lambda q: max(q), None))
        cands.append(("min", min, min, lambda q: min(q), None))
        cands.append(("two_smallest", two_smallest, two_smallest_agg, lambda q: sorted(q)[:2], Bag))
    if st.kind in HASHABLE:
        cands.append(("set", set_of, union_all, lambda q: frozenset(q), None))
    name, per, agg, pyf, out_type = rng.choice(cands)
    se = rng.choice(SPLITS)
    kw = {}
    if se is not None:
        kw["split_every"] = se
    if out_type is not None:
        kw["out_type"] = out_type
    feats = ["out_type=Bag"] if out_type is not None else []
    mode = "mset" if out_type is not None else "eq"     # two_smallest: ties between equal elements only
    return Step("reduction", "reduction(%s,split_every=%r)" % (name, se), lambda b, s: b.reduction(per, agg, **kw),
                lambda s: Final(_ref(lambda: pyf(list(s.seq))), mode), feats, terminal=True, dyn=_se_dyn(se))


def plan_foldby(rng, st):
    noncall = st.kind in NONCALL_KEYS and rng.random() < 0.3
    if noncall:
        k = rng.choice(NONCALL_KEYS[st.kind])
        kf = operator.itemgetter(k)
        kdesc = repr(k)
    elif st.kind in KEYS:
        k = kf = rng.choice(KEYS[st.kind])
        kdesc = _fn(k)
    else:
        raise NotApplicable
    # (name, binop, initial, combine, combine_initial, value kind)
    cands = [("count", count_binop, 0, operator.add, 0, "I"), ("count-noci", count_binop, 0, operator.add, NO, "I")]
    if st.kind == "I":
        cands += [("add", operator.add, NO, None, NO, "I"), ("add0", operator.add, 0, None, NO, "I"),
                  ("add0/add0", operator.add, 0, operator.add, 0, "I"), ("max", max, NO, None, NO, "I"),
                  ("max/max", max, NO, max, NO, "I")]
    if st.kind in COMPARABLE and st.kind != "I":
        cands += [("max", max, NO, None, NO, st.kind), ("min", min, NO, min, NO, st.kind)]
    if st.kind in HASHABLE:
        cands.append(("set", add_to_set, frozenset(), frozenset.union, frozenset(), "X"))
    if st.kind == "D":
        cands.append(("sum_v", sum_v, 0, operator.add, 0, "I"))
    name, binop, initial, combine, cinit, vkind = rng.choice(cands)
    se = rng.choice(SPLITS)
    kw = {}
    if initial is not NO:
        kw["initial"] = initial
    if combine is not None:
        kw["combine"] = combine
    if cinit is not NO:
        kw["combine_initial"] = cinit
    if se is not None:
        kw["split_every"] = se

    def ref(s):
        def go():
            groups = {}
            for x in s.seq:
                groups.setdefault(kf(x), []).append(x)
            if initial is NO:
                return [(g, functools.reduce(binop, v)) for g, v in groups.items()]
            return [(g, functools.reduce(binop, v, initial)) for g, v in groups.items()]
        return St("KV", None, _ref(go), False, ("X", vkind))
    feats = ["key=non-callable" if noncall else "key=callable", "initial" if initial is not NO else "no-initial"]
    if combine is not None:
        feats.append("combine")
    if cinit is not NO:
        feats.append("combine_initial")
    return Step("foldby", "foldby(%s,%s,split_every=%r)" % (kdesc, name, se), lambda b, s: b.foldby(k, binop, **kw), ref, feats, dyn=_se_dyn(se))


def plan_groupby(rng, st):
    if st.kind not in KEYS:
        raise NotApplicable
    g = rng.choice(KEYS[st.kind])
    shuffle = rng.choice(("tasks", "tasks", "disk", "disk", None))
    kw = {}
    feats = []
    cfg = None
    if shuffle is not None:
        kw["shuffle"] = shuffle
        feats.append("shuffle=" + shuffle)
    else:
        # no shuffle= argument: the method comes from the configuration ("dataframe.shuffle.method"; "p2p" is
        # documented in the code as "not implemented for bags" and replaced by "tasks"), "disk" without it
        cfg = rng.choice((None, "disk", "tasks", "p2p"))
        feats.append("shuffle=default" if cfg is None else "shuffle=config:" + cfg)
    if g is odd_none_half:
        feats.append("key=None/float")
    if shuffle != "tasks":
        npo = rng.choice((None, None, 1, 2, 3, 7))
        if npo is not None:
            kw["npartitions"] = npo
            feats.append("npartitions")
        # the default blocksize (2**20 elements per spill block) costs ~0.15 s per input partition in
        # toolz.partition_all alone; most disk cases pass a small documented blocksize= instead
        # (2 or 7 elements per block also exercises several appends per partition)
        if rng.random() < 0.9 or (st.nparts or 9) > 3:
            kw["blocksize"] = rng.choice((2, 7, 1000))
            feats.append("blocksize")
    dyn = None
    if shuffle == "tasks" or cfg in ("tasks", "p2p"):
        mb = rng.choice((None, 2, 2, 3, 32))
        if mb is not None:
            kw["max_branch"] = mb
            feats.append("max_branch")
        dyn = lambda n: ["multi-stage"] if n > (mb or 32) else []   # noqa: E731

    def ref(s):
        groups = {}
        for x in s.seq:
            groups.setdefault(g(x), []).append(x)
        return St("G", None, list(groups.items()), False, ("X", s.kind))
    # partd fsyncs every append: on a shared box that costs up to seconds per case, so most disk shuffles are
    # pointed at a run-private tmpfs directory through the documented ``temporary_directory`` setting
    tmpfs = shuffle != "tasks" and _TMPFS is not None and rng.random() < 0.85
    if shuffle != "tasks" and not tmpfs:
        feats.append("default-tempdir")

    def dask_fn(b, s):
        import dask

        conf = {}
        if tmpfs:
            conf["temporary_directory"] = _TMPFS
        if cfg is not None:
            conf["dataframe.shuffle.method"] = cfg
        if conf:
            with dask.config.set(conf):
                return b.groupby(g, **kw)
        return b.groupby(g, **kw)
    return Step("groupby", "groupby(%s,%s%s)" % (_fn(g), ",".join("%s=%r" % kv for kv in sorted(kw.items())), (",config=" + cfg) if cfg else ""),
                dask_fn, ref, feats, dyn=dyn)


def group_len(k, v): return (k, len(v))


def plan_group_follow(rng, st):
    """the natural continuations of a groupby: per-group aggregate"""
    if st.kind != "G":
        raise NotApplicable
    return Step("starmap", "starmap(group_len)", lambda b, s: b.starmap(group_len),
                lambda s: St("KV", None, [(k, len(v)) for k, v in s.seq], False, ("X", "I")), ["after-groupby"])


def plan_join(rng, st):
    import dask
    import dask.bag as db

    if st.kind not in G.KINDS:
        raise NotApplicable
    on_self = rng.choice(KEYS[st.kind])
    r = rng.random()
    if r < 0.5:
        # other of the same kind, same key on both sides
        other = G.gen_seq(rng, st.kind, 8)
        on_other = None
        ko = on_self
    else:
        # other = (key, payload) pairs built from keys that occur (and some that do not)
        keys = [on_self(x) for x in st.seq[:6]] + [on_self(G.gen_elem(rng, st.kind)) for _ in range(3)]
        rng.shuffle(keys)
        other = [(k, i) for i, k in enumerate(keys[: rng.randint(0, 7)])]
        on_other = p_first
        ko = p_first
    form = rng.choice(("list", "tuple", "tuple", "delayed", "delayed-call", "bag1", "bag1", "bag1-lazy", "bagN" if rng.random() < 0.15 else "list"))

    def dask_fn(b, s):
        if form == "list":
            o = list(other)
        elif form == "tuple":
            o = tuple(other)
        elif form == "delayed":
            o = dask.delayed(tuple(other), traverse=False)
        elif form == "delayed-call":
            o = dask.delayed(tuple)(list(other))
        elif form == "bag1":
            o = db.from_sequence(list(other), npartitions=1)
        elif form == "bag1-lazy":      # the single partition of other is a lazily evaluated chain read by every partition of b
            o = db.from_sequence(list(other), npartitions=1).map(ident).filter(always)
        else:
            o = db.from_sequence(list(other) + list(other), npartitions=3)
            if o.npartitions == 1:
                raise NotImplementedError("harness: could not build a multi-partition other")
        if on_other is None:
            return b.join(o, on_self)
        return b.join(o, on_self, on_other)

    def ref(s):
        return Final([(o, x) for x in s.seq for o in other if ko(o) == on_self(x)], "mset")
    return Step("join", "join(%s other[%d],%s,%s)" % (form, len(other), _fn(on_self), _fn(on_other) if on_other else None),
                dask_fn, ref, ["other=" + form] + (["on_other"] if on_other else []), terminal=True)


def plan_product(rng, st):
    if len(st.seq) > 25:
        raise NotApplicable
    if rng.random() < 0.2:
        return Step("product", "product(self)", lambda b, s: b.product(b),
                    lambda s: Final([(x, y) for x in s.seq for y in s.seq], "mset"), ["self"], terminal=True)
    kind2 = rng.choice(("I", "S", "P", "D"))
    seq2 = G.gen_seq(rng, kind2, 8)
    lay2 = G.gen_layout(rng, len(seq2), maxparts=4)

    def dask_fn(b, s):
        b2, _ = G.build_bag(seq2, lay2)
        return b.product(b2)
    multi = G.build_bag(seq2, lay2)[0].npartitions > 1      # every partition of b is then read by several tasks
    return Step("product", "product(other[%d] %s)" % (len(seq2), lay2["style"]), dask_fn,
                lambda s: Final([(x, y) for x in s.seq for y in seq2], "mset"), ["other-npartitions>1"] if multi else [], terminal=True)


ACCS = {"I": [("add", operator.add, 0, 10), ("mul", operator.mul, 1, 2), ("max", max, -9, 3)],
        "S": [("add", operator.add, "", "q"), ("max", max, "", "b")],
        "P": [("add", operator.add, (), (7,))], "T": [("add", operator.add, (), ("i",))], "L": [("add", operator.add, [], [0])]}


def plan_accumulate(rng, st):
    if not st.ordered or st.kind not in ACCS:
        raise NotApplicable
    name, binop, ident_, ini = rng.choice(ACCS[st.kind])
    if rng.random() < 0.3:
        ini = ident_        # a falsy initial (0, "", (), []) is a value like any other and is emitted first
    if rng.random() < 0.5:
        def ref(s):
            out = list(itertools.accumulate(s.seq, binop))
            if s.parts is None:
                return St(_acc_kind(s.kind), None, out, True)
            return St(_acc_kind(s.kind), G.split_by_lens(out, [len(p) for p in s.parts]), None, True)
        return Step("accumulate", "accumulate(%s)" % name, lambda b, s: b.accumulate(binop), ref, ["no-initial"])
    return Step("accumulate", "accumulate(%s,initial=%r)" % (name, ini), lambda b, s: b.accumulate(binop, initial=ini),
                lambda s: St(_acc_kind(s.kind), None, list(itertools.accumulate(s.seq, binop, initial=ini)), True),
                ["initial"] + (["initial=falsy"] if not ini else []))


def _acc_kind(kind):
    return kind if kind in ("I", "S") else "X"   # concatenated tuples/lists: opaque afterwards


def plan_take(rng, st):
    if not st.ordered:
        raise NotApplicable
    n = len(st.seq)
    k = rng.choice((0, 1, 2, 3, 5, n, n + 2, rng.randint(0, n + 1)))
    if st.parts is None or rng.random() < 0.4:
        npo = -1
    else:
        npo = rng.choice((1, 1, 2, 3, st.nparts, -1))
        if npo > st.nparts:
            npo = st.nparts
    lazy = rng.random() < 0.3
    warn = rng.random() < 0.35      # warn=True (the default): "a warning will be raised and any found rows returned"

    def avail(s):
        return list(s.seq) if npo == -1 else list(itertools.chain.from_iterable(s.parts[:npo]))

    def ref(s):
        return Final(avail(s)[:k], "list")

    def dask_fn(b, s):
        if lazy:
            return b.take(k, npartitions=npo, compute=False, warn=warn)
        return list(b.take(k, npartitions=npo, warn=warn))
    feats = ["npartitions=-1" if npo == -1 else ("npartitions=1" if npo == 1 else "npartitions>1")] + (["compute=False"] if lazy else [])
    if warn:
        feats.append("warn")
        if len(avail(st)) < k:
            feats.append("warn&short")
    return Step("take", "take(%d,npartitions=%d%s%s)" % (k, npo, ",compute=False" if lazy else "", ",warn=True" if warn else ""),
                dask_fn, ref, feats, terminal=True)


def plan_repartition(rng, st):
    if rng.random() < 0.6:
        n = rng.choice((1, 2, 3, 4, 5, 7, 11, 16))
        return Step("repartition", "repartition(npartitions=%d)" % n, lambda b, s: b.repartition(npartitions=n),
                    lambda s: St(s.kind, None, list(s.seq), s.ordered, s.sub), ["npartitions"],
                    dyn=lambda m: ["shrink" if n < m else ("grow" if n > m else "same")])
    size = rng.choice((40, 64, 100, 200, 500, 1000, "1kB", "200B"))
    return Step("repartition", "repartition(partition_size=%r)" % (size,), lambda b, s: b.repartition(partition_size=size),
                lambda s: St(s.kind, None, list(s.seq), s.ordered, s.sub), ["partition_size"])


def plan_zip(rng, st):
    import dask.bag as db

    if st.kind not in MAPS:
        raise NotApplicable
    r = rng.random()
    if rng.random() < 0.12:
        return Step("zip", "zip(b,b)", lambda b, s: db.zip(b, b), lambda s: _elementwise(s, lambda x: (x, x), "X"), ["same-bag-arg"])
    if r < 0.45 or st.parts is None:
        f, _ = rng.choice(MAPS[st.kind])
        return Step("zip", "zip(b,b.map(%s))" % _fn(f), lambda b, s: db.zip(b, b.map(f)),
                    lambda s: _elementwise(s, lambda x: (x, f(x)), "P" if (st.kind == "I" and f in (inc, dbl, neg, sq, mod3, ident)) else "X"), ["derived"])
    if r < 0.6:
        f, _ = rng.choice(MAPS[st.kind])
        return Step("zip", "zip(b,b.map(%s),b)" % _fn(f), lambda b, s: db.zip(b, b.map(f), b),
                    lambda s: _elementwise(s, lambda x: (x, f(x), x), "X"), ["derived", "three"])
    # an independent bag with the same partition lengths
    base = rng.randint(0, 50)

    def dask_fn(b, s):
        lens = [len(p) for p in s.parts]
        other, _ = G.build_bag([base + i for i in range(sum(lens))], {"style": "delayed", "lens": lens, "how": "call"})
        return db.zip(b, other)

    def ref(s):
        out, i = [], 0
        for p in s.parts:
            out.append([(x, base + i + j) for j, x in enumerate(p)])
            i += len(p)
        return St("X", out, None, s.ordered)
    return Step("zip", "zip(b,other-same-lengths)", dask_fn, ref, ["independent"])


def plan_concat(rng, st):
    import dask.bag as db

    if st.kind not in G.KINDS:
        raise NotApplicable
    seq2 = G.gen_seq(rng, st.kind, 12)
    lay2 = G.gen_layout(rng, len(seq2), maxparts=5)
    three = rng.random() < 0.25
    selfcat = rng.random() < 0.15

    def dask_fn(b, s):
        b2, _ = G.build_bag(seq2, lay2)
        if selfcat:
            return db.concat([b, b])
        return db.concat([b, b2, b]) if three else db.concat([b, b2])

    def ref(s):
        if selfcat:
            add = [s.seq]
        else:
            add = [seq2, s.seq] if three else [seq2]
        seq = list(s.seq)
        for a in add:
            seq = seq + list(a)
        return St(s.kind, None, seq, s.ordered, s.sub)
    return Step("concat", "concat(%s)" % ("self" if selfcat else "other[%d] %s%s" % (len(seq2), lay2["style"], ",self" if three else "")),
                dask_fn, ref, ["self"] if selfcat else (["three"] if three else []))


def _plan_stat(name):
    def plan(rng, st):
        se = rng.choice(SPLITS)
        kw = {} if se is None else {"split_every": se}
        sf = []
        dy = _se_dyn(se)
        if name == "count":
            return Step("count", "count(%r)" % se, lambda b, s: b.count(**kw), lambda s: Final(len(s.seq), "eq"), sf, terminal=True, dyn=dy)
        if name in ("any", "all"):
            py = any if name == "any" else all
            return Step(name, "%s(%r)" % (name, se), lambda b, s: getattr(b, name)(**kw), lambda s: Final(py(s.seq), "eq"), sf, terminal=True, dyn=dy)
        if name in ("min", "max"):
            if st.kind not in COMPARABLE:
                raise NotApplicable
            py = min if name == "min" else max
            return Step(name, "%s(%r)" % (name, se), lambda b, s: getattr(b, name)(**kw),
                        lambda s: Final(_ref(lambda: py(s.seq)), "eq"), sf, terminal=True, dyn=dy)
        if st.kind != "I":
            raise NotApplicable
        if name == "sum":
            return Step("sum", "sum(%r)" % se, lambda b, s: b.sum(**kw), lambda s: Final(sum(s.seq), "eq"), sf, terminal=True, dyn=dy)
        if name == "mean":
            def ref(s):
                return Final(_ref(lambda: float(fractions.Fraction(sum(s.seq), len(s.seq)))), "float", math.sqrt(_scale(s.seq)))
            return Step("mean", "mean()", lambda b, s: b.mean(), ref, [], terminal=True)
        ddof = rng.choice((0, 0, 1, 1, 2))

        def refv(s):
            def go():
                n = len(s.seq)
                m2 = fractions.Fraction(sum(x * x for x in s.seq), n)
                m = fractions.Fraction(sum(s.seq), n)
                v = (m2 - m * m) * n / (n - ddof)
                if v < 0:
                    raise RefReject("negative variance (n - ddof < 0)")
                return float(v) if name == "var" else math.sqrt(v)
            return Final(_ref(go), "float", _scale(s.seq) if name == "var" else math.sqrt(_scale(s.seq)))
        return Step(name, "%s(ddof=%d)" % (name, ddof), lambda b, s: getattr(b, name)(ddof=ddof), refv, ["ddof=%d" % ddof], terminal=True)
    return plan


def _scale(seq):
    return (sum(x * x for x in seq) / len(seq)) if seq else 0.0


def plan_to_dataframe(rng, st):
    """``b.to_dataframe(meta=|columns=, optimize_graph=)`` against ``pandas.DataFrame(list(seq), columns=...)`` (rows in
    order, column names, dtypes of the meta; the index is documented as "not particularly meaningful" and ignored)"""
    if not _HAVE_DD or st.kind not in ("P", "T", "D") or not st.ordered:
        raise NotApplicable
    import pandas as pd

    if st.kind == "D":
        cols = rng.choice((["k", "v", "name"], ["name", "k"], ["v", "k", "name", "absent"]))
        dtypes = {"k": "int64", "v": "int64", "name": object, "absent": "float64"}
    else:
        n = 2 if st.kind == "P" else 3
        cols = rng.choice((["u", "v", "w"][:n], ["c%d" % i for i in range(n)]))
        dtypes = dict(zip(cols, (["int64", "int64"] if n == 2 else [object, "int64", "int64"])))
    how = rng.choice(("columns", "columns", "meta-dict", "meta-list", "meta-float"))
    og = rng.random() < 0.7
    kw = {} if og else {"optimize_graph": False}
    if how == "columns":
        # meta is inferred from the first element of the FIRST partition: needs one there
        if st.parts is None or not st.parts or not st.parts[0]:
            how = "meta-dict"
        else:
            kw["columns"] = list(cols)
    if how == "meta-dict":
        kw["meta"] = {c: dtypes[c] for c in cols}
    elif how == "meta-list":
        kw["meta"] = [(c, dtypes[c]) for c in cols]
    elif how == "meta-float":     # the meta asks for another dtype than the data has: partitions are cast
        dtypes = {c: ("float64" if d == "int64" else d) for c, d in dtypes.items()}
        kw["meta"] = {c: dtypes[c] for c in cols}

    def ref(s):
        def go():
            rows = list(s.seq)
            if how == "columns":
                meta = pd.DataFrame(rows[:1], columns=list(cols))
                df = pd.DataFrame(rows, columns=list(cols)).astype(meta.dtypes.to_dict())
            else:
                df = pd.DataFrame(rows, columns=list(cols)).astype({c: dtypes[c] for c in cols})
            return _frame_value(df)
        return Final(_ref(go), "eq")

    def dask_fn(b, s):
        return _frame_value(b.to_dataframe(**kw).compute())
    return Step("to_dataframe", "to_dataframe(%s%s)" % (how + ":" + ",".join(cols), "" if og else ",optimize_graph=False"), dask_fn, ref,
                [how] + ([] if og else ["optimize_graph=False"]), terminal=True)


def _frame_value(df):
    """what is compared of a frame: column names, dtype kinds, rows in order (missing values as None)"""
    import pandas as pd

    rows = []
    for rec in df.astype(object).itertuples(index=False, name=None):
        rows.append(tuple(None if (v is None or (isinstance(v, float) and v != v) or v is pd.NA) else (v.item() if hasattr(v, "item") else v) for v in rec))
    return {"columns": [str(c) for c in df.columns], "kinds": [("O" if dt.kind in "OUT" else dt.kind) for dt in df.dtypes], "rows": rows}


_HAVE_DD = False


PLANNERS = {
    "unzip": plan_unzip, "persist": plan_persist, "to_delayed": plan_to_delayed, "to_dataframe": plan_to_dataframe,
    "map": plan_map, "starmap": plan_starmap, "filter": plan_filter, "remove": plan_remove, "map_partitions": plan_map_partitions,
    "pluck": plan_pluck, "flatten": plan_flatten, "distinct": plan_distinct, "frequencies": plan_frequencies, "topk": plan_topk,
    "fold": plan_fold, "reduction": plan_reduction, "foldby": plan_foldby, "groupby": plan_groupby, "join": plan_join,
    "product": plan_product, "accumulate": plan_accumulate, "take": plan_take, "repartition": plan_repartition, "zip": plan_zip,
    "concat": plan_concat,
    "count": _plan_stat("count"), "sum": _plan_stat("sum"), "mean": _plan_stat("mean"), "std": _plan_stat("std"), "var": _plan_stat("var"),
    "min": _plan_stat("min"), "max": _plan_stat("max"), "any": _plan_stat("any"), "all": _plan_stat("all"),
}
OPS = tuple(PLANNERS)
# heavier weight for the mechanisms the property anchors name
FORCED = OPS + ("groupby", "groupby", "foldby", "fold", "reduction", "accumulate", "repartition", "take", "distinct", "topk", "frequencies")
PREFIX_OPS = ("map", "filter", "remove", "map_partitions", "pluck", "flatten", "starmap", "distinct", "frequencies", "foldby",
              "groupby", "accumulate", "repartition", "zip", "concat", "map", "filter", "persist", "to_delayed")
START_KINDS = {  # element kinds on which a forced op can start directly
    "starmap": ("P", "T"), "pluck": ("P", "T", "D"), "flatten": ("S", "P"), "sum": ("I",), "mean": ("I",), "std": ("I",), "var": ("I",),
    "min": COMPARABLE, "max": COMPARABLE, "frequencies": HASHABLE, "accumulate": ("I", "S", "P", "T"),
    "unzip": ("P", "T"), "to_dataframe": ("P", "T", "D"),
}

# ---------------------------------------------------------------------------
# parameter audit: families that the random planners produce too rarely are FORCED in a second stream.  A family is
# (forced op, feature the last step must have, start kinds); the planner of the op is re-drawn until the step has it.
AUDIT_FEATS = [
    ("map", "delayed-arg", None), ("map", "delayed-kwarg", None), ("map", "same-bag-arg", None), ("map", "same-bag-kwarg", None),
    ("map", "independent-bag-arg", None), ("map", "mixed-args", None),
    ("starmap", "delayed-kwarg", ("P",)), ("starmap", "item-kwarg", ("P",)),
    ("map_partitions", "bag-arg", None), ("map_partitions", "bag-kwarg", None), ("map_partitions", "same-bag-arg", None),
    ("map_partitions", "same-bag-kwarg", None), ("map_partitions", "item-arg", None), ("map_partitions", "delayed-arg", None),
    ("map_partitions", "delayed-kwarg", None),
    ("pluck", "key=list", ("P", "T", "D")), ("pluck", "default=falsy", ("D",)), ("unzip", None, ("P", "T")),
    ("topk", "key=non-callable", ("P", "T", "D")), ("topk", "key=multi-arg", ("P",)),
    ("fold", "out_type=Bag", None), ("fold", "split_every=False", None), ("reduction", "out_type=Bag", COMPARABLE),
    ("reduction", "split_every=False", None), ("frequencies", "split_every=False", HASHABLE), ("topk", "split_every=False", None),
    ("foldby", "split_every=False", None), ("foldby", "combine_initial", None), ("count", "split_every=False", None),
    ("groupby", "shuffle=config:disk", None), ("groupby", "shuffle=config:tasks", None), ("groupby", "shuffle=config:p2p", None),
    ("groupby", "key=None/float", ("I",)),
    ("join", "other=bag1-lazy", None), ("join", "other=delayed-call", None), ("join", "on_other", None),
    ("accumulate", "initial=falsy", ("I", "S", "P", "T")), ("take", "warn&short", None), ("take", "warn", None), ("zip", "same-bag-arg", None),
    ("var", "ddof=2", ("I",)), ("std", "ddof=2", ("I",)), ("var", "ddof=1", ("I",)),
    ("to_dataframe", "columns", ("P", "T", "D")), ("to_dataframe", "meta-float", ("P", "T", "D")), ("to_dataframe", "optimize_graph=False", ("P", "T", "D")),
]
# cross-cutting classes: a pre-step in front of the forced op, a layout class, the threaded scheduler behind a lazily
# evaluated GIL-yielding step (operations that keep state per task see their tasks interleaved)
AUDIT_MODS = ("pre:persist", "pre:to_delayed", "pre:repartition", "thr:yield", "thr:yield", "lay:many", "lay:deep", "lay:bigseq", "lay:fs", "lay:range")
MOD_OPS = ("distinct", "frequencies", "topk", "fold", "reduction", "foldby", "groupby", "accumulate", "take", "count", "sum", "mean", "var",
           "min", "max", "any", "all", "join", "product", "zip", "concat", "repartition", "map", "filter", "map_partitions", "flatten", "pluck",
           "starmap", "std", "remove")


# operations whose tasks keep state while they consume a partition (counters, heaps, accumulators, spill files ...)
THR_OPS = ("distinct", "frequencies", "topk", "fold", "reduction", "foldby", "groupby", "accumulate", "take", "count", "sum", "mean", "var",
           "join", "product", "zip", "repartition", "flatten", "max")


def _slug(text):
    return "".join(ch if ch.isalnum() else "_" for ch in text)


def cases(tier, seed):
    rng = random.Random(seed * 15485863 + 48)
    n = 9000 if tier == "quick" else 150000
    for i in range(n):
        yield {"op": FORCED[i % len(FORCED)], "cs": rng.randrange(2 ** 31)}
    # the GROWING direction: every old partition of length L is split k ways by slicing at float positions
    # int(L / k * i); whether the last slice reaches the end depends on the pair (L, k), so the pairs are a grid:
    # L x k x (number of old partitions N); and repartition(partition_size=) with a size that forces a k-way split
    topL = 130 if tier == "quick" else 400
    for L in range(1, topL + 1):
        for k in range(2, 17):
            for N in (1, 2, 3):
                yield {"op": "repartition-grow", "L": L, "k": k, "N": N, "how": "npartitions"}
            yield {"op": "repartition-grow", "L": L, "k": k, "N": 1 + (L + k) % 2, "how": "partition_size"}
    # parameter-audit stream (see AUDIT_FEATS / AUDIT_MODS)
    na = (36 if tier == "quick" else 540)
    for j in range(na):
        for op, feat, _ in AUDIT_FEATS:
            yield {"op": op, "want": feat, "cs": rng.randrange(2 ** 31)}
    nm = (150 if tier == "quick" else 2250)
    for j in range(nm):
        for k, mod in enumerate(AUDIT_MODS):
            ops = THR_OPS if mod == "thr:yield" else MOD_OPS
            yield {"op": ops[(j * (2 if mod == "thr:yield" else 1) + k) % len(ops)], "mod": mod, "cs": rng.randrange(2 ** 31)}
    # repartition(npartitions=) over a grid of (current, requested) partition counts: the new boundaries come from
    # floating-point arithmetic on the two counts, so many pairs have to be seen, not a handful of small ones
    top = 34 if tier == "quick" else 130
    for N in range(1, top + 1):
        for m in range(1, N + 3):
            if tier == "quick" or N <= 48 or rng.random() < 0.25:
                yield {"op": "repartition-grid", "N": N, "m": m, "k": rng.choice((1, 1, 2, 3)), "lazy": rng.random() < 0.4}


_TMPFS = None


def shard_setup(tier, seed):
    import atexit
    import os
    import shutil
    import tempfile
    import warnings

    global _TMPFS
    warnings.simplefilter("ignore")
    _ensure_dd()
    if os.path.isdir("/dev/shm") and os.access("/dev/shm", os.W_OK):
        _TMPFS = tempfile.mkdtemp(prefix="vf-c48-", dir="/dev/shm")
        atexit.register(shutil.rmtree, _TMPFS, True)


def _ensure_dd():
    """dask.dataframe (for Bag.to_dataframe) through the harness' pyarrow import stub; without it the family is skipped"""
    global _HAVE_DD
    if not _HAVE_DD:
        try:
            from vf.gen import frames

            frames.setup()
            _HAVE_DD = True
        except Exception:  # noqa: BLE001
            _HAVE_DD = False


def shard_finish():
    import shutil

    if _TMPFS:
        shutil.rmtree(_TMPFS, ignore_errors=True)
    return {}


# ---------------------------------------------------------------------------
# comparison

def _norm_groups(v):
    return [(k, sorted(G.canon(x) for x in grp)) for k, grp in v]


def compare(got, fin, ordered_hint=True):
    """-> None when equal, else a symptom word"""
    mode, exp = fin.mode, fin.value
    if mode == "eq":
        return None if G.canon(got) == G.canon(exp) else "values"
    if mode == "float":
        if not isinstance(got, float):
            return "type"
        tol = 1e-9 * max(abs(exp), fin.extra or 0.0, 1e-300)
        return None if abs(got - exp) <= tol else "values"
    if not isinstance(got, (list, tuple)):
        return "type"
    got = list(got)
    if mode == "list":
        if [G.canon(x) for x in got] == [G.canon(x) for x in exp]:
            return None
        return "order" if G.multiset(got) == G.multiset(exp) else "values"
    if mode == "mset":
        return None if G.multiset(got) == G.multiset(exp) else "values"
    if mode == "groups":
        try:
            return None if G.multiset(_norm_groups(got)) == G.multiset(_norm_groups(exp)) else "values"
        except Exception:  # noqa: BLE001 - result not shaped as (key, group) pairs
            return "values"
    if mode == "freq-sorted":
        if G.multiset(got) != G.multiset(exp):
            return "values"
        cnt = [c for _, c in got]
        return None if all(a >= b for a, b in zip(cnt, cnt[1:])) else "order"
    if mode == "distinct-key":
        kf, seq = fin.extra
        want = {}
        for x in seq:
            want.setdefault(G.canon(kf(x)), set()).add(G.canon(x))
        seen = set()
        for x in got:
            try:
                kk = G.canon(kf(x))
            except Exception:  # noqa: BLE001
                return "values"
            if kk in seen or kk not in want or G.canon(x) not in want[kk]:
                return "values"
            seen.add(kk)
        return None if len(seen) == len(want) else "values"
    if mode == "topk":
        kf, seq = fin.extra
        try:
            ks = [kf(x) for x in got]
        except Exception:  # noqa: BLE001
            return "values"
        if G.multiset(got) - G.multiset(seq):
            return "values"
        if [G.canon(x) for x in ks] == [G.canon(x) for x in exp]:
            return None
        return "order" if G.multiset(ks) == G.multiset(exp) else "values"
    raise AssertionError(mode)


def _final_of(st):
    if st.kind == "G":
        return Final(st.seq, "groups")
    return Final(st.seq, "list" if st.ordered else "mset")


# ---------------------------------------------------------------------------
# execution

def _run(steps, states, bag, sched):
    """apply the steps to the real bag and compute; -> ('ok', value) | ('exc', exception) | ('unsupported', msg)"""
    import dask

    try:
        with dask.config.set(_sched_config(sched)):
            obj = bag
            for step, st in zip(steps, states):
                obj = step.dask(obj, st)
            if hasattr(obj, "compute"):
                obj = obj.compute()
        return "ok", obj
    except NotImplementedError as e:
        return "unsupported", str(e)
    except G_TIMEOUT:
        raise
    except Exception as e:  # noqa: BLE001
        return "exc", e


def _sched_config(sched):
    if sched == "threads4":
        return {"scheduler": "threads", "num_workers": 4}
    return {"scheduler": sched}


def _symptom(steps, states, bag, fin, sched):
    tag, val = _run(steps, states, bag, sched)
    if tag == "unsupported":
        return None, tag, val
    if tag == "exc":
        return exc_label(val), tag, val
    return compare(val, fin), tag, val


def _bag_of(parts, how="delayed"):
    """diagnosis only: a fresh bag with exactly these partitions; how='literal' gives the graph shape of
    from_sequence (partitions are literal lists in the graph; "Create manually (expert use)" in Bag's docstring)"""
    if how == "literal":
        import dask.bag as db
        from dask.base import tokenize

        name = "from_sequence-" + tokenize([list(p) for p in parts])
        return db.Bag({(name, i): list(p) for i, p in enumerate(parts)}, name, len(parts))
    bag, _ = G.build_bag([x for p in parts for x in p], {"style": "delayed", "lens": [len(p) for p in parts], "how": "call"})
    return bag


def _psym(steps, st_in, parts, sched, how="delayed"):
    """run a (sub-)pipeline on a fresh from_delayed bag with the given partitions -> symptom | None | 'ref-reject'"""
    st = St(st_in.kind, [list(p) for p in parts], None, st_in.ordered, st_in.sub)
    states = [st]
    try:
        for step in steps[:-1]:
            out = step.ref(states[-1])
            if isinstance(out, Final):
                return "ref-reject"
            states.append(out)
        out = steps[-1].ref(states[-1])
    except G_TIMEOUT:
        raise
    except Exception:  # noqa: BLE001 - RefReject, or a step that does not fit the reduced pipeline
        return "ref-reject"
    fin = out if isinstance(out, Final) else _final_of(out)
    sym, _, _ = _symptom(steps, states, _bag_of(parts, how), fin, sched)
    return sym


def _shrink(keeps, parts, budget=160):
    """greedy reduction of the partition list while ``keeps(candidate)`` stays true"""
    cur = [list(p) for p in parts]
    tries = [0]

    def ok(cand):
        if tries[0] >= budget:
            return False
        tries[0] += 1
        return keeps(cand)

    changed = True
    while changed and tries[0] < budget:
        changed = False
        cand = [p for p in cur if p]
        if len(cand) != len(cur) and cand and ok(cand):
            cur, changed = cand, True
        if len(cur) > 1:
            cand = [[x for p in cur for x in p]]
            if ok(cand):
                cur, changed = cand, True
        i = 0
        while i < len(cur) and len(cur) > 1:
            cand = cur[:i] + cur[i + 1:]
            if ok(cand):
                cur, changed = cand, True
            else:
                i += 1
        for i in range(len(cur)):
            j = 0
            while j < len(cur[i]):
                cand = [list(p) for p in cur]
                del cand[i][j]
                if ok(cand):
                    cur, changed = cand, True
                else:
                    j += 1
    return cur


ELEMENTWISE = ("map", "starmap", "filter", "remove", "pluck", "flatten", "map_partitions")
# operation variants that read their input bag from two tasks (zip(b, b.map(f)), b.map(f, b.count()), b.product(b) ...)
TWICE_FEATS = frozenset(("bag-arg", "bag-kwarg", "item-arg", "item-kwarg", "self", "derived", "three", "other-npartitions>1",
                         "same-bag-arg", "same-bag-kwarg"))


# features that exist for the coverage counters only (one mechanism = one label: they must not multiply labels)
COUNT_ONLY_FEATS = frozenset(("split_every>npartitions", "three-levels", "warn"))


def _pipe_names(steps):
    """names used in labels of failures that need the whole pipeline: earlier steps by class, a last step that
    reads its input twice by that property (the mechanism), otherwise by name"""
    last = steps[-1]
    names = ["elementwise" if s.name in ELEMENTWISE else s.name for s in steps[:-1]]
    if TWICE_FEATS.intersection(last.feats) and "self" not in last.feats and any(s.name in ("concat", "repartition") for s in steps[:-1]):
        # producer > key-aliasing step > several consumer tasks: one mechanism whatever the consumer is
        return names + ["input-used-twice"], []
    return names + [last.name], None


def _label(steps, parts, sym, how="delayed"):
    """<op>:<features>:<symptom>; for a pipeline that only fails as a whole the earlier steps are named by class"""
    last = steps[-1]
    names, lf = _pipe_names(steps)
    feats = [f for f in (last.features(len(parts) if len(steps) == 1 else None) if lf is None else lf) if f not in COUNT_ONLY_FEATS]
    feats += G.layout_features(parts)
    if how == "literal":
        feats.append("from_sequence")      # needed the graph shape of from_sequence to reproduce
    return "%s:%s:%s" % (">".join(names), "&".join(feats) if feats else "any", sym)


def _actual_parts(steps, states, bag, st_in):
    """partition contents in front of a step whose reference layout is unknown, read back through dask"""
    try:
        import dask

        with dask.config.set(scheduler="sync"):
            obj = bag
            for step, st in zip(steps, states):
                obj = step.dask(obj, st)
            parts = G.parts_of(obj)
    except G_TIMEOUT:
        raise
    except Exception:  # noqa: BLE001
        return None
    if G.multiset(x for p in parts for x in p) != G.multiset(st_in.seq):
        return None
    if st_in.ordered and [G.canon(x) for p in parts for x in p] != [G.canon(x) for x in st_in.seq]:
        return None
    return parts


def _optimize_without_lazify(dsk, keys, fuse_keys=None, **kwargs):
    """dask.bag.core.optimize minus its last pass (diagnosis only)"""
    from dask._task_spec import convert_legacy_graph, cull, fuse_linear_task_spec
    from dask.core import flatten

    dsk = convert_legacy_graph(dsk)
    keys = list(flatten(keys))
    return fuse_linear_task_spec(cull(dsk, keys), keys + (fuse_keys or []))


def _agrees_without_lazify(steps, states, bag, sched):
    import dask

    try:
        out = steps[-1].ref(states[-1])
        fin = out if isinstance(out, Final) else _final_of(out)
        with dask.config.set(bag_optimize=_optimize_without_lazify):
            sym, tag, _ = _symptom(steps, states, bag, fin, sched)
        return tag == "ok" and sym is None
    except G_TIMEOUT:
        raise
    except Exception:  # noqa: BLE001
        return False


def _explain(steps, st_in, parts, sched, how="delayed"):
    st = St(st_in.kind, [list(p) for p in parts], None, st_in.ordered, st_in.sub)
    try:
        states = [st]
        for step in steps[:-1]:
            states.append(step.ref(states[-1]))
        out = steps[-1].ref(states[-1])
        fin = out if isinstance(out, Final) else _final_of(out)
        sym, tag, val = _symptom(steps, states, _bag_of(parts, how), fin, sched)
        exp = G.canon(fin.value)[:300] if fin.value is not None else fin.mode
        return "expected %s, got %s" % (exp, G.canon(val)[:300] if tag == "ok" else "%s: %s" % (type(val).__name__, val))
    except Exception as e:  # noqa: BLE001
        return "(could not re-run: %r)" % (e,)


def _diagnose(ctx, steps, states, bag, parts, layout, sym, sched, detail):
    """isolate the failing step, shrink the witness, label it"""
    hows = ["delayed"] if layout["style"] == "delayed" else ["delayed", "literal"]
    # 0. a failure of a threaded run that the synchronous scheduler does not show is about interleaved tasks: no layout
    #    predicate can be established by shrinking (timing), the label names the operation
    if sched != "sync":
        try:
            out = steps[-1].ref(states[-1])
            fin0 = out if isinstance(out, Final) else _final_of(out)
            again, _, _ = _symptom(steps, states, bag, fin0, sched)
            sym_sync, tag_sync, _ = _symptom(steps, states, bag, fin0, "sync")
        except G_TIMEOUT:
            raise
        except Exception:  # noqa: BLE001
            again, sym_sync, tag_sync = None, "?", "exc"
        if tag_sync == "ok" and sym_sync is None:
            lazy = any("gil-yield" in s_.feats for s_ in steps[:-1])
            detail.update(diagnosis="agrees with the reference on the synchronous scheduler", reproduced_on_threads=again is not None)
            ctx.violation("%s:only-on-threads%s:%s" % (steps[-1].name, "&gil-yielding-lazy-input" if lazy else "", "values" if sym in ("values", "order") else sym),
                          "pipeline %s on the threaded scheduler: expected %s got %s (correct on the synchronous scheduler)"
                          % (detail["pipeline"], detail["expected"][:300], detail["got"][:300]), **detail)
            return
    for i, step in enumerate(steps):
        st_in = states[i]
        iparts = st_in.parts
        if iparts is None:
            iparts = _actual_parts(steps[:i], states[:i], bag, st_in) or [list(st_in.seq)]
        for how in hows:
            s1 = _psym([step], st_in, iparts, sched, how)
            if s1 is None or s1 == "ref-reject":
                continue
            mini = _shrink(lambda cand: _psym([step], st_in, cand, sched, how) == s1, iparts)
            detail.update(minimal_partitions=mini, isolated=step.desc)
            ctx.violation(_label([step], mini, s1, how), "%s on partitions %r: %s"
                          % (step.desc, mini, _explain([step], st_in, mini, sched, how)), **detail)
            return
    # 2. only the pipeline as a whole fails.  Root-cause probe on the ORIGINAL bag (same key names): the same pipeline
    #    computed with the bag optimisation minus its ``lazify`` pass.  If that agrees with the reference, the failure
    #    is a partition left lazily evaluated by ``lazify`` and read more than once; label by how it is read.
    if _agrees_without_lazify(steps, states, bag, sched):
        last = steps[-1]
        if last.name == "product" and "self" in last.feats:
            how_read = "product(self)"
        elif "same-bag-arg" in last.feats or "same-bag-kwarg" in last.feats:
            how_read = "same-partition-twice-in-one-task"      # zip(b, b), b.map(f, b), b.map_partitions(f, q=b)
        elif "item-arg" in last.feats or "item-kwarg" in last.feats:
            how_read = "item-argument"
        elif TWICE_FEATS.intersection(last.feats):
            how_read = "input-used-twice"
        else:
            how_read = last.name
        detail.update(diagnosis="agrees with the reference when bag.core.lazify is skipped")
        ctx.violation("lazify:%s:%s" % (how_read, sym),
                      "pipeline %s: expected %s got %s (correct without the lazify optimisation)"
                      % (detail["pipeline"], detail["expected"][:300], detail["got"][:300]), **detail)
        return
    # 3. drop steps, then shrink the data
    st0 = states[0]
    for how in hows:
        if _psym(steps, st0, parts, sched, how) == sym:
            break
    else:
        # not reproducible on a rebuilt bag (depends on key names / graph order / thread timing): label the pipeline
        # shape only, no layout predicate can be established
        names, lf = _pipe_names(steps)
        feats = [f for f in (steps[-1].features(None) if lf is None else lf) if f not in COUNT_ONLY_FEATS] + ["unshrunk"]
        ctx.violation("%s:%s:%s" % (">".join(names), "&".join(feats), sym),
                      "pipeline %s: expected %s got %s" % (detail["pipeline"], detail["expected"][:300], detail["got"][:300]), **detail)
        return
    cur = list(steps)
    # shortest suffix that still fails when its input is materialised as a fresh bag
    for j in range(len(steps) - 2, 0, -1):
        st_j = states[j]
        pj = st_j.parts
        if pj is None:
            pj = _actual_parts(steps[:j], states[:j], bag, st_j) or [list(st_j.seq)]
        if _psym(steps[j:], st_j, pj, sched, how) == sym:
            cur, st0, parts = list(steps[j:]), st_j, pj
            break
    j = 0
    while j < len(cur) - 1:
        cand = cur[:j] + cur[j + 1:]
        if _psym(cand, st0, parts, sched, how) == sym:
            cur = cand
        else:
            j += 1
    mini = _shrink(lambda cand: _psym(cur, st0, cand, sched, how) == sym, parts)
    desc = ">".join(s.desc for s in cur)
    detail.update(minimal_partitions=mini, isolated=desc)
    ctx.violation(_label(cur, mini, sym, how), "%s on partitions %r: %s" % (desc, mini, _explain(cur, st0, mini, sched, how)), **detail)


def _plan_wanted(rng, name, st, want):
    """the planner of ``name`` re-drawn until the step has the feature ``want``"""
    if want is None:
        return PLANNERS[name](rng, st)
    for _ in range(120):
        try:
            step = PLANNERS[name](rng, st)
        except RefReject:
            continue
        if want in step.features(st.nparts):
            return step
    raise NotApplicable


def _plan_pipeline(rng, forced, st0, want=None, pre=None):
    """typed random prefix + the forced last operation.  ``pre``: names (name, wanted feature) of the steps that must
    stand directly in front of the forced operation (behind a lazily evaluated elementwise step)."""
    for attempt in range(40):
        r = rng.random()
        nprefix = 0 if r < 0.62 else (1 if r < 0.87 else 2)
        if attempt > 25:
            nprefix = min(nprefix, 1)
        plan = [(rng.choice(PREFIX_OPS), None) for _ in range(nprefix)]
        if pre:
            plan = [(rng.choice(("map", "filter", "map", "remove", "pluck", "flatten")), None)] * (1 if rng.random() < 0.8 else 0) + list(pre)
        steps, states = [], [st0]
        try:
            for name, pwant in plan:
                if states[-1].kind == "G":
                    step = plan_group_follow(rng, states[-1])
                else:
                    step = _plan_wanted(rng, name, states[-1], pwant)
                if step.terminal or "generator-result" in step.feats:
                    # a partition that is a one-shot generator cannot feed two consumers (zip(b, b.map(f)), Item
                    # arguments, repartition(partition_size) ...): generator results only as the LAST step
                    raise NotApplicable
                out = step.ref(states[-1])
                if isinstance(out, Final):
                    raise NotApplicable
                steps.append(step)
                states.append(out)
            if states[-1].kind == "G" and forced not in ("count",):
                raise NotApplicable
            step = _plan_wanted(rng, forced, states[-1], want)
            steps.append(step)
            return steps, states
        except NotApplicable:
            continue
        except RefReject:
            continue
    return None, None


def _start_kind(rng, forced, attempt=0):
    ks = START_KINDS.get(forced)
    if ks and (attempt or rng.random() < 0.7):
        return rng.choice(ks)
    return rng.choice(G.KINDS)


def _run_repartition_grid(case, ctx):
    import dask.bag as db

    N, m, k = case["N"], case["m"], case["k"]
    ctx.op("repartition-grid")
    ctx.count("op_repartition_grid")
    L = list(range(N * k))
    b = db.from_sequence(L, partition_size=k)
    if b.npartitions != N:
        ctx.reject("from_sequence gave %d partitions, wanted %d" % (b.npartitions, N))
        return
    if case["lazy"]:
        b, L = b.map(inc), [x + 1 for x in L]
    ctx.sig = ("repartition-grid", N, m, k, case["lazy"])
    ctx.nontrivial = N > 1 and m > 1
    feat = "shrink" if m < N else ("grow" if m > N else "same")
    try:
        r = b.repartition(npartitions=m)
        got = r.compute(scheduler="sync")
        parts = G.parts_of(r)
    except Exception as ex:  # noqa: BLE001
        ctx.exception(ex, prefix="repartition:npartitions&%s" % feat)
        return
    if got != L:
        missing = len(L) - len(got)
        ctx.violation("repartition:npartitions&%s:%s" % (feat, "elements-lost" if missing > 0 else "values"),
                      "repartition %d -> %d: %d elements in, %d out" % (N, m, len(L), len(got)))
    elif [x for p_ in parts for x in p_] != L:
        ctx.violation("repartition:npartitions&%s:partitions" % feat, "partitions do not concatenate to the bag")
    elif r.npartitions != len(parts):
        ctx.violation("repartition:npartitions&%s:npartitions" % feat, "declares %d partitions, %d computed" % (r.npartitions, len(parts)))
    elif r.npartitions != m:
        # observation only: the statement is about the elements. (15 -> 13 gives 14 partitions on the pinned tree: the
        # boundaries int(i * 15 / 13) stop short of 15 and the closing guard appends one more.)
        ctx.count("repartition_grid_other_partition_count")
    ctx.sample = {"from": N, "to": m, "elements": len(L)}
    # sibling facet: the same bag repartitioned to another count holds the same elements in other partitions; the two
    # must not share keys (values are compared partition by partition)
    m2 = m + 1 if (m == 1 or (N * 31 + m) % 2) else m - 1
    S.check(ctx, "repartition", "npartitions", r, (lambda: b.repartition(npartitions=m2)),
            compute=S.compute_blocks, compute_many=S.compute_many_blocks, describe={"npartitions": m2})


def _run_repartition_grow(case, ctx):
    """``from_sequence(range(N*L), partition_size=L)`` (N partitions of L elements) repartitioned to N*k partitions, or by
    a ``partition_size=`` that makes every partition too large by the factor k: the elements must all still be there,
    in order; the partitions must concatenate to the bag and be as many as declared."""
    import dask
    import dask.bag as db
    from dask.sizeof import sizeof

    L, k, N, how = case["L"], case["k"], case["N"], case["how"]
    ctx.op("repartition-grow:" + how)
    seq = list(range(N * L))
    b = db.from_sequence(seq, partition_size=L)
    if b.npartitions != N:
        ctx.reject("from_sequence gave %d partitions, wanted %d" % (b.npartitions, N))
        return
    ctx.sig = ("repartition-grow", how, L, k, N)
    ctx.nontrivial = L > 1
    if how == "npartitions":
        ctx.count("op_repartition_grow_grid")
        feat, arg = "npartitions&grow", {"npartitions": N * k}
    else:
        # 1 + mem // size == k  <=>  mem / k < size <= mem / (k - 1)
        mem = sizeof(seq[:L])
        size = max(1, mem // (k - 1))
        if 1 + mem // size < 2:
            ctx.reject("no partition_size splits a partition of %d bytes %d ways" % (mem, k))
            return
        ctx.count("op_repartition_size_split_grid")
        if 1 + mem // size == k:
            ctx.count("repartition_size_split_exactly_k_ways")
        feat, arg = "partition_size&split", {"partition_size": size}
    try:
        with dask.config.set(scheduler="sync"):      # repartition(partition_size=) computes the partition sizes itself
            r = b.repartition(**arg)
            got = r.compute()
            parts = G.parts_of(r) if (L + k + N) % 4 == 0 else None
    except Exception as ex:  # noqa: BLE001
        ctx.exception(ex, prefix="repartition:%s" % feat)
        return
    if got != seq:
        missing = len(seq) - len(got)
        ctx.violation("repartition:%s:%s" % (feat, "elements-lost" if missing > 0 else "values"),
                      "repartition(%s) of %d partitions of %d elements: %d elements in, %d out" % (arg, N, L, len(seq), len(got)), L=L, k=k, N=N)
    elif parts is not None and [x for p_ in parts for x in p_] != seq:
        ctx.violation("repartition:%s:partitions" % feat, "partitions do not concatenate to the bag", L=L, k=k, N=N)
    elif parts is not None and r.npartitions != len(parts):
        ctx.violation("repartition:%s:npartitions" % feat, "declares %d partitions, %d computed" % (r.npartitions, len(parts)), L=L, k=k, N=N)
    elif how == "npartitions" and r.npartitions != N * k:
        ctx.count("repartition_grow_other_partition_count")     # observation only: the statement is about the elements
    ctx.sample = {"old_partitions": N, "length": L, "arg": arg, "new_partitions": r.npartitions}


def run_case(case, ctx):
    forced = case["op"]
    if forced == "repartition-grid":
        return _run_repartition_grid(case, ctx)
    if forced == "repartition-grow":
        return _run_repartition_grow(case, ctx)
    _ensure_dd()
    rng = random.Random(case["cs"])
    want, mod = case.get("want"), case.get("mod")
    fam = None
    if want is not None or (mod is None and "want" in case):
        fam = "%s:%s" % (forced, want or "any")
    elif mod is not None:
        fam = mod
    pre = {"pre:persist": [("persist", None)], "pre:to_delayed": [("to_delayed", None)], "pre:repartition": [("repartition", None)],
           "thr:yield": [("map", "gil-yield")]}.get(mod)
    kinds_wanted = None
    if "want" in case:
        kinds_wanted = [k for o, f, k in AUDIT_FEATS if o == forced and f == want][0]
    for attempt in range(4 if fam else 3):
        if kinds_wanted:
            kind = rng.choice(kinds_wanted)
        elif mod in ("lay:range",):
            kind = "I"
        else:
            kind = _start_kind(rng, forced, attempt)
        if mod == "lay:bigseq":
            L = G.gen_seq_big(rng, kind, 101, 260)
            layout = rng.choice(({"style": "np", "n": rng.choice((2, 3, 7, 12, 30))}, {"style": "fs"}, {"style": "ps", "s": rng.choice((13, 50, 100))}))
        elif mod == "lay:range":
            L = list(range(rng.choice((0, 1, 2, 3, 5, 7, 10, 12, 24, 31, 40))))
            layout = {"style": "range", "n": rng.choice((1, 2, 3, 4, 5, 7, 12))}
        elif mod == "thr:yield":
            # several partitions of several elements each, so that the tasks of different threads really overlap
            n = rng.randint(12, 40)
            pool = [G.gen_elem(rng, kind) for _ in range(rng.randint(2, 4))] if rng.random() < 0.3 else None
            L = [(dict(x) if isinstance(x, dict) else x) for x in ((rng.choice(pool) if pool else G.gen_elem(rng, kind)) for _ in range(n))]
            nparts = rng.choice((2, 3, 4, 6))
            cuts = sorted(rng.sample(range(1, n // 2), nparts - 1))
            b_ = [0] + [2 * c for c in cuts] + [n]
            layout = {"style": "delayed", "lens": [c - a for a, c in zip(b_, b_[1:])], "how": "call"}
        else:
            L = G.gen_seq(rng, kind, 40)
            if mod == "lay:many":
                layout = G.gen_layout_many(rng, len(L), 13, 40)
            elif mod == "lay:deep":
                layout = G.gen_layout_many(rng, len(L), 65, 72)
            elif mod == "lay:fs":
                layout = {"style": "fs"}
            else:
                layout = G.gen_layout(rng, len(L))
        try:
            bag, parts = G.build_bag(L, layout)
        except Exception as ex:  # noqa: BLE001 - a constructor that refuses a sequence/partition count
            ctx.nontrivial = len(L) > 0
            ctx.sig = ("constructor", layout, len(L))
            ctx.exception(ex, prefix="%s:%s" % ({"range": "range", "fs": "from_sequence", "np": "from_sequence", "ps": "from_sequence"}.get(layout["style"], "from_delayed"),
                                                "&".join(_ctor_feats(L, layout)) or "any"))
            return
        if parts is None:
            parts = G.parts_of(bag)
            if [G.canon(x) for p in parts for x in p] != [G.canon(x) for x in L]:
                ctx.violation("%s:%s:values" % ("range" if layout["style"] == "range" else "from_sequence", layout["style"]),
                              "partitions %r do not concatenate to %r" % (parts, L))
                return
        st0 = St(kind, parts)
        steps, states = _plan_pipeline(rng, forced, st0, want, pre)
        if steps is not None:
            break
    if steps is None:
        ctx.reject("no typed pipeline ending in %s%s for kind %s" % (forced, "[%s]" % want if want else "", kind))
        if fam:
            ctx.count("aud_unplanned")
        return
    if mod == "thr:yield":
        sched = "threads4"
    else:
        sched = "threads" if rng.random() < 0.12 else "sync"
    # reference of the last step
    try:
        out = steps[-1].ref(states[-1])
    except RefReject as e:
        ctx.reject("python reference: %s" % e)
        ctx.op("rejected:" + forced)
        return
    fin = out if isinstance(out, Final) else _final_of(out)

    names = [s.name for s in steps]
    desc = ">".join(s.desc for s in steps)
    ctx.nontrivial = len(L) > 0
    ctx.sig = (desc, [G.canon(x) for x in L], [len(p) for p in parts], layout["style"], sched)
    for nm in names:
        ctx.op(nm)
        ctx.count("op_" + nm)
    ctx.op("kind:" + kind)
    ctx.op("layout:" + layout["style"])
    ctx.op("pipeline-length:%d" % len(steps))
    ctx.distinct("pipelines", desc)
    if len(steps) > 1:
        ctx.count("multi_step_pipelines")
    if any(len(p) == 0 for p in parts) and len(parts) > 1:
        ctx.count("empty_partition_cases")
        if forced in ("fold", "reduction", "foldby", "accumulate", "groupby", "topk", "frequencies", "distinct") or forced in STATS:
            ctx.count("empty_partition_in_reduction")
    for s, sti in zip(steps, states):
        fs = s.features(sti.nparts)
        for f in fs:
            if f in ("multi-level", "multi-stage", "shuffle=tasks", "shuffle=disk", "three-levels"):
                ctx.count(s.name + "_" + f.replace("=", "_").replace("-", "_"))
        if "combine_initial" in fs and "multi-level" in fs:
            ctx.count("foldby_combine_initial_multi_level")
    if sched in ("threads", "threads4"):
        ctx.count("threads_runs")
    # audit families: counted only when the real call produced a result that was compared (an operation that refuses a
    # parameter class - NotImplementedError - must not fill the floor of that class)
    aud = []
    lastf = steps[-1].features(states[-1].nparts)
    for f in lastf:
        if (forced, f) in _AUDIT_KEYS:
            aud.append("aud_%s_%s" % (forced, _slug(f)))
    if forced == "unzip":
        aud.append("aud_unzip_any")
    if len(steps) > 1 and steps[-2].name in ("persist", "to_delayed"):
        aud.append("aud_pre_" + steps[-2].name)
    if len(steps) > 1 and steps[-2].name == "repartition" and mod == "pre:repartition":
        aud.append("aud_pre_repartition")
    if sched == "threads4" and len(steps) > 1 and "gil-yield" in steps[-2].feats:
        aud.append("aud_thr_yield")
        if len(parts) > 1 and sum(1 for p_ in parts if p_) > 1:
            aud.append("aud_thr_yield_several_nonempty_partitions")
    if mod and mod.startswith("lay:"):
        aud.append("aud_" + _slug(mod))
        if mod == "lay:deep" and "three-levels" in lastf:
            aud.append("aud_default_split_three_levels")

    sym, tag, val = _symptom(steps, states, bag, fin, sched)
    if tag == "unsupported":
        ctx.unsupported(val)
        return
    ctx.count("results_compared" if tag == "ok" else "exceptions_seen")
    if tag == "ok":
        for name in aud:
            ctx.count(name)
    ctx.sample = {"pipeline": desc, "kind": kind, "lens": [len(p) for p in parts], "layout": layout["style"], "scheduler": sched,
                  "input": L[:8], "result": G.canon(val)[:160] if tag == "ok" else repr(val)[:160],
                  "compare": fin.mode}
    if tag == "ok":
        _siblings(ctx, case, forced, steps, states, bag, val)
    if sym is None:
        return

    # ---- a witness: isolate the failing step, shrink, label ---------------------------
    detail = {"pipeline": desc, "lens": [len(p) for p in parts], "layout": layout, "scheduler": sched, "input": L,
              "expected": G.canon(fin.value)[:600] if fin.value is not None else fin.mode,
              "got": (G.canon(val)[:600] if tag == "ok" else "%s: %s" % (type(val).__name__, val))}
    _diagnose(ctx, steps, states, bag, parts, layout, sym, sched, detail)


def _siblings(ctx, case, forced, steps, states, bag, val):
    """Sibling facet: the same prefix followed by the same LAST operation with other arguments (planned again from a
    private stream: another function / key / k / split_every / initial / other bag ...) must not share keys with the
    case's result, and both must keep their stand-alone value when computed in one graph.  Eager results (take without
    compute=False) are not collections: nothing to observe."""
    import dask

    if forced in ("unzip", "to_dataframe"):
        return      # eager results: no collection to observe
    srng = S.rng_for(case)
    step2 = None
    for _ in range(6):
        try:
            cand = PLANNERS[forced](srng, states[-1])
        except (NotApplicable, RefReject):
            continue
        if cand.desc != steps[-1].desc:
            step2 = cand
            break
    if step2 is None:
        ctx.count("siblings_not_built")
        return
    try:
        with dask.config.set(scheduler="sync"):
            pre = bag
            for step, st in zip(steps[:-1], states):
                pre = step.dask(pre, st)
            a = steps[-1].dask(pre, states[-1])
    except G_TIMEOUT:
        raise
    except Exception:  # noqa: BLE001
        ctx.count("siblings_not_built")
        return

    def build():
        with dask.config.set(scheduler="sync"):
            return step2.dask(pre, states[-1])

    S.check(ctx, forced, "arguments", a, build, va=val, same=_same_result, describe={"last_step": step2.desc})


def _same_result(x, y):
    """Equality of two computed results as far as bag operations promise it.  The order of the elements of a result
    (and of the members of a group) is not promised by groupby / foldby / distinct / frequencies / join ..., and with a
    disk shuffle it changes with the order in which the tasks of the graph ran: the facet asks WHICH elements a
    collection holds.  (First version compared lists in order: false alarm `groupby:arguments:differs-when-computed-
    with-sibling`, same groups in another order.)"""
    if isinstance(x, (list, tuple)) and isinstance(y, (list, tuple)):
        return len(x) == len(y) and _bagkey(x) == _bagkey(y)
    return G.canon(x) == G.canon(y)


def _bagkey(seq):
    import collections

    out = []
    for e in seq:
        if isinstance(e, tuple) and len(e) == 2 and isinstance(e[1], list):
            out.append("(%s,[%s])" % (G.canon(e[0]), ",".join(sorted(G.canon(v) for v in e[1]))))
        else:
            out.append(G.canon(e))
    return collections.Counter(out)


STATS = ("count", "sum", "mean", "std", "var", "min", "max", "any", "all")
_AUDIT_KEYS = frozenset((o, f) for o, f, _ in AUDIT_FEATS if f is not None)


def _ctor_feats(L, layout):
    f = []
    if layout["style"] in ("range", "np") and len(L) < layout["n"]:
        f.append("n<npartitions")
    if not L and not f:
        f.append("empty-sequence")
    return f
