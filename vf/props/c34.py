"""C34 — array creation routines are chunk-invariant and equal NumPy.

Monitor: NumPy differential.  Every case names one creation routine, its arguments and a
``chunks`` specification (int, tuple of ints, 'auto', -1, mixed tuple, irregular explicit
chunks — whatever the routine's signature accepts); the routine is called on the real
dask.array, computed (sync; a seeded tenth on threads) and compared with the NumPy routine
of the same name on the same arguments: shape, dtype, values (exact; float arange/linspace
within an eps(dtype)-scaled tolerance), the lazy .shape/.dtype and ``sum(chunks) == shape``;
on a tenth every block is computed separately and compared with its slice of the whole.

Calibration
* arange with an integer dtype and a non-integer start/stop/step reproduces a NumPy quirk
  (first two elements are truncated, then extrapolated): excluded from the generator.
* float arange: NumPy computes start + i*((start+step)-start) in the output dtype, dask computes
  blockstart = start + n*step per chunk: equal within n*eps(dtype)*max(|start|,|stop|).
* arange with an unsigned dtype whose mathematical values (or stop) leave the dtype's range wraps around in NumPy
  (value dependent, OverflowError for some positions): excluded from the generator.  (The repository's own
  test_arange_cast_float_int_step is an xfail for the same reason: "edge behavior is not specified by NumPy".)
* empty/empty_like: values are arbitrary by definition; only shape/dtype/chunks are compared.
* exceptions re-raised by the backend dispatch wrapper (backends.py:wrapper) are classified by their __cause__;
  'auto' next to a zero-length non-auto dimension gets one label whatever the routine (it is C23's finding).
* da.eye with M > N and a chunk size > N: missing blocks, blocks of the wrong shape and wrong values are one
  mechanism and get one label (blocks-inconsistent-with-chunks).
* eye accepts only an int or str chunks argument (documented); tri uses only the first chunk
  size of each axis (values/shape/dtype/sum(chunks) are still what the statement demands).
* meshgrid returns a tuple in NumPy 2 and a list before: the container type is not compared.

* Parameter audit: with a float32 scalar as start/stop NumPy derives the linspace grid in float32 (NEP 50) and casts
  afterwards: values and the returned step are compared at float32 resolution then.  arange gets NumPy scalars of
  int32/int64/float64 only (dask derives block starts in the argument's precision, NumPy's float64 result is derived in
  double).  A nested list cannot express a zero-length axis next to other axes (no list input for such *_like cases).
  ``like=`` is generated for arange and tri only (their signatures name it); da.ones/zeros/full document ``meta=``.

Parameter audit (input classes added after the seeded-defect rounds; each has a counter with a floor): chunks as a bytes
string ("16 B") and as a dict {axis: size}; explicit irregular chunks with >= 3 blocks and a short block before a longer
one on the longest axis; axes of 300-900 elements with blocks of more than 255 elements (arange, linspace, eye, tri);
arange with mixed int/float arguments, NumPy-scalar arguments, stop=/step= keywords, like= (NumPy / dask array);
linspace with NumPy-scalar start/stop (float32 decides the default dtype); eye with N up to 12; tri with like=;
diagonal of a NumPy array; meshgrid with 2-d inputs (flattened) and Python scalars; ones/zeros/full/empty with shape as
ndarray / tuple of NumPy ints / shape= keyword and with meta= (same or another dtype: must not leak); *_like of a nested
list, of a dask array with unknown chunk sizes (map_blocks path) and with shape= given as an int.

Sibling facet (vf/mon/siblings.py): every case is also built a second time with ONE result-relevant parameter changed
(another stop / num / endpoint / k / M / offset / dtype / fill value / function / indexing / sparse / chunks).
The two lazily built collections must not share output keys unless their stand-alone values are equal (label
``<op>:<param>-not-in-name:siblings-share-keys``); for a seeded ~15 % of the cases both are also computed in one graph and
compared with their stand-alone values (``<op>:<param>:differs-when-computed-with-sibling``).  Counters siblings_built /
siblings_computed_together / siblings_with_different_values have floors.
"""
from __future__ import annotations

import math
import random
import warnings

import numpy as np

from ..core.ctx import dask_frame, exc_label
from ..gen import arrays as A
from ..mon import siblings as S
from ..mon.compare import blocks_mismatch, compare_arrays, lazy_meta_mismatch

PROP = "C34"
RULE = ("cases = (routine, arguments, chunks specification). Complete part: arange(n) for n<=6 under every explicit "
        "chunking (composition) and every int chunk size 1..n+1; eye(n) for n<=6, k in {-1,0,1}, every int chunk size "
        "1..n+1; tri(n) for n<=5 under every pair of explicit chunkings and every int chunk size. Random part: arange "
        "(neg/fractional/large start, dtype), linspace (endpoint, retstep, dtype, num 0/1), eye (N, M, k, dtype), "
        "diag, diagonal, indices, meshgrid, fromfunction, tri, ones/zeros/full/empty and *_like with dtype/chunks/"
        "shape overrides, like= / meta=, NumPy-scalar and mixed int/float arguments, list / unknown-chunk inputs; chunks specs "
        "int | tuple | 'auto' | -1 | mixed | bytes | dict | explicit irregular (>= 3 blocks, blocks > 255). non-trivial = the "
        "result (or an input for diag/diagonal/meshgrid) is split into >= 2 chunks on some axis; distinct = distinct "
        "(routine, arguments, chunks).")
ASSUMPTIONS = ["NumPy 2.x defines the expected values and dtype", "sync scheduler (threads for a tenth)"]
BUDGET = {"quick": 90, "thorough": 560}
FLOORS = {"quick": {"evaluations": 2500, "distinct_nontrivial": 1050,
                    "counters": {"compared": 2600, "lazy_meta_checked": 2600, "blocks_checked": 220, "retstep_compared": 90},
                    "sets": {"chunk_spec_kinds": 30}, "max_skipped_fraction": 0.15},
          "thorough": {"evaluations": 45000, "distinct_nontrivial": 18000,
                       "counters": {"compared": 46000, "lazy_meta_checked": 46000, "blocks_checked": 4000, "retstep_compared": 1600},
                       "sets": {"chunk_spec_kinds": 36}, "max_skipped_fraction": 0.15}}
# sibling facet (vf/mon/siblings.py): ~45 % of the smallest count of the five quick seeds on the unchanged tree; thorough =
# quick floor x (thorough / quick stream size) x 0.6.  A run in which the facet never executed is INCONCLUSIVE.
FLOORS["quick"]["counters"].update({"siblings_built": 2300, "siblings_computed_together": 345, "siblings_with_different_values": 310})
FLOORS["thorough"]["counters"].update({"siblings_built": 25000, "siblings_computed_together": 3700, "siblings_with_different_values": 3300})
# parameter audit: input classes (~45 % of the smallest count of the five quick seeds; thorough = quick floor x 20 (stream ratio) x 0.6)
_AUDIT = {"arange_keyword_form": 34, "arange_mixed_int_float": 28, "arange_negative_step": 57, "args_numpy_scalars": 75,
          "chunks_bytes": 163, "chunks_dict": 121, "diagonal_numpy_input": 29, "layout_block_over_255": 29,
          "layout_irregular_ge3_blocks": 140, "like_argument": 79, "like_input_dask-nan": 26, "like_input_list": 21,
          "like_shape_int": 12, "meshgrid_2d_or_scalar_input": 45, "negative_k": 177, "wrap_meta_argument": 56,
          "wrap_shape_form_kw": 24, "wrap_shape_form_ndarray": 28, "wrap_shape_form_npint": 25}
FLOORS["quick"]["counters"].update(_AUDIT)
FLOORS["thorough"]["counters"].update({k: int(v * 20 * 0.6) for k, v in _AUDIT.items()})
FLOORS["quick"]["sets"].update({"chunk_spec_kinds": 45, "irregular3_ops": 11})
FLOORS["thorough"]["sets"].update({"chunk_spec_kinds": 50, "irregular3_ops": 12})
EXHAUSTIVE_SPACE = ("arange(n), n<=6 x all explicit chunkings and int chunk sizes 1..n+1; eye(n), n<=6 x k in {-1,0,1} x int "
                    "chunk sizes 1..n+1; tri(n), n<=5 x all pairs of explicit chunkings and int chunk sizes 1..n+1")
CLAIM = ("Every generated creation call was executed by the real dask.array and compared with the NumPy routine on the "
         "same arguments (shape, dtype, values; eps-scaled tolerance only for float arange/linspace), with its own lazy "
         "metadata (chunks add up to the shape) and, on a tenth, block by block; held = no mismatch and no dask "
         "exception inside the domain on the executions observed.")
LEVEL_NOTE = "NumPy is the reference; chunk specifications limited to the forms each routine documents"
TECHNIQUE = "runtime monitoring: NumPy differential oracle over generated creation calls and complete small chunking spaces"
PENDING = {
    # parameter audit (fix patch /verif/fixes_ready/C34_01_linspace_default_dtype_follows_arguments.patch)
    "linspace:float32-scalar-arg&dtype=None:dtype":
        "da.linspace(np.float32(0), np.float32(1), n) returns float64, np.linspace float32: the default dtype ignores start/stop",
    "eye:M>N&chunk>N:blocks-inconsistent-with-chunks":
        "da.eye(N, chunks=c, M=M) with M > N and c > N (or 'auto'/-1): the clipped row chunk size N is reused as the column "
        "chunk size, the graph lacks blocks / holds blocks of the wrong shape ('Missing dependency', wrong values)",
    "eye:N==0&M>0:ZeroDivisionError@array/core.py:<genexpr>":
        "da.eye(0, M=M>0): the row chunk size 0 is reused as the column chunk size -> ZeroDivisionError (NumPy: empty (0, M))",
    "linspace:div<=0:step":
        "da.linspace(..., retstep=True) with num - endpoint <= 0 returns step = stop - start (or its negative), NumPy returns nan",
    "linspace:int-dtype:values":
        "da.linspace(dtype=int) with several chunks: per-chunk start/stop are re-derived with float rounding and then floored, "
        "elements on exact integer grid points (incl. the endpoint) come out one too small; depends on the chunking",
    "diag:1d-input&in=dask&k!=0&zero-length:ZeroDivisionError@array/core.py:<genexpr>":
        "da.diag(empty 1-d dask array, k != 0) raises ZeroDivisionError in pad/get_pad_shapes_chunks (NumPy: zeros((|k|, |k|)))",
    "chunks-auto:zero-length-non-auto-dim:ZeroDivisionError@array/core.py:auto_chunks":
        "chunks tuple mixing 'auto' with a zero-length dimension that is not 'auto' -> ZeroDivisionError in auto_chunks for every "
        "creation routine (same mechanism as the C23 finding, DESIGN section 6 #22)",
}

DT = [None, "int64", "int32", "float64", "float32", "bool", "complex128", "uint8"]
FRAC = [-2.5, -1.1, -0.3, 0.1, 0.25, 0.5, 0.7, 1.5, 2.2, 3.3, 1 / 3, 0.01, 1e-3, 2.0, -1.0]
FUNCS = ["add", "lin", "gt", "first", "const", "kw"]
FILLS = [0, 3, -2, 2.5, True, ("float32", 1.5), ("int8", 7), 1j, ("uint8", 200), float("nan")]


# ---------------------------------------------------------------------------------------------
# chunk specifications
# ---------------------------------------------------------------------------------------------

def _irr3(rng, n):
    """explicit irregular chunking of one axis with >= 3 blocks whose block sizes are not 'equal with a short last one':
    a short block sits before a longer one (needs n >= 4)"""
    if n < 4:
        return list(A.rand_comp(rng, n))
    for _ in range(20):
        k = rng.randint(2, min(n - 1, 5))
        cuts = sorted(rng.sample(range(1, n), k))
        b = [0] + cuts + [n]
        c = [y - x for x, y in zip(b, b[1:])]
        if _is_irr3(c):
            return c
    return [1, n - 3, 2]


def _is_irr3(c):
    """>= 3 blocks and the layout is not what an int chunk size gives (all equal, last one shorter or equal)"""
    c = list(c)
    return len(c) >= 3 and (len(set(c[:-1])) > 1 or c[-1] > c[0])


def _spec(rng, shape, kinds=("int", "tuple", "auto", "-1", "mixed", "explicit", "explicit", "irr3", "bytes", "dict")):
    shape = tuple(shape)
    kind = rng.choice(kinds)
    mx = max(shape) if shape else 1
    if kind == "irr3":
        if not shape:
            kind = "explicit"
        else:
            v = [list(c) for c in A.rand_chunks(rng, shape)]
            ax = max(range(len(shape)), key=lambda a: (shape[a], rng.random()))
            v[ax] = _irr3(rng, shape[ax])
            return {"t": "explicit", "v": v}
    if kind == "bytes":
        # a size in bytes ("16 B"): every axis is chosen by dask from the byte budget (documented chunks form)
        return {"t": "bytes", "v": rng.choice((8, 16, 24, 32, 64, 100, 256, 1024))}
    if kind == "dict":
        # {axis: block size}; axes that are left out are not split
        if not shape:
            return {"t": "dict", "v": []}
        axes = [a for a in range(len(shape)) if rng.random() < 0.7] or [rng.randrange(len(shape))]
        return {"t": "dict", "v": [[a, rng.choice((rng.randint(1, max(shape[a], 1) + 1), -1))] for a in axes]}
    if kind == "int":
        return {"t": "int", "v": rng.randint(1, mx + 1)}
    if kind == "tuple":
        return {"t": "tuple", "v": [rng.randint(1, max(s, 1) + 1) for s in shape]}
    if kind == "mixed":
        return {"t": "mixed", "v": [rng.choice((-1, "auto", rng.randint(1, max(s, 1)), None)) for s in shape]}
    if kind == "explicit":
        return {"t": "explicit", "v": [list(c) for c in A.rand_chunks(rng, shape)]}
    return {"t": kind}


def _chunks_arg(spec):
    t = spec["t"]
    if t == "int":
        return spec["v"]
    if t == "auto":
        return "auto"
    if t == "-1":
        return -1
    if t in ("tuple", "mixed"):
        return tuple(spec["v"])
    if t == "explicit":
        return tuple(tuple(c) for c in spec["v"])
    if t == "bytes":
        return "%d B" % spec["v"]
    if t == "dict":
        return {int(a): c for a, c in spec["v"]}
    raise AssertionError(t)


def _fill(i):
    s = FILLS[i]
    return np.dtype(s[0]).type(s[1]) if isinstance(s, tuple) else s


def _num(rng, frac):
    if frac:
        return rng.choice(FRAC) if rng.random() < 0.7 else rng.randint(-40, 40) / 8
    return rng.randint(-6, 12)


# ---------------------------------------------------------------------------------------------
# case stream
# ---------------------------------------------------------------------------------------------

def cases(tier, seed):
    rng = random.Random(seed * 7877 + 34)
    # ---- complete sub-spaces --------------------------------------------------------------
    for n in range(0, 7):
        for comp in A.compositions(n):
            yield {"space": "exhaustive", "op": "arange", "args": [n], "dtype": None, "chunks": {"t": "explicit", "v": [list(comp)]}}
        for c in range(1, n + 2):
            yield {"space": "exhaustive", "op": "arange", "args": [n], "dtype": None, "chunks": {"t": "int", "v": c}}
            for k in (-1, 0, 1):
                yield {"space": "exhaustive", "op": "eye", "N": n, "M": None, "k": k, "dtype": None,
                       "chunks": {"t": "int", "v": c}}
    for n in range(0, 6):
        for c0 in A.compositions(n):
            for c1 in A.compositions(n):
                yield {"space": "exhaustive", "op": "tri", "N": n, "M": None, "k": 0, "dtype": None,
                       "chunks": {"t": "explicit", "v": [list(c0), list(c1)]}}
        for c in range(1, n + 2):
            yield {"space": "exhaustive", "op": "tri", "N": n, "M": None, "k": 0, "dtype": None, "chunks": {"t": "int", "v": c}}
    # ---- random part --------------------------------------------------------------------------
    n = 5000 if tier == "quick" else 100000
    ops = ["arange"] * 4 + ["linspace"] * 4 + ["eye"] * 3 + ["diag", "diag", "diagonal", "diagonal", "indices", "indices",
           "meshgrid", "meshgrid", "fromfunction", "fromfunction", "tri", "tri", "wrap", "wrap", "wrap", "like", "like", "like"]
    for _ in range(n):
        op = rng.choice(ops)
        d = {"op": op, "threads": rng.random() < 0.1, "blocks": rng.random() < 0.1}
        if op == "arange":
            d.update(_gen_arange(rng))
        elif op == "linspace":
            num = rng.choice((0, 1, 1, 2, 3, 5, 7, 10, 17, 30))
            frac = rng.random() < 0.6
            d.update({"start": _num(rng, frac), "stop": _num(rng, frac), "num": num, "endpoint": rng.random() < 0.6,
                      "retstep": rng.random() < 0.3, "dtype": rng.choice((None, None, "float64", "float32", "int64", "complex128")),
                      "chunks": _spec(rng, (num,))})
            if rng.random() < 0.15:
                # NumPy scalars as start / stop (their type takes part in NumPy's result dtype)
                d["argt"] = [rng.choice(_NPT_FLOAT if isinstance(d[k], float) else _NPT_INT + _NPT_FLOAT) if rng.random() < 0.8 else None
                             for k in ("start", "stop")]
            if rng.random() < 0.035:
                # a long axis: blocks of more than 255 elements, >= 3 irregular blocks
                num = rng.randint(300, 900)
                d.update({"num": num, "chunks": _spec_long(rng, num)})
        elif op == "eye":
            N = rng.choice((0, 1, 2, 3, 4, 5, 6, 7, 9, 11, 12))
            M = rng.choice((None, None, N, rng.randint(0, 8), rng.randint(0, 8), rng.randint(0, 13)))
            d.update({"N": N, "M": M, "k": rng.choice((0, 0, 0, 1, -1, 2, -2, 3, -3, -5, 5, 9)), "dtype": rng.choice(DT),
                      "chunks": _spec(rng, (max(N, M or 0),), kinds=("int", "int", "int", "int", "auto", "-1", "bytes"))})
            if rng.random() < 0.025:
                d.update(_gen_large2d(rng, tri=False))
        elif op == "tri":
            N = rng.choice((0, 1, 2, 3, 4, 5, 6, 7))
            M = rng.choice((None, None, N, rng.randint(0, 8), rng.randint(0, 8)))
            d.update({"N": N, "M": M, "k": rng.choice((0, 0, 0, 1, -1, 2, -2, 3, -5, 9)), "dtype": rng.choice(DT),
                      "chunks": _spec(rng, (N, N if M is None else M))})
            if rng.random() < 0.25:
                d["like"] = rng.choice(("np", "da"))
            if rng.random() < 0.025:
                d.update(_gen_large2d(rng, tri=True))
        elif op == "diag":
            if rng.random() < 0.5:
                shape = (rng.choice((0, 1, 2, 3, 4, 5, 6, 7)),)
            else:
                shape = (rng.randint(0, 6), rng.randint(0, 6))
                if rng.random() < 0.4:
                    shape = (shape[0], shape[0])
            ch = A.rand_chunks(rng, shape)
            if len(shape) == 2 and shape[0] == shape[1] and rng.random() < 0.5:
                ch = (ch[0], ch[0])  # the k == 0 fast path needs equal chunks on both axes
            d.update({"shape": list(shape), "in": rng.choice(("dask", "dask", "dask", "numpy")), "k": rng.choice((0, 0, 1, -1, 2, -3, 7)),
                      "dtype": rng.choice(A.NUMERIC), "c": [list(c) for c in ch], "seed": rng.randrange(2 ** 31)})
        elif op == "diagonal":
            shape = A.rand_shape(rng, maxnd=4, maxlen=5, minnd=2)
            nd = len(shape)
            ax1 = rng.randrange(-nd, nd)
            ax2 = rng.choice([a for a in range(-nd, nd) if a % nd != ax1 % nd])
            d.update({"shape": list(shape), "offset": rng.choice((0, 0, 1, -1, 2, -2, 4, -6)), "axis1": ax1, "axis2": ax2,
                      "dtype": rng.choice(A.NUMERIC), "c": [list(c) for c in A.rand_chunks(rng, shape)],
                      "seed": rng.randrange(2 ** 31), "in": rng.choice(("dask", "dask", "dask", "dask", "numpy"))})
        elif op == "indices":
            dims = A.rand_shape(rng, maxnd=3, maxlen=5, minnd=0 if rng.random() < 0.05 else 1)
            kinds = ("tuple", "tuple", "auto", "mixed", "explicit", "explicit", "int", "irr3", "bytes", "dict") if dims else ("tuple", "auto")
            d.update({"dims": list(dims), "dtype": rng.choice((None, "int64", "int32", "float64", "uint8", "float32")),
                      "chunks": _spec(rng, dims, kinds=kinds)})
        elif op == "meshgrid":
            k = rng.choice((0, 1, 2, 2, 2, 3, 3))
            ins = []
            for _i in range(k):
                ln = rng.choice((0, 1, 2, 3, 4, 5, 7))
                it = {"n": ln, "in": rng.choice(("dask", "dask", "numpy", "list")), "dtype": rng.choice(A.NUMERIC),
                      "c": list(A.rand_comp(rng, ln)), "seed": rng.randrange(2 ** 31)}
                u = rng.random()
                if u < 0.12:
                    # NumPy flattens n-d inputs: a 2-d input (dask or NumPy)
                    shp = (rng.choice((1, 2, 3)), rng.choice((1, 2, 3)))
                    it.update({"n": shp[0] * shp[1], "shape2": list(shp), "in": rng.choice(("dask", "dask", "numpy")),
                               "c2": [list(c) for c in A.rand_chunks(rng, shp)]})
                elif u < 0.2:
                    it.update({"n": 1, "in": "scalar", "c": [1]})      # a Python scalar is a length-1 coordinate vector
                ins.append(it)
            d.update({"ins": ins, "sparse": rng.random() < 0.4, "indexing": rng.choice(("xy", "ij"))})
        elif op == "fromfunction":
            shape = A.rand_shape(rng, maxnd=3, maxlen=5, minnd=1)
            d.update({"shape": list(shape), "func": rng.choice(FUNCS), "dtype": rng.choice((None, "int64", "float64", "float32", "int32")),
                      "chunks": _spec(rng, shape)})
        elif op == "wrap":
            shape = A.rand_shape(rng, maxnd=3, maxlen=6)
            forms = ("tuple", "tuple", "tuple", "list", "ndarray", "npint", "kw")
            form = rng.choice(forms + ("int", "int")) if len(shape) == 1 else rng.choice(forms)
            kinds = ("int", "tuple", "auto", "-1", "mixed", "explicit", "explicit", "irr3", "bytes", "dict") if shape else ("tuple", "auto")
            d.update({"fn": rng.choice(("ones", "zeros", "full", "full", "empty")), "shape": list(shape), "shape_form": form,
                      "dtype": rng.choice(DT), "fill": rng.randrange(len(FILLS)), "chunks": _spec(rng, shape, kinds=kinds)})
            if rng.random() < 0.25:
                # meta= (documented by the backend entry point): a zero-size NumPy array; its dtype must not leak into the result
                d["meta"] = rng.choice(("same", "float32", "int16"))
        else:  # like
            shape = A.rand_shape(rng, maxnd=3, maxlen=6)
            nshape = None
            if rng.random() < 0.3:
                nshape = list(A.rand_shape(rng, maxnd=3, maxlen=6))
            tshape = tuple(nshape) if nshape is not None else shape
            kinds = ("int", "tuple", "auto", "-1", "mixed", "explicit", "explicit", "irr3", "bytes", "dict") if tshape else ("tuple", "auto")
            src = rng.choice(("dask", "dask", "dask", "dask", "numpy", "numpy", "list", "dask-nan", "dask-nan"))
            if src == "dask-nan" and (not shape or nshape is not None):
                src = "dask"        # unknown chunk sizes need an axis to filter and the input's own shape
            if src == "list" and 0 in shape:
                src = "numpy"       # a nested list cannot express a zero-length axis next to other axes
            if nshape is not None and len(nshape) == 1 and rng.random() < 0.8:
                d["new_shape_int"] = True      # shape= given as an int
            d.update({"fn": rng.choice(("ones_like", "zeros_like", "full_like", "full_like", "empty_like")), "shape": list(shape),
                      "in": src, "adtype": rng.choice(A.NUMERIC),
                      "c": [list(c) for c in A.rand_chunks(rng, shape)], "dtype": rng.choice((None, None) + tuple(DT[1:])),
                      "fill": rng.randrange(len(FILLS)), "new_shape": nshape,
                      "chunks": _spec(rng, tshape, kinds=kinds) if (rng.random() < 0.5 or nshape is not None and rng.random() < 0.7) else None})
        yield d


def _gen_arange(rng):
    for _ in range(50):
        frac = rng.random() < 0.55
        form = rng.choice((1, 2, 3, 3, 3))
        big = rng.random() < 0.04
        if form == 1:
            args = [abs(_num(rng, frac))]
        elif form == 2:
            args = [_num(rng, frac), _num(rng, frac)]
        else:
            step = _num(rng, frac)
            if step == 0:
                continue
            args = [_num(rng, frac), _num(rng, frac), step]
        if big:
            off = rng.choice((10 ** 9, 2 ** 40, 10 ** 12, -10 ** 12))
            off = float(off) if frac else off
            if len(args) == 1:
                args = [off, off + args[0]]
            else:
                args[0] += off
                args[1] += off
        mixed = rng.random() < 0.3
        if mixed:
            # int and float arguments in one call (NumPy's result dtype follows the widest argument)
            args = [(float(a) if isinstance(a, int) else (int(a) if float(a).is_integer() else a)) if rng.random() < 0.5 else a
                    for a in args]
            if len(args) == 3 and args[2] == 0:
                continue
        isfrac = any(isinstance(a, float) and not float(a).is_integer() for a in args)
        isfloat = any(isinstance(a, float) for a in args)
        dtype = rng.choice((None, None, None, "float64", "float32", "int64", "int32", "uint8", "complex128"))
        if dtype in ("int64", "int32", "uint8") and isfloat:
            # Calibration: integer dtype + float arguments is a NumPy quirk (DESIGN section 9)
            dtype = None
        if dtype in ("float32", "int32") and big:
            dtype = None
        with warnings.catch_warnings():
            warnings.simplefilter("ignore")
            try:
                ln = len(np.arange(*args))
            except Exception:  # noqa: BLE001
                continue
        if ln > 40:
            continue
        del isfrac
        if dtype == "uint8":
            # Calibration: values outside the integer dtype's range wrap around in NumPy (value dependent): excluded
            a0 = 0 if len(args) == 1 else args[0]
            st = args[2] if len(args) == 3 else 1
            a1 = args[0] if len(args) == 1 else args[1]
            if min(a0, a1, a0 + st * ln) < 0 or max(a0, a1, a0 + st * ln) > 255:
                dtype = None
        out = {"args": args, "dtype": dtype, "chunks": _spec(rng, (ln,))}
        u = rng.random()
        if u < 0.12 and not big:
            # NumPy scalar arguments (float32 is left out: dask derives block starts in the argument's precision, NumPy's
            # float64 result is derived in double - differences at float32 resolution are not what the statement is about)
            out["argt"] = [rng.choice(_NPT_INT if isinstance(a, int) else ("float64",)) if rng.random() < 0.8 else None for a in args]
        if len(args) >= 2 and rng.random() < 0.15:
            out["kwform"] = True          # arange(start, stop=..., step=...)
        if rng.random() < 0.15:
            out["like"] = rng.choice(("np", "da"))
        if rng.random() < 0.035 and not big:
            # a long axis: blocks of more than 255 elements, >= 3 irregular blocks
            ln = rng.randint(300, 900)
            if len(args) == 1:
                out["args"] = [ln]
            else:
                st = args[2] if len(args) == 3 else 1
                a0 = args[0]
                a1 = a0 + ln * st
                if len(np.arange(a0, a1, st)) != ln:
                    a1 = a0 + (ln - 0.5) * st
                out["args"] = [a0, a1] + ([st] if len(args) == 3 else [])
                if len(np.arange(*out["args"])) != ln:
                    out["args"] = [ln]
                    out.pop("argt", None)
                    out.pop("kwform", None)
            if out["dtype"] in ("uint8", "float32", "int32"):
                out["dtype"] = None
            if any(isinstance(a, float) for a in out["args"]) and out["dtype"] in ("int64",):
                out["dtype"] = None
            out["chunks"] = _spec_long(rng, ln)
            if "argt" in out:
                out["argt"] = [t if (t is None or (t in _NPT_INT) == isinstance(a, int)) else None for t, a in zip(out["argt"], out["args"])]
        return out
    return {"args": [5], "dtype": None, "chunks": {"t": "int", "v": 2}}


_NPT_INT = ("int32", "int64")
_NPT_FLOAT = ("float32", "float64")


def _spec_long(rng, n):
    """chunks of an axis of 300..900 elements: at least one block with more than 255 elements"""
    u = rng.random()
    if u < 0.25:
        return {"t": "int", "v": rng.choice((256, 257, 300))}
    if u < 0.35:
        return {"t": rng.choice(("auto", "-1"))}
    return {"t": "explicit", "v": [_long_explicit(rng, n)]}


def _long_explicit(rng, n):
    a = rng.randint(256, n - 2)         # n >= 258
    rest = n - a
    b = rng.randint(1, rest - 1)
    c = [a, b, rest - b]
    rng.shuffle(c)
    return c


def _gen_large2d(rng, tri):
    """eye / tri with more than 255 rows: the diagonal crosses a block boundary beyond 255"""
    N = rng.randint(260, 330)
    M = rng.choice((None, None, rng.randint(260, 330), rng.randint(3, 40)))
    k = rng.choice((0, 1, -1, 3, -3, 255, -255, 256, -256, 257, -257, N - 1, 1 - N))
    if tri:
        Me = N if M is None else M
        if rng.random() < 0.5:
            ch = {"t": "explicit", "v": [_long_explicit(rng, N), _long_explicit(rng, Me) if Me >= 260 and rng.random() < 0.5 else [Me]]}
        else:
            ch = {"t": "int", "v": rng.choice((100, 256, 257))}
    else:
        ch = {"t": "int", "v": rng.choice((100, 128, 256, 257, 300))}
    return {"N": N, "M": M, "k": k, "chunks": ch, "dtype": rng.choice((None, "int64", "bool", "float32")), "blocks": False}


# ---------------------------------------------------------------------------------------------
# running one case
# ---------------------------------------------------------------------------------------------

def _func(name):
    if name == "add":
        return (lambda *ix: sum(ix)), {}
    if name == "lin":
        return (lambda *ix: sum((10 ** p) * i for p, i in enumerate(ix))), {}
    if name == "gt":
        return (lambda *ix: ix[0] > ix[-1]), {}
    if name == "first":
        return (lambda *ix: ix[0] * 2), {}
    if name == "const":
        return (lambda *ix: ix[0] * 0 + 7), {}
    return (lambda *ix, w=1: ix[-1] * w + 1), {"w": 3}


def _feat(case, extra=()):
    op = case["op"]
    f = []
    if op == "arange":
        a = case["args"]
        step = a[2] if len(a) == 3 else 1
        f.append("frac" if any(isinstance(v, float) and not float(v).is_integer() for v in a) else "integral")
        if step < 0:
            f.append("neg-step")
    elif op == "linspace":
        div = case["num"] - 1 if case["endpoint"] else case["num"]
        if "float32" in (case.get("argt") or ()) and not case["dtype"]:
            f.append("float32-scalar-arg&dtype=None")   # one mechanism whatever num / endpoint: the default dtype ignores the arguments
        elif div <= 0:
            f.append("div<=0")   # NumPy: num - endpoint <= 0
        elif case["dtype"] in ("int64",):
            f.append("int-dtype")   # NumPy floors the float grid: ulp differences become off-by-one
        else:
            f.append("endpoint" if case["endpoint"] else "no-endpoint")
    elif op in ("eye", "tri"):
        N, M = case["N"], case["M"]
        Me = N if M is None else M
        sp = case["chunks"]
        csize = sp["v"] if sp["t"] == "int" else 10 ** 9
        if op == "eye" and N == 0 and Me > 0:
            f.append("N==0&M>0")
        elif op == "eye" and Me > N and csize > N:
            f.append("M>N&chunk>N")
        else:
            if N == 0 or Me == 0:
                f.append("zero-length")
            if Me != N:
                f.append("M!=N")
            if case["k"]:
                f.append("k!=0")
    elif op == "diag":
        f.append("%dd-input" % len(case["shape"]))
        f.append("in=" + case["in"])
        if case["k"]:
            f.append("k!=0")
        if 0 in case["shape"]:
            f.append("zero-length")
    elif op == "diagonal":
        if len(case["shape"]) > 2:
            f.append("nd>2")
        if case["offset"]:
            f.append("offset!=0")
        if case["axis1"] % len(case["shape"]) > case["axis2"] % len(case["shape"]):
            f.append("axis1>axis2")
        if 0 in case["shape"]:
            f.append("zero-length")
    elif op == "indices":
        if 0 in case["dims"]:
            f.append("zero-length")
        if not case["dims"]:
            f.append("0-d")
    elif op == "meshgrid":
        f.append("n=%s" % ("0" if not case["ins"] else "1" if len(case["ins"]) == 1 else ">=2"))
        f.append("sparse" if case["sparse"] else "dense")
        f.append(case["indexing"])
        if any(i["n"] == 0 for i in case["ins"]):
            f.append("zero-length")
    elif op == "fromfunction":
        f.append("func=" + case["func"])
        if 0 in case["shape"]:
            f.append("zero-length")
    elif op in ("wrap", "like"):
        f.append(case["fn"])
        shp = case.get("new_shape") if case.get("new_shape") is not None else case["shape"]
        if 0 in shp:
            f.append("zero-length")
        if not shp:
            f.append("0-d")
        if op == "like":
            f.append("in=" + case["in"])
            if case["new_shape"] is not None:
                f.append("shape=")
            if case["chunks"] is not None:
                f.append("chunks=")
            if case["dtype"]:
                f.append("dtype=")
    f.extend(extra)
    return "&".join(f) if f else "plain"


def _lab(case, symptom):
    f = _feat(case)
    if case["op"] == "eye" and f == "M>N&chunk>N":
        # one mechanism (the first row-chunk size is reused as the column chunk size): missing blocks, blocks of the
        # wrong shape and wrong values are the same defect seen at different (N, M, chunks)
        symptom = "blocks-inconsistent-with-chunks"
    return "%s:%s:%s" % (case["op"], f, symptom)


def _auto_zero(case):
    """An 'auto' entry next to a zero-length dimension that is not 'auto' itself (mixed chunk tuples)."""
    sp = case.get("chunks")
    if not sp or sp["t"] != "mixed" or "auto" not in sp["v"]:
        return False
    if case["op"] == "tri":
        shape = (case["N"], case["N"] if case["M"] is None else case["M"])
    else:
        shape = case.get("new_shape") if case.get("new_shape") is not None else case.get("shape", case.get("dims"))
    if shape is None or len(shape) != len(sp["v"]):
        return False
    return any(s == 0 and c != "auto" for s, c in zip(shape, sp["v"]))


def _exception(ctx, ex, case):
    """Classify a dask exception: the backend dispatch wrapper re-raises with the original as __cause__."""
    root = ex
    while root.__cause__ is not None and dask_frame(root.__cause__) is not None:
        root = root.__cause__
    lab = exc_label(root)
    if lab == "ZeroDivisionError@array/core.py:auto_chunks" and _auto_zero(case):
        # one mechanism whatever the routine: normalize_chunks with 'auto' next to a zero-length non-auto dimension
        ctx.exception(root, prefix="chunks-auto:zero-length-non-auto-dim")
    else:
        if case["op"] == "eye" and _feat(case) == "M>N&chunk>N":
            ctx.violation(_lab(case, ""), "%s: %s" % (type(root).__name__, str(root)[:300]))
        else:
            ctx.exception(root, prefix="%s:%s" % (case["op"], _feat(case)))


def _typed(vals, types):
    """Python numbers, or NumPy scalars of the named types where the case asks for them"""
    if not types:
        return list(vals)
    return [v if t is None else np.dtype(t).type(v) for v, t in zip(vals, types)]


def _like_arg(kind):
    import dask.array as da

    if kind == "np":
        return np.empty((0,), dtype="int8")
    return da.from_array(np.empty((2,), dtype="int8"), chunks=1)


def run_case(case, ctx, _only_build=False):
    import dask.array as da

    op = case["op"]
    ctx.op(op if op not in ("wrap", "like") else case["fn"])
    ctx.sig = {k: v for k, v in case.items() if k not in ("threads", "blocks", "space")}
    spec = case.get("chunks")
    ck = {"chunks": _chunks_arg(spec)} if spec else {}
    exact = True
    tol_n, tol_scale = 1, 1.0
    split_inputs = False
    extra_pairs = []   # (name, dask scalar-ish, numpy value) compared exactly (retstep)

    with warnings.catch_warnings():
        warnings.simplefilter("ignore")
        with np.errstate(all="ignore"):
            # ---- reference -------------------------------------------------------------------
            try:
                if op == "arange":
                    dk = {"dtype": case["dtype"]} if case["dtype"] else {}
                    aa = _typed(case["args"], case.get("argt"))
                    pos, akw = aa, {}
                    if case.get("kwform") and len(aa) >= 2:
                        pos, akw = aa[:1], dict(zip(("stop", "step"), aa[1:]))
                    e = [np.arange(*pos, **akw, **dk)]
                    lk = {"like": _like_arg(case["like"])} if case.get("like") else {}
                    call = lambda: [da.arange(*pos, **akw, **dk, **lk, **ck)]  # noqa: E731
                    if e[0].dtype.kind in "fc":
                        exact = False
                        tol_n = max(len(e[0]), 1)
                        tol_scale = max(abs(v) for v in case["args"])
                elif op == "linspace":
                    dk = {"dtype": case["dtype"]} if case["dtype"] else {}
                    kw = dict(num=case["num"], endpoint=case["endpoint"], retstep=case["retstep"], **dk)
                    l0, l1 = _typed([case["start"], case["stop"]], case.get("argt"))
                    ev = np.linspace(l0, l1, **kw)
                    estep = None
                    if case["retstep"]:
                        ev, estep = ev
                    e = [ev]

                    def call():
                        r = da.linspace(l0, l1, **kw, **ck)
                        if case["retstep"]:
                            r, st = r
                            extra_pairs.append(("step", st, estep))
                        return [r]
                    f32_args = "float32" in (case.get("argt") or ())
                    if ev.dtype.kind in "fc":
                        exact = False
                        tol_n = 4
                        tol_scale = max(abs(case["start"]), abs(case["stop"]))
                        if f32_args and ev.dtype.itemsize // (2 if ev.dtype.kind == "c" else 1) > 4:
                            # Calibration: with a float32 scalar argument NumPy derives the grid in float32 (NEP 50 weak
                            # Python scalars) and casts afterwards: equal at float32 resolution is all that can be asked
                            tol_n = 4 * 2 ** 29
                elif op == "eye":
                    e = [np.eye(case["N"], case["M"], case["k"], **({"dtype": case["dtype"]} if case["dtype"] else {}))]
                    call = lambda: [da.eye(case["N"], M=case["M"], k=case["k"],  # noqa: E731
                                           **({"dtype": case["dtype"]} if case["dtype"] else {}), **ck)]
                elif op == "tri":
                    dk = {"dtype": case["dtype"]} if case["dtype"] else {}
                    e = [np.tri(case["N"], case["M"], case["k"], **dk)]
                    lk = {"like": _like_arg(case["like"])} if case.get("like") else {}
                    call = lambda: [da.tri(case["N"], case["M"], case["k"], **dk, **lk, **ck)]  # noqa: E731
                elif op == "diag":
                    x = A.rand_data(case["seed"], case["shape"], case["dtype"], special=False)
                    e = [np.diag(x, case["k"])]
                    c = A.chunks_of_desc(case["c"])
                    split_inputs = case["in"] == "dask" and A.has_split(c)
                    call = lambda: [da.diag(da.from_array(x, chunks=c) if case["in"] == "dask" else x, case["k"])]  # noqa: E731
                elif op == "diagonal":
                    x = A.rand_data(case["seed"], case["shape"], case["dtype"], special=False)
                    e = [np.diagonal(x, case["offset"], case["axis1"], case["axis2"])]
                    c = A.chunks_of_desc(case["c"])
                    split_inputs = A.has_split(c) and case.get("in", "dask") == "dask"
                    call = lambda: [da.diagonal(da.from_array(x, chunks=c) if case.get("in", "dask") == "dask" else x,  # noqa: E731
                                                case["offset"], case["axis1"], case["axis2"])]
                elif op == "indices":
                    dk = {"dtype": case["dtype"]} if case["dtype"] else {}
                    e = [np.indices(tuple(case["dims"]), **dk)]
                    call = lambda: [da.indices(tuple(case["dims"]), **dk, **ck)]  # noqa: E731
                elif op == "meshgrid":
                    xs = [A.rand_data(i["seed"], tuple(i.get("shape2") or (i["n"],)), i["dtype"], special=False) for i in case["ins"]]
                    xs = [x_[0].item() if i["in"] == "scalar" else x_ for i, x_ in zip(case["ins"], xs)]
                    e = list(np.meshgrid(*xs, sparse=case["sparse"], indexing=case["indexing"]))
                    split_inputs = any(i["in"] == "dask" and (len(i["c"]) > 1 if not i.get("shape2") else A.has_split(i["c2"]))
                                       for i in case["ins"])

                    def call():
                        ins = []
                        for i, x_ in zip(case["ins"], xs):
                            if i["in"] == "dask":
                                ins.append(da.from_array(x_, chunks=A.chunks_of_desc(i["c2"]) if i.get("shape2") else (tuple(i["c"]),)))
                            elif i["in"] in ("numpy", "scalar"):
                                ins.append(x_)
                            else:
                                ins.append(x_.tolist())
                        return list(da.meshgrid(*ins, sparse=case["sparse"], indexing=case["indexing"]))
                    if any(i["in"] == "list" for i in case["ins"]):
                        # lists are re-inferred by both libraries from Python scalars
                        xs = [np.asarray(x_.tolist()) if i["in"] == "list" else x_ for i, x_ in zip(case["ins"], xs)]
                        e = list(np.meshgrid(*xs, sparse=case["sparse"], indexing=case["indexing"]))
                elif op == "fromfunction":
                    f, fk = _func(case["func"])
                    dk = {"dtype": case["dtype"]} if case["dtype"] else {}
                    e = [np.asarray(np.fromfunction(f, tuple(case["shape"]), **dk, **fk))]
                    call = lambda: [da.fromfunction(f, shape=tuple(case["shape"]), **dk, **ck, **fk)]  # noqa: E731
                elif op == "wrap":
                    shp = tuple(case["shape"])
                    sform = case["shape_form"]
                    if sform == "list":
                        shp = list(shp)
                    elif sform == "int":
                        shp = shp[0]
                    elif sform == "ndarray":
                        shp = np.array(shp, dtype="int64")
                    elif sform == "npint":
                        shp = tuple(np.int64(v) if i % 2 == 0 else np.int32(v) for i, v in enumerate(shp))
                    dk = {"dtype": case["dtype"]} if case["dtype"] else {}
                    fn = case["fn"]
                    mk = {}
                    if case.get("meta"):
                        mdt = case["meta"] if case["meta"] != "same" else (case["dtype"] or "float64")
                        mk = {"meta": np.empty((0,) * len(case["shape"]), dtype=mdt)}
                    eshp = tuple(case["shape"])
                    if fn == "full":
                        fv = _fill(case["fill"])
                        e = [np.full(eshp, fv, **dk)]
                        if sform == "kw":
                            call = lambda: [da.full(shape=shp, fill_value=fv, **dk, **mk, **ck)]  # noqa: E731
                        else:
                            call = lambda: [da.full(shp, fv, **dk, **mk, **ck)]  # noqa: E731
                    else:
                        e = [getattr(np, fn)(eshp, **dk)]
                        if sform == "kw":
                            call = lambda: [getattr(da, fn)(shape=shp, **dk, **mk, **ck)]  # noqa: E731
                        else:
                            call = lambda: [getattr(da, fn)(shp, **dk, **mk, **ck)]  # noqa: E731
                else:  # like
                    x = A.rand_data(1, case["shape"], case["adtype"], special=False)
                    c = A.chunks_of_desc(case["c"])
                    kw = {}
                    if case["dtype"]:
                        kw["dtype"] = case["dtype"]
                    if case["new_shape"] is not None:
                        kw["shape"] = case["new_shape"][0] if case.get("new_shape_int") else tuple(case["new_shape"])
                    fn = case["fn"]
                    src = case["in"]
                    split_inputs = src in ("dask", "dask-nan") and A.has_split(c) and case["new_shape"] is None and spec is None
                    pre = (_fill(case["fill"]),) if fn == "full_like" else ()
                    xe = x
                    if src == "dask-nan":
                        # an input with unknown chunk sizes: rows selected by a dask boolean mask (*_like goes through map_blocks)
                        keep = (np.arange(x.shape[0]) % 3) != 1
                        xe = x[keep]
                    e = [getattr(np, fn)(xe, *pre, **kw)]

                    def call():
                        if src == "dask":
                            a_ = da.from_array(x, chunks=c)
                        elif src == "dask-nan":
                            a_ = da.from_array(x, chunks=c)[da.from_array(keep, chunks=(c[0],))]
                        elif src == "list":
                            a_ = x.tolist()
                        else:
                            a_ = x
                        return [getattr(da, fn)(a_, *pre, **kw, **ck)]
                    if src == "list":
                        # a list is re-inferred from Python scalars by both libraries
                        e = [getattr(np, fn)(x.tolist(), *pre, **kw)]
            except Exception as ex:  # noqa: BLE001
                ctx.reject("numpy: %s: %s" % (type(ex).__name__, ex))
                return
            if _only_build:
                return call()        # sibling facet: only the lazily built collections of a case description
            # ---- dask -------------------------------------------------------------------------------
            try:
                rs = call()
                for r in rs:
                    if not isinstance(r, da.Array):
                        ctx.violation("%s:%s:result-not-a-dask-array" % (op, _feat(case)), "got %r" % (type(r),))
                        return
                import dask

                rvs = dask.compute(*rs, scheduler="threads" if case.get("threads") else "sync")
            except NotImplementedError as ex:
                ctx.unsupported(str(ex))
                return
            except Exception as ex:  # noqa: BLE001
                _exception(ctx, ex, case)
                return
            if len(rs) != len(e):
                ctx.violation("%s:%s:number-of-outputs" % (op, _feat(case)), "%d outputs, NumPy %d" % (len(rs), len(e)))
                return
            empty = op in ("wrap", "like") and case["fn"].startswith("empty")
            for r, rv, ev in zip(rs, rvs, e):
                ctx.count("compared")
                if empty:
                    m = None
                    if np.shape(rv) != ev.shape:
                        m = ("shape", "shape %s vs expected %s" % (np.shape(rv), ev.shape))
                    elif np.asarray(rv).dtype != ev.dtype:
                        m = ("dtype", "dtype %s vs expected %s" % (np.asarray(rv).dtype, ev.dtype))
                else:
                    m = compare_arrays(rv, ev, exact=exact, n=tol_n, scale=tol_scale, factor=4.0)
                if m:
                    ctx.violation(_lab(case, m[0]), m[1], chunks=str(r.chunks))
                ctx.count("lazy_meta_checked")
                m = lazy_meta_mismatch(r, rv)
                if m:
                    ctx.violation(_lab(case, m[0]), m[1], chunks=str(r.chunks))
                if case.get("blocks") and not empty:
                    ctx.count("blocks_checked")
                    try:
                        m = blocks_mismatch(r)
                    except Exception as ex:  # noqa: BLE001
                        if op == "eye" and _feat(case) == "M>N&chunk>N":
                            ctx.violation(_lab(case, ""), "blocks: %s: %s" % (type(ex).__name__, str(ex)[:300]))
                        else:
                            ctx.exception(ex, prefix="%s:%s:blocks" % (op, _feat(case)))
                        m = None
                    if m:
                        ctx.violation(_lab(case, m[0]), m[1], chunks=str(r.chunks))
            for name, got, exp in extra_pairs:
                ctx.count("retstep_compared")
                g, x_ = float(got), float(exp)
                eps_ = np.finfo("float32" if "float32" in (case.get("argt") or ()) else "float64").eps
                ok = (math.isnan(g) and math.isnan(x_)) or abs(g - x_) <= 8 * eps_ * max(abs(x_), 1e-300)
                if not ok:
                    ctx.violation("%s:%s:%s" % (op, _feat(case), name), "retstep %r, NumPy %r" % (g, x_))
    ctx.nontrivial = split_inputs or any(A.has_split(r.chunks) for r in rs)
    if spec:
        ctx.distinct("chunk_spec_kinds", (op, spec["t"]))
    _count_classes(ctx, case, rs)
    ctx.sample = {"op": op, "chunks": [str(r.chunks) for r in rs][:3], "dtype": str(np.asarray(rvs[0]).dtype) if rvs else None}
    # ---- sibling facet: the same creation call with ONE other argument (k, dtype, endpoint, fill value, stop, ...) must
    # not share keys with this one.  empty / empty_like hold uninitialised memory: no values to compare.
    if not (op in ("wrap", "like") and case["fn"].startswith("empty")) and rs:
        sib = _sibling(case)
        if sib is not None:
            from ..core.ctx import Ctx

            param, c2 = sib
            S.check(ctx, op if op not in ("wrap", "like") else case["fn"], param, tuple(rs),
                    (lambda: tuple(run_case(c2, Ctx(c2), _only_build=True) or ())), va=tuple(rvs),
                    describe={k: v for k, v in c2.items() if case.get(k) != v})


def _count_classes(ctx, case, rs):
    """Input classes of the parameter audit (each has a floor: a generator change that loses a class is INCONCLUSIVE)"""
    op = case["op"]
    spec = case.get("chunks")
    known = [[c for c in cs if c == c] for r in rs for cs in r.chunks]
    if any(_is_irr3(cs) for cs in known):
        ctx.count("layout_irregular_ge3_blocks")
        ctx.distinct("irregular3_ops", op if op not in ("wrap", "like") else case["fn"])
    if any(c > 255 for cs in known for c in cs):
        ctx.count("layout_block_over_255")
    if spec and spec["t"] in ("bytes", "dict"):
        ctx.count("chunks_" + spec["t"])
    if case.get("argt") and any(case["argt"]):
        ctx.count("args_numpy_scalars")
    if op == "arange":
        a = case["args"]
        if len({isinstance(v, float) for v in a}) == 2:
            ctx.count("arange_mixed_int_float")
        if case.get("kwform") and len(a) >= 2:
            ctx.count("arange_keyword_form")
        if len(a) == 3 and a[2] < 0:
            ctx.count("arange_negative_step")
    if case.get("like") and op in ("arange", "tri"):
        ctx.count("like_argument")
    if op == "wrap":
        if case.get("meta"):
            ctx.count("wrap_meta_argument")
        if case["shape_form"] in ("ndarray", "npint", "kw"):
            ctx.count("wrap_shape_form_" + case["shape_form"])
    if op == "like":
        if case["in"] in ("list", "dask-nan"):
            ctx.count("like_input_" + case["in"])
        if case.get("new_shape_int"):
            ctx.count("like_shape_int")
    if op == "diagonal" and case.get("in") == "numpy":
        ctx.count("diagonal_numpy_input")
    if op == "meshgrid" and any(i.get("shape2") or i["in"] == "scalar" for i in case["ins"]):
        ctx.count("meshgrid_2d_or_scalar_input")
    if op in ("eye", "tri", "diag") and case["k"] < 0:
        ctx.count("negative_k")


def _other_dtype(srng, cur, pool=("int64", "int32", "float64", "float32", "complex128", "uint8")):
    return srng.choice([d for d in pool if d != cur])


def _grow_spec(spec, axis, delta):
    """explicit chunks follow a length change of `axis` (last chunk grows); other spec forms adapt by themselves"""
    if spec and spec["t"] == "explicit":
        v = [list(c) for c in spec["v"]]
        v[axis][-1] = max(v[axis][-1] + delta, 0)
        return {"t": "explicit", "v": v}
    return spec


def _sibling(case):
    """(parameter, case with that ONE argument changed) or None"""
    op = case["op"]
    srng = S.rng_for(case)
    c2 = dict(case)
    u = srng.random()
    if op == "arange":
        args = list(case["args"])
        isfloat = any(isinstance(a, float) for a in args)
        if u < 0.3:
            pool = ("float64", "float32", "complex128") if isfloat else ("int64", "int32", "float64", "float32", "complex128")
            eff = case["dtype"] or ("float64" if isfloat else "int64")
            c2["dtype"] = srng.choice([d for d in pool if d != eff])
            return "dtype", c2
        with warnings.catch_warnings():
            warnings.simplefilter("ignore")
            n0 = len(np.arange(*args))
            step = args[2] if len(args) == 3 else 1
            i = 0 if len(args) == 1 else 1
            args[i] = args[i] + (step if n0 else (3 * step))
            n1 = len(np.arange(*args))
        if n1 == n0 or n1 > 60:
            return None
        c2["args"] = args
        c2["chunks"] = _grow_spec(case["chunks"], 0, n1 - n0)
        return "stop", c2
    if op == "linspace":
        if u < 0.4:
            c2["endpoint"] = not case["endpoint"]
            return "endpoint", c2
        if u < 0.7:
            c2["num"] = case["num"] + 1
            c2["chunks"] = _grow_spec(case["chunks"], 0, 1)
            return "num", c2
        if u < 0.85:
            c2["stop"] = case["stop"] + 1
            return "stop", c2
        c2["dtype"] = srng.choice([d for d in ("float64", "float32", "complex128") if d != (case["dtype"] or "float64")])
        return "dtype", c2
    if op in ("eye", "tri"):
        if u < 0.6:
            c2["k"] = srng.choice([k for k in (0, 1, -1, 2, -2) if k != case["k"]])
            return "k", c2
        if u < 0.8 and op == "eye":
            N, M = case["N"], case["M"]
            c2["M"] = (N if M is None else M) + 1
            return "M", c2
        c2["dtype"] = _other_dtype(srng, case["dtype"] or "float64", ("int64", "float64", "float32", "bool", "complex128", "uint8"))
        return "dtype", c2
    if op == "diag":
        c2["k"] = srng.choice([k for k in (0, 1, -1, 2) if k != case["k"]])
        return "k", c2
    if op == "diagonal":
        c2["offset"] = srng.choice([k for k in (0, 1, -1, 2) if k != case["offset"]])
        return "offset", c2
    if op == "indices":
        c2["dtype"] = _other_dtype(srng, case["dtype"] or "int64", ("int64", "int32", "float64", "uint8", "float32"))
        return "dtype", c2
    if op == "meshgrid":
        if u < 0.5:
            c2["indexing"] = "ij" if case["indexing"] == "xy" else "xy"
            return "indexing", c2
        c2["sparse"] = not case["sparse"]
        return "sparse", c2
    if op == "fromfunction":
        if u < 0.7:
            c2["func"] = srng.choice([f for f in FUNCS if f != case["func"]])
            return "function", c2
        c2["dtype"] = _other_dtype(srng, case["dtype"], ("int64", "float64", "float32", "int32"))
        return "dtype", c2
    if op in ("wrap", "like"):
        fn = case["fn"]
        if fn.startswith("full") and u < 0.7:
            c2["fill"] = srng.choice([i for i in range(len(FILLS)) if i != case["fill"]])
            return "fill_value", c2
        spec = case.get("chunks")
        shape = case["new_shape"] if (op == "like" and case["new_shape"] is not None) else case["shape"]
        if spec and spec["t"] == "explicit" and any(n >= 2 for n in shape) and u < 0.85:
            for _ in range(6):
                v = [list(c) for c in A.rand_chunks(srng, shape)]
                if v != spec["v"]:
                    c2["chunks"] = {"t": "explicit", "v": v}
                    return "chunks", c2
        c2["dtype"] = _other_dtype(srng, case["dtype"], ("int64", "int32", "float64", "float32", "bool", "complex128", "uint8"))
        return "dtype", c2
    return None
