"""C36 — row-wise and elementwise DataFrame operations equal pandas (index and row order preserved).

Statement (fixed): for any input frame and partitioning, column projection, boolean filtering, assign, arithmetic
and comparison operators (including between aligned frames and series), astype, fillna, where/mask, isin, clip,
map/apply (with given meta), rename, and string/datetime/categorical accessors compute to the same object as
pandas, with index and row order preserved.

Monitor.  A case is a seed.  From it the harness draws a frame (``vf.gen.frames.rand_frame(cols="wide")``: int64,
str, float64 with NaN, integral float64, bool, datetime64, categorical, nullable Int64 and nullable boolean columns;
0-40 rows; index kind range / sorted unique / sorted with duplicates / unsorted / datetime / strings / float), a
partitioning (``from_pandas`` npartitions|chunksize, ``from_map`` / ``from_delayed`` over arbitrary row slices
INCLUDING empty partitions, cleared divisions) and a random typed pipeline of 2-5 operations from the operation
table of the statement (``vf.gen.c36_pipelines``).  ONE JSON description is applied to the dask frame and to the
pandas frame; the computed dask result (sync scheduler) is compared with the pandas result by
``vf.gen.frames.compare(ordered=True)``: object kind, column names and order, dtypes (str/object equivalent),
length, index values and name, values in row order (floats rtol 1e-9).  For categorical results whose categories are
*known* on the lazy dask collection the category list and ``ordered`` flag are compared as well.

Second operands: with known divisions a second, DIFFERENTLY partitioned dask frame (same rows, or - unique indexes
only - an independently drawn frame of the same index kind, so the indexes overlap partially) is used in
series-series and frame-frame arithmetic, in ``assign``, as a filter mask and as ``other`` of where/mask.  When the
frame has UNKNOWN divisions (unique indexes only) a second operand that is not co-partitioned (known or unknown
divisions, same rows or partial overlap) is used in series-series and frame-frame arithmetic: dask aligns such
operands by an index shuffle (``MaybeAlignPartitions._lower``), which defines the rows of the result but no row order, so
these pipelines (``desc["unordered"]``) are compared after putting both sides into index order.

Extended operation table (``build(ext=True)``; C42 reuses the generator with ``ext=False``, which is bit-for-bit the old
stream).  Every extended step kind passes a NON-default keyword argument - or an argument form the base table never
uses - whose effect is visible in the data, and registers a feature counter ``x:<feature>`` with its own floor:
``Series.map(f|dict|Series, na_action=None|"ignore")`` on series WITH missing values (float column with NaN, strings
made missing by where/mask) with mappers that turn NaN into a value (``f_fmt`` -> "<nan>", ``f_slen``), propagate it
(``f_inc``), dict / pandas-Series / one-partition dask-Series mappers with and without a NaN key, assigned / used as a
filter / taken as a series and followed by the usual steps; ``DataFrame.map(f, na_action=, meta=dict|frame)``;
``round(decimals int|dict)``, ``replace`` (scalar, list, lists, dict, nested dict, per-column dict + value, regex),
``DataFrame.abs``, ``fillna(value, axis=)`` / ``fillna(<series>)`` / ``fillna(<frame>)``, ``clip(axis=)`` with scalar,
per-column list and series bounds, ``rename(columns=<callable>)``, ``loc[:, cols]`` / ``loc[mask, cols]`` / column
slices, arithmetic methods with ``fill_value=`` (series-scalar, frame-scalar, frame-frame) and ``axis=`` ("index" with
a series, 1 / "columns" with a pandas Series or a list), comparison methods with ``fill_value=`` / ``axis=``,
``isin`` with dict / set / ndarray / Series values, ``between`` with series bounds, ``Series.apply(f, args=, **kw)``,
``DataFrame.apply(axis=1, **kw)``, ``.str`` methods with ``case= / regex= / na= / n= / side= / fillchar= / step /
na_rep=``, ``.cat`` methods with ``ordered=``.  In half of the cases the nine columns are renamed to names drawn from
``NAME_POOL`` ("a", "ab", "abc", "b", "bc", ... - prefixes / substrings of each other), and after a step whose argument
is a mapping keyed by column names a single column whose name contains such a key is selected with raised probability.

Outcomes: pandas raising on the concatenated frame -> ``ctx.reject``; dask raising NotImplementedError ->
``ctx.unsupported``; any other dask exception (at graph construction, optimisation or compute) -> violation.

Labels.  A failing pipeline is shrunk: shortest failing prefix, then greedy removal of earlier steps while pandas
still accepts the program and the symptom stays the same.  Then the minimal program is re-run on the same rows as a
single partition and as ``from_pandas(npartitions=3)`` to obtain a layout predicate (``any-layout`` = fails with one
partition too, ``npartitions>1``, ``layout-specific``).  Generic label = ``<culprit>:<layout>:<facet>`` for value
differences and ``<culprit>:<exception site>`` for exceptions; culprit = the step of the minimal program with the most
structure; facet = kind / columns / column-order / dtype / length / index / values / name / categories; exception site
= ``ExcType@Class.method`` of the innermost frame inside dask/dataframe, ``ExcType@compute`` for errors raised by pandas
inside a task, or ``meta-generation-ExcType``.  Known mechanisms are recognised by explicit predicates and get ONE label
each (see ``make_label``): ``partition-wise-evaluation:value-dependent-dtype`` (the dask value equals pandas applied to
every input partition separately: pandas' own value-dependent upcast decided per partition),
``aligned-operands:mismatched-divisions``, ``apply:axis1:empty-partition:*``, ``other:assign:*``,
``expr-node:<site>``; ``map:na_action=ignore:not-applied`` (the dask value equals pandas running the same program
with every ``na_action="ignore"`` removed), ``astype-dict:selected-column-name-contains-a-key:KeyError``,
``per-column-argument:<kind>:then-column-selection:*`` (a step whose argument is given per column - dict keyed by
column, one entry per column, a frame, a user meta - followed by a column selection; kind in isin-dict / round-dict /
replace-dict / fillna-frame / clip-list / binop-list / map-frame-meta) and
``other:unknown-divisions:equal-partition-counts:paired-without-alignment``.

Calibration (unchanged tree)
----------------------------
* false alarm corrected: ``DataFrame.where/mask`` with a *Series* condition needs ``axis=`` in pandas and dask has
  no such parameter (both raise "Must specify axis=0 or 1"); only frame conditions are generated for frames.
* false alarm corrected: a second operand whose divisions are unknown (e.g. ``from_pandas`` of an EMPTY frame gives
  ``(None, ...)`` divisions) is not aligned by a documented rule; such operands are not used.
* false alarm corrected: ``Series.map/apply`` and ``DataFrame.apply(axis=1)`` are compared only when the pandas
  result is non-empty: on empty data pandas cannot know the result dtype (and ``apply(axis=1)`` returns an empty
  *DataFrame*), while dask returns what ``meta=`` promises; the statement ("with given meta") defines no reference.
* categorical columns produced by ``astype('category')`` have *unknown* categories in dask; only ``as_known``,
  ``set_categories(list)``, ``astype(str)``, ``==`` and ``isin`` (string values only: pandas itself matches a bool/int
  categorical differently against a list and against an ndarray of numbers) are generated on them (``.cat.codes`` /
  ``.cat.categories`` raise a documented NotImplementedError, and the category ORDER found by ``as_known`` is not
  specified), and their category lists are not compared.
* object-dtype string columns (``astype(object)``, ``meta=(name, "object")``) are out of the domain: with pandas >= 3
  dask's ``meta_nonempty`` deliberately fills object columns with non-string objects, so ``.str`` on them is not
  supported; string results of user functions are declared with ``meta=(name, "str")``.
* ``.cat`` operations after ``as_unknown`` are restricted like those after ``astype('category')``.
* ``vf.gen.frames.compare`` classifies every pandas *values* message as ``index`` (the text contains "[index]:");
  the module re-checks the index itself and relabels to ``values``; a pure permutation of the columns is reported as
  ``column-order``.
* ``str.split(expand=True)`` is generated (with ``n=``) only on strings built to contain exactly ``n`` separators in
  every row, because dask documents that the number of output columns is taken from ``n``.
* extended table: nullable ``Int64`` / ``boolean`` columns are not mapped with value-producing functions: pandas' own
  result is value-dependent there (an ``Int64`` piece holding an NA hands 4.0 instead of 4 to the function, an all-NA
  ``boolean`` piece stays a masked array with ``<NA>`` instead of NaN), which is the partition-wise mechanism again.
* extended table: text produced by ``f_fmt`` has the restricted kind ``mstr`` (isna / notna / fillna / ==): an EMPTY
  partition keeps its float dtype (the known meta-not-enforced mechanism of ``apply:axis1:empty-partition``), so ``.str``
  steps on it would only multiply that finding.
* extended table: a dask-Series mapper is generated only with known divisions (``MapAlign`` gathers it into one
  partition; with unknown divisions every later combination with the original frame is an index shuffle that loses
  the row order) and without a NaN key for string keys (``from_pandas`` documents NotImplementedError for a
  non-numeric index with nulls).  Not generated: a multi-partition CO-ALIGNED dask Series as mapper
  (``ddf.a.map(ddf.d)`` is evaluated partition by partition - the lookup table is cut into pieces) and comparison
  METHODS between differently partitioned operands (``d1.a.lt(d2.b)`` never aligns and raises the mismatched-divisions
  assertion); both were seen by hand and are reported, not monitored.
* operands that are not co-partitioned by known divisions: compared after sorting both sides by the (unique) index,
  because the index shuffle dask uses for them promises no row order.
"""
from __future__ import annotations

import json
import random
import traceback
import warnings

PROP = "C36"
RULE = ("cases = case seeds; a seed determines the frame (0-40 rows, 9 typed columns - in half of the cases renamed to names "
        "that are substrings of each other -, 7 index kinds), the partitioning "
        "(from_pandas npartitions|chunksize, from_map/from_delayed row slices incl. empty partitions, cleared divisions), "
        "optionally a second differently partitioned frame (same rows or partially overlapping unique index) and a typed "
        "pipeline of 2-5 operations over the operation table of the statement (projection, filter incl. compound masks and "
        "masks computed on an earlier aligned state, assign new/shadowing with lambdas/series/scalars, frame and series "
        "arithmetic/comparison in operator/method/reversed forms, astype, fillna, where/mask, isin, clip, between, map/apply "
        "with meta, rename, str/dt/cat accessors; extended table: Series.map / DataFrame.map with na_action on missing values "
        "and function / dict / Series mappers, round, replace, frame abs, fillna axis / series / frame values, clip axis / "
        "list / series bounds, rename callable, loc column selections, arithmetic and comparison methods with fill_value / "
        "axis, isin dict / set / ndarray, between series bounds, apply args / kwargs, str and cat keyword arguments; second "
        "operands not co-partitioned by known divisions); non-trivial = >= 2 partitions and >= 2 steps; distinct = distinct "
        "(pipeline description, frame seed, index kind, partitioning)")
ASSUMPTIONS = [
    "pandas 3.0.5 on the concatenated frame is the reference; the same JSON description drives both sides",
    "dask.dataframe is imported through the pyarrow import stub (pandas-backed strings, convert-string=False); sync scheduler",
]
BUDGET = {"quick": 90, "thorough": 540}
FLOORS = {
    # measured with ext=True on the tree with fixes_ready/C36_08..11 applied (seeds 0,1,2,7,12345, complete streams):
    # compared >= 1776, distinct non-trivial >= 1363, unknown_divisions >= 1004, empty_partition_inputs >= 383,
    # second_operand_pipelines >= 150, duplicate_index_inputs >= 681; every extended step kind ("x:<feature>") has its
    # own floor (~45 % of the smallest count of the five seeds); thorough = 17 x quick
    "quick": {"evaluations": 900, "distinct_nontrivial": 610,
              "counters": {"compared": 799, "nontrivial_compared": 613, "unknown_divisions": 451, "known_divisions": 337,
                           "empty_partition_inputs": 172, "second_operand_pipelines": 67, "duplicate_index_inputs": 306,
                           "unsorted_index_inputs": 88, "user_function_with_meta": 248, "mask_from_earlier_aligned_state": 23,
                           "x:abs:frame": 18, "x:apply:args-kwargs": 21, "x:apply:axis1-kwargs": 12,
                           "x:arith:frame-axis-columns": 20, "x:arith:frame-axis-index": 14,
                           "x:arith:frame-frame-fill_value": 18, "x:arith:frame-scalar-fill_value": 20,
                           "x:arith:series-scalar-fill_value": 22, "x:between:series-bounds": 15, "x:cat:kwargs": 13,
                           "x:clip:axis": 19, "x:clip:list-bounds-axis1": 8, "x:clip:series-bounds": 23,
                           "x:cmp:frame-axis": 27, "x:cmp:series-fill_value": 27, "x:fillna:axis": 39,
                           "x:fillna:frame-value": 10, "x:fillna:series-value": 21, "x:frame-map:na_action=ignore": 39,
                           "x:frame-map:na_action=ignore:nan-to-value-function": 27, "x:frame-map:on-missing-values": 22,
                           "x:isin:dict": 33, "x:isin:non-list-values": 22, "x:loc:columns": 64, "x:map:dict-mapper": 18,
                           "x:map:na_action=ignore": 88, "x:map:na_action=ignore:nan-to-value-function": 45,
                           "x:map:on-missing-values": 48, "x:map:series-mapper": 29,
                           "x:names:column-related-to-mapping-key-selected": 32, "x:names:substring-pool": 397,
                           "x:names:substring-pool:astype-dict": 44, "x:other:unknown-divisions": 23, "x:rename:callable": 38,
                           "x:replace:frame": 48, "x:replace:series": 17, "x:round:frame": 30, "x:round:series": 20,
                           "x:str:cat-na_rep": 6, "x:str:kwargs": 40, "x:str:na=": 17},
              "sets": {"pipeline_shapes": 830}, "max_skipped_fraction": 0.3},
    "thorough": {"evaluations": 16000, "distinct_nontrivial": 10500,
                 "counters": {"compared": 13586, "nontrivial_compared": 10426, "unknown_divisions": 7680,
                              "known_divisions": 5737, "empty_partition_inputs": 2929, "second_operand_pipelines": 1147,
                              "duplicate_index_inputs": 5209, "unsorted_index_inputs": 1507, "user_function_with_meta": 4222,
                              "mask_from_earlier_aligned_state": 397, "x:abs:frame": 321, "x:apply:args-kwargs": 367,
                              "x:apply:axis1-kwargs": 206, "x:arith:frame-axis-columns": 351, "x:arith:frame-axis-index": 244,
                              "x:arith:frame-frame-fill_value": 321, "x:arith:frame-scalar-fill_value": 351,
                              "x:arith:series-scalar-fill_value": 390, "x:between:series-bounds": 260, "x:cat:kwargs": 221,
                              "x:clip:axis": 328, "x:clip:list-bounds-axis1": 145, "x:clip:series-bounds": 397,
                              "x:cmp:frame-axis": 466, "x:cmp:series-fill_value": 466, "x:fillna:axis": 673,
                              "x:fillna:frame-value": 175, "x:fillna:series-value": 359, "x:frame-map:na_action=ignore": 665,
                              "x:frame-map:na_action=ignore:nan-to-value-function": 474, "x:frame-map:on-missing-values": 374,
                              "x:isin:dict": 566, "x:isin:non-list-values": 390, "x:loc:columns": 1093, "x:map:dict-mapper": 306,
                              "x:map:na_action=ignore": 1507, "x:map:na_action=ignore:nan-to-value-function": 772,
                              "x:map:on-missing-values": 818, "x:map:series-mapper": 504,
                              "x:names:column-related-to-mapping-key-selected": 550, "x:names:substring-pool": 6762,
                              "x:names:substring-pool:astype-dict": 749, "x:other:unknown-divisions": 405,
                              "x:rename:callable": 650, "x:replace:frame": 826, "x:replace:series": 290, "x:round:frame": 520,
                              "x:round:series": 351, "x:str:cat-na_rep": 114, "x:str:kwargs": 680, "x:str:na=": 298},
                 "sets": {"pipeline_shapes": 8000}, "max_skipped_fraction": 0.3},
}
EXHAUSTIVE_SPACE = None
CLAIM = ("Every generated pipeline of row-wise / elementwise operations (the operation table of the statement, 2-5 "
         "operations, on frames with typed columns, unique / duplicate / unsorted indexes, known and unknown divisions, "
         "empty partitions, and differently partitioned second operands) was computed by dask and by pandas from one "
         "description and compared for object kind, columns, dtypes, index, row order and values. Held means: no "
         "counterexample among the executions observed (beyond the PENDING mechanisms listed).")
LEVEL_NOTE = ("trusts pandas as the reference and the harness comparison (vf.gen.frames.compare); Arrow-backed strings "
              "are not exercised (pyarrow stub)")
TECHNIQUE = "runtime monitoring: pandas differential on random typed operation pipelines, ordered comparison incl. index"
CASE_TIMEOUT = 60

# labels listed as known findings in /verif/known_findings.d/C36.json (everything else was fixed, see /verif/fixes_ready)
PENDING = {
    'partition-wise-evaluation:value-dependent-dtype':
        "result dtype (or a later astype(str)/astype('category') of it) differs from pandas: pandas upcasts int->float (NaN from where/mask, int//0, int%0, cli",
    'aligned-operands:mismatched-divisions':
        "operations on the result of an aligned filter/assign/binary operation (differently partitioned second operand) raise AssertionError 'Mismatched divisi",
    'other:assign:wrong-result':
        'assign(col=<differently partitioned series>) adds rows: the series is aligned with an OUTER join instead of being reindexed to the frame (extra all-Na',
    'other:assign:exception':
        'same mechanism as other:assign:wrong-result; with duplicate index labels or downstream steps the outer alignment raises (cannot reindex on an axis wit',
    'apply:axis1:empty-partition:exception':
        "DataFrame.apply(f, axis=1, meta=...) on an EMPTY partition returns pandas' result for zero rows (empty float64 Series / empty DataFrame) instead of an",
    'apply:axis1:empty-partition:wrong-result':
        'same mechanism as apply:axis1:empty-partition:exception; the malformed empty piece survives and the result has wrong dtype/length',
    'expr-node:AttributeError@StringAccessor.__init__':
        "(ddf.b + 'p-').str.replace('y','Q').str.upper() raises 'Can only use .str accessor with string values, not floating' while the graph is built",
    'filter:or-of-identical-operands-then-filter:IndexingError@compute':
        "s2 = s[p | p]; s2[s2] raises IndexingError 'Unalignable boolean Series provided as indexer' (p | p with identical operands, then a second filter by th",
    'str-plus-literal:object-meta:filter-by-str-predicate:KeyError@Projection._meta':
        "cur = ddf.assign(x1='x' + ddf.b); cur[cur.x1.str.contains('x')]['d'] raises KeyError 'd' (object-dtype meta of str + literal; the filtered frame's meta has no columns)",
    'user-meta-tuple:comparison-with-column:identically-labeled':
        "ddf.d.apply(f, meta=('d','float64')) != ddf.c raises 'Can only compare identically-labeled Series objects' while building the meta when the index is n",
}


def cases(tier, seed):
    rng = random.Random(seed * 2654435761 % (2 ** 31) + 36)
    n = 2000 if tier == "quick" else 36000
    for _ in range(n):
        yield {"cs": rng.randrange(2 ** 31)}


def shard_setup(tier, seed):
    from vf.gen import frames as F

    F.setup()
    import dask

    dask.config.set(scheduler="sync")
    warnings.simplefilter("ignore")


# --------------------------------------------------------------------------- building a case
UNIQUE_KINDS = ("range", "sorted", "unsorted")


# column names that are prefixes / substrings of each other (a membership test written as `name in <str>` goes wrong)
NAME_POOL = ("a", "ab", "abc", "b", "bc", "c", "ca", "cab", "ba", "d", "da", "abcd")


def build(cs, allow_other=True, ext=False):
    """-> dict(pdf, ddf, opdf, oddf, desc, kind, pdesc, odesc, same)  (everything derived from the case seed).
    ext=False is the generator as C42 reuses it; C36 itself runs ext=True: extended operation table
    (vf.gen.c36_pipelines, "extended operation table"), column names drawn from NAME_POOL in half of the cases, and
    second operands that are not co-partitioned by known divisions."""
    from vf.gen import c36_pipelines as P
    from vf.gen import frames as F

    F.setup()
    rng = random.Random(cs)
    kind = rng.choice(F.INDEX_KINDS)
    nrows = None if rng.random() < 0.8 else rng.choice((0, 1, 2, 3))
    pdf = F.rand_frame(cs, nrows=nrows, nmax=40, index=kind, cols="wide")
    orig = {}
    if ext and rng.random() < 0.5:
        orig = dict(zip(rng.sample(NAME_POOL, len(pdf.columns)), [str(c) for c in pdf.columns]))
        pdf = pdf.rename(columns={v: k for k, v in orig.items()})
    pdesc = F.rand_partition_desc(rng, len(pdf), True)
    ddf = F.partition(pdf, pdesc)
    opdf = oddf = odesc = None
    same = True
    other_unknown = False
    if allow_other and ddf.known_divisions and rng.random() < 0.5:
        if rng.random() < 0.6 or not pdf.index.is_unique:
            cand = pdf
        else:
            cand = F.rand_frame(cs + 10 ** 6, nmax=40, index=kind, cols="wide")
            if orig:
                cand = cand.rename(columns={v: k for k, v in orig.items()})
            same = False
        odesc = F.rand_partition_desc(rng, len(cand), False)
        o = F.partition(cand, odesc)
        if o.known_divisions and (same or cand.index.is_unique):
            opdf, oddf = cand, o
    elif ext and allow_other and not ddf.known_divisions and pdf.index.is_unique and len(pdf) and rng.random() < 0.3:
        # operands NOT co-partitioned by known divisions (this side unknown; the other side known or unknown)
        if rng.random() < 0.6:
            cand = pdf
        else:
            cand = F.rand_frame(cs + 10 ** 6, nmax=40, index=kind, cols="wide")
            if orig:
                cand = cand.rename(columns={v: k for k, v in orig.items()})
            same = False
        if cand.index.is_unique and len(cand):
            odesc = F.rand_partition_desc(rng, len(cand), True)
            opdf, oddf = cand, F.partition(cand, odesc)
            other_unknown = True
    if ext:
        info = P.info_for(pdf, other=opdf, known=ddf.known_divisions, same_rows=same, ext=True, orig=orig,
                          other_unknown=other_unknown)
    else:
        info = P.info_for(pdf, other=opdf, known=ddf.known_divisions, same_rows=same)
    desc = P.gen_pipeline(rng, info)
    return {"pdf": pdf, "ddf": ddf, "opdf": opdf, "oddf": oddf, "desc": desc, "kind": kind, "pdesc": pdesc,
            "odesc": odesc, "same": same, "pool_names": bool(orig), "other_unknown": other_unknown}


# --------------------------------------------------------------------------- running one program on both sides
def site_of(exc):
    """ExcType@Class.method of the innermost traceback frame inside dask/dataframe (else innermost dask frame)."""
    import os

    from vf.core.ctx import REPO

    root = os.path.join(REPO, "dask", "dataframe") + os.sep
    best = None
    tb = exc.__traceback__
    while tb is not None:
        code = tb.tb_frame.f_code
        fn = os.path.realpath(code.co_filename)
        if fn.startswith(root):
            loc = tb.tb_frame.f_locals
            owner = None
            if "self" in loc:
                owner = type(loc["self"]).__name__
            elif "cls" in loc and isinstance(loc["cls"], type):
                owner = loc["cls"].__name__
            best = "%s.%s" % (owner, code.co_name) if owner else "%s:%s" % (os.path.basename(fn), code.co_name)
        tb = tb.tb_next
    if "Failed to generate metadata" in str(exc):
        return "meta-generation-%s" % type(exc).__name__
    if "Mismatched divisions between multiple Blockwise dependencies" in str(exc):
        return "AssertionError@Blockwise._divisions(mismatched-divisions)"
    if best is None:
        return "%s@compute" % type(exc).__name__
    return "%s@%s" % (type(exc).__name__, best)


def uses_user_function(desc):
    s = json.dumps(desc["steps"])
    return '"apply_rows"' in s or '["map"' in s or '["apply"' in s or '"frame_map"' in s


def run_pair(desc, pdf, ddf, opdf=None, oddf=None, upto=None, want_value=False):
    """-> (status, key, info): status ok | reject | unsupported | env | exc | neq ; key identifies the symptom."""
    from vf.core.ctx import CaseTimeout, through_shim
    from vf.gen import c36_pipelines as P
    from vf.gen import frames as F

    with warnings.catch_warnings():
        warnings.simplefilter("ignore")
        try:
            exp = P.apply(desc, pdf, False, other=opdf, upto=upto)
        except CaseTimeout:
            raise
        except Exception as e:  # noqa: BLE001
            return "reject", "%s: %s" % (type(e).__name__, str(e)[:60]), {}
        if len(exp) == 0 and uses_user_function(desc):
            return "reject", "user function on empty data: pandas defines no result dtype", {}
        try:
            res = P.apply(desc, ddf, True, other=oddf, upto=upto)
            val = res.compute(scheduler="sync")
        except CaseTimeout:
            raise
        except NotImplementedError as e:
            return "unsupported", str(e)[:80], {}
        except Exception as e:  # noqa: BLE001
            if through_shim(e):
                return "env", "%s: %s" % (type(e).__name__, str(e)[:80]), {}
            return "exc", site_of(e), {"exc": e, "message": "%s: %s" % (type(e).__name__, str(e)[:300]),
                                       "traceback": "".join(traceback.format_exception(type(e), e, e.__traceback__))[-2500:]}
    if desc.get("unordered"):
        # operands aligned by an index shuffle (unknown divisions; unique indexes only): the rows are defined, their
        # order is not -> both sides are put into index order first
        try:
            val, exp = val.sort_index(kind="stable"), exp.sort_index(kind="stable")
        except Exception:  # noqa: BLE001
            pass
    m = F.compare(val, exp, ordered=True)
    if m is not None and m[0] == "index":
        # pandas prints "[index]: ..." in every values message; decide the facet ourselves
        try:
            same_index = len(val.index) == len(exp.index) and bool((val.index == exp.index).all() or val.index.equals(exp.index))
        except Exception:  # noqa: BLE001
            same_index = False
        if same_index:
            m = ("values", m[1])
    if m is not None and m[0] == "columns":
        try:
            if sorted(map(str, val.columns)) == sorted(map(str, exp.columns)):
                m = ("column-order", m[1])
        except Exception:  # noqa: BLE001
            pass
    if m is None:
        m = categories_violation(res, val, exp, desc)
    info = {"res": res, "val": val, "exp": exp} if want_value else {}
    if m is not None:
        info["message"] = m[1]
        return "neq", m[0], info
    return "ok", None, info


def categories_violation(res, val, exp, desc):
    """categorical results with categories KNOWN on the lazy collection: same category list and ordered flag."""
    import pandas as pd

    from dask.dataframe.utils import has_known_categories

    fk = desc.get("final_kinds") or {}
    try:
        if isinstance(exp, pd.Series):
            pairs = [(None, val, exp)] if fk.get("") == "cat" else []
        elif isinstance(exp, pd.DataFrame):
            pairs = [(c, val[c], exp[c]) for c in exp.columns if fk.get(str(c)) == "cat" and list(exp.columns).count(c) == 1]
        else:
            return None
        for c, v, e in pairs:
            if not isinstance(e.dtype, pd.CategoricalDtype) or not isinstance(v.dtype, pd.CategoricalDtype):
                continue
            lazy = res if c is None else res[c]
            if not has_known_categories(lazy):
                continue
            if list(v.cat.categories) != list(e.cat.categories) or bool(v.cat.ordered) != bool(e.cat.ordered):
                return ("categories", "column %r: categories %s ordered=%s, expected %s ordered=%s"
                        % (c, list(v.cat.categories), v.cat.ordered, list(e.cat.categories), e.cat.ordered))
    except Exception:  # noqa: BLE001
        return None
    return None


# --------------------------------------------------------------------------- shrinking and labels
def drop_step(desc, i):
    """description without step i; state references (`at`) are re-indexed (state i+1 -> state i)."""
    def fix(at):
        return at if at <= i else at - 1

    def walk(o):
        if isinstance(o, dict):
            return {k: (fix(v) if k == "at" and isinstance(v, int) else walk(v)) for k, v in o.items()}
        if isinstance(o, list):
            return [walk(x) for x in o]
        return o

    steps = []
    for j, st in enumerate(desc["steps"]):
        if j == i:
            continue
        st = walk(st)
        if st["op"] == "assign":
            st = dict(st)
            st["items"] = [[n, e, m, fix(at)] for n, e, m, at in st["items"]]
        steps.append(st)
    out = dict(desc)
    out["steps"] = steps
    out["classes"] = [c for j, c in enumerate(desc["classes"]) if j != i]
    return out


def family(klass):
    p = klass.split(":")
    if p[0] in ("project", "filter") and klass != "filter:series":
        return p[0] if klass != "filter:earlier-state-mask" else klass
    if p[0] == "assign":
        return "assign"
    if p[0] in ("frame-arith", "frame-cmp"):
        if p[2] not in ("method", "rmethod", "operator", "reversed"):
            return "%s:%s" % (p[0], p[2])            # extended table: fill_value / axis-columns / axis-index
        style = "method" if p[2] in ("method", "rmethod") else "operator"
        return "%s:%s" % (p[0], style)
    if klass in ("fillna:axis", "fillna:frame-value"):
        return klass
    if p[0] in ("astype", "fillna"):
        return klass if p[0] == "astype" and "category" in klass else p[0]
    if p[0] in ("loc", "map-frame", "round", "replace", "abs"):
        return klass
    if p[0] in ("where", "mask") and len(p) > 1 and p[1] == "frame":
        return "where-frame"
    if p[0] == "other":
        return ":".join(p[:2])
    return klass


def expr_heads(step):
    """outermost expression node of the step (refines series/assign/filter labels)."""
    def head(e):
        if not isinstance(e, list) or not e:
            return None
        if e[0] in ("str", "dt", "cat", "dtm", "catm"):
            return "%s.%s" % (e[0].rstrip("m"), e[1])
        if e[0] in ("bin", "cmp", "meth", "un"):
            return "%s(%s)" % (e[0], e[1])
        if e[0] == "astype":
            return "astype(%s)" % e[2]
        if e[0] == "map" and len(e) > 4:
            return "map(na_action=%s)" % e[4]
        return e[0]
    if step["op"] in ("series", "fseries"):
        return head(step["expr"])
    if step["op"] in ("filter", "sfilter"):
        return head(step["pred"])
    if step["op"] == "assign":
        return "+".join(sorted({str(head(e)) for _, e, _, _ in step["items"]}))
    return None


def shrink(desc, pdf, ddf, opdf, oddf, status, key):
    """shortest failing prefix, then greedy removal of steps keeping (status, key)."""
    n = len(desc["steps"])
    cur = desc
    for k in range(1, n):
        s, kk, _ = run_pair(desc, pdf, ddf, opdf, oddf, upto=k)
        if (s, kk) == (status, key):
            cur = dict(desc)
            cur["steps"] = desc["steps"][:k]
            cur["classes"] = desc["classes"][:k]
            break
    i = 0
    while i < len(cur["steps"]) and len(cur["steps"]) > 1:
        cand = drop_step(cur, i)
        try:
            s, kk, _ = run_pair(cand, pdf, ddf, opdf, oddf)
        except Exception:  # noqa: BLE001
            s = None
        if (s, kk if s else None) == (status, key):
            cur = cand
        else:
            i += 1
    return cur


def layout_predicate(mini, case, status, key):
    """any-layout (fails on a single partition too) | npartitions>1 (fails on from_pandas(npartitions=3)) |
    layout-specific (needs the generated layout: empty partitions / unknown divisions / particular boundaries)"""
    from vf.gen import frames as F

    pdf, opdf, oddf = case["pdf"], case["opdf"], case["oddf"]
    try:
        one = F.partition(pdf, {"how": "npartitions", "n": 1})
        s, kk, _ = run_pair(mini, pdf, one, opdf, oddf)
        if (s, kk) == (status, key):
            return "any-layout"
        if pdf.index.is_monotonic_increasing and len(pdf) >= 3:
            three = F.partition(pdf, {"how": "npartitions", "n": 3})
            s, kk, _ = run_pair(mini, pdf, three, opdf, oddf)
            if (s, kk) == (status, key):
                return "npartitions>1"
    except Exception:  # noqa: BLE001
        pass
    return "layout-specific"


def dtype_only_numeric_upcast(val, exp):
    """values equal, and every dtype difference is int/bool on one side and float/object on the other"""
    import pandas as pd

    from vf.gen import frames as F

    try:
        if F.compare(val, exp, ordered=True, check_dtype=False) is not None:
            return False
        a = [val.dtype] if isinstance(val, pd.Series) else list(val.dtypes)
        b = [exp.dtype] if isinstance(exp, pd.Series) else list(exp.dtypes)
        lo, hi = ("int", "uint", "bool"), ("float", "object")
        diff = [(str(x), str(y)) for x, y in zip(a, b) if str(x) != str(y)]
        return bool(diff) and all((x.startswith(lo) and y.startswith(hi)) or (x.startswith(hi) and y.startswith(lo))
                                  for x, y in diff)
    except Exception:  # noqa: BLE001
        return False


def upcast_before_astype_str(mini, case):
    """aligned operands followed by astype(str): True when the program WITHOUT the cast differs from pandas only by
    the int/float dtype of a column (pandas upcast the whole column because the alignment produced a NaN somewhere,
    dask only the partitions that saw one) - the text "0" / "0.0" then differs as a consequence"""
    def casts_to_str(st):
        if st["op"] == "astype":
            spec = st["spec"]
            return spec == "str" or (isinstance(spec, dict) and "str" in spec.values())
        return '["astype"' in json.dumps(st) and '"str"]' in json.dumps(st)

    steps = mini["steps"]
    seen_other = False
    for i, st in enumerate(steps):
        if st["op"] == "other":
            seen_other = True
        elif seen_other and casts_to_str(st):
            try:
                s, k, inf = run_pair(mini, case["pdf"], case["ddf"], case["opdf"], case["oddf"], upto=i, want_value=True)
                if s == "neq":
                    return k == "dtype" and dtype_only_numeric_upcast(inf["val"], inf["exp"])
                if s != "ok":
                    return False
                # equal after concatenation: look at the partitions the cast will see
                import pandas as pd

                res, exp = inf["res"], inf["exp"]
                want = [exp.dtype] if isinstance(exp, pd.Series) else list(exp.dtypes)
                for j in range(res.npartitions):
                    part = res.partitions[j].compute(scheduler="sync")
                    if not len(part):
                        continue
                    got = [part.dtype] if isinstance(part, pd.Series) else list(part.dtypes)
                    if any(getattr(g, "kind", "O") in "iub" and getattr(w, "kind", "O") == "f" for g, w in zip(got, want)):
                        return True
            except Exception:  # noqa: BLE001
                return False
            return False
    return False


def _dask_concat(dfs):
    from dask.dataframe.dispatch import concat

    return concat(list(dfs))


def partitionwise_equal(desc, case, val):
    """True when the dask value equals pandas applied to every input partition separately (concatenating the
    non-empty pieces): then the only difference to the whole-frame reference is what pandas itself infers per piece
    (value-dependent upcasts such as int -> float when a NaN/inf appears)."""
    import dask
    import pandas as pd

    from vf.gen import c36_pipelines as P
    from vf.gen import frames as F

    if desc["uses_other"]:
        return False
    try:
        ddf = case["ddf"]
        parts = dask.compute(*[ddf.partitions[i] for i in range(ddf.npartitions)], scheduler="sync")
        outs = [P.apply(desc, p, False) for p in parts]
        keep = [o for o in outs if len(o)] or outs[:1]
        for cat in (_dask_concat, pd.concat):     # labelling only: dask's own concat unions categoricals
            try:
                if F.compare(val, cat(keep), ordered=True) is None:
                    return True
            except Exception:  # noqa: BLE001
                continue
        return False
    except Exception:  # noqa: BLE001
        return False


_RANK = ("other", "map-frame", "frame-arith", "frame-cmp", "where-frame", "apply", "str", "astype", "fillna", "clip", "isin",
         "replace", "round", "abs", "assign", "filter", "loc", "series", "rename", "project")


# expression classes every program contains: an exception inside them does not name the mechanism by itself
_GENERIC_OWNERS = {"Projection", "Blockwise", "Elemwise", "Filter", "Assign", "Expr", "Index", "And", "Or", "FromPandas",
                   "FromMap", "FromDelayed", "Fused", "Accessor", "None", "DataFrame", "Series", "FrameBase"}


# culprits whose known defect produces a malformed intermediate object (arbitrary downstream symptoms)
_COLLAPSE = {"other:assign"}
MISMATCHED = "AssertionError@Blockwise._divisions(mismatched-divisions)"
PARTITIONWISE = "partition-wise-evaluation:value-dependent-dtype"


def _rank(fam):
    head = fam.split(":")[0]
    return _RANK.index(head) if head in _RANK else len(_RANK)


NA_ACTION_DROPPED = "map:na_action=ignore:not-applied"


def without_na_action(desc):
    """the same description with every na_action="ignore" replaced by None (None when there is none)"""
    found = [False]

    def walk(o):
        if isinstance(o, list):
            if len(o) > 4 and o[0] == "map" and o[4] == "ignore":
                found[0] = True
                return [walk(x) for x in o[:4]] + [None]
            return [walk(x) for x in o]
        if isinstance(o, dict):
            out = {k: walk(v) for k, v in o.items()}
            if o.get("op") == "frame_map" and o.get("na_action") == "ignore":
                found[0] = True
                out["na_action"] = None
            return out
        return o

    out = dict(desc)
    out["steps"] = walk(desc["steps"])
    return out if found[0] else None


def na_action_not_applied(desc, case, val):
    """True when the dask value equals what pandas computes for the SAME program with every na_action="ignore" removed:
    the keyword did not reach the partitions"""
    from vf.gen import c36_pipelines as P
    from vf.gen import frames as F

    d2 = without_na_action(desc)
    if d2 is None:
        return False
    try:
        exp2 = P.apply(d2, case["pdf"], False, other=case["opdf"])
        if desc.get("unordered"):
            val, exp2 = val.sort_index(kind="stable"), exp2.sort_index(kind="stable")
        return F.compare(val, exp2, ordered=True) is None
    except Exception:  # noqa: BLE001
        return False


def str_plus_literal_then_str_predicate(steps):
    """a column / series built as <str expression> + "literal" (either order) and a LATER filter whose predicate applies
    the .str accessor: the object-dtype meta of the sum makes the predicate's meta float64 and the filtered frame's
    meta loses every column (same root as expr-node:AttributeError@StringAccessor.__init__)"""
    for i, st in enumerate(steps):
        text = json.dumps(st)
        if any(('["bin", "+", ["lit", "%s"]' % lit) in text or ('["lit", "%s"]]' % lit) in text for lit in ("_s", "p-", "x")):
            for later in steps[i + 1:]:
                if later["op"] in ("filter", "sfilter", "locsel") and '["str",' in json.dumps(later.get("pred", "")):
                    return True
    return False


def per_column_argument_then_selection(steps):
    """kind of the first step whose argument is given per column (mapping keyed by column / one entry per column /
    a frame / a user meta describing every column) when a LATER step selects columns, else None"""
    def selects(st):
        return st["op"] in ("project", "getcol") or (st["op"] == "locsel" and "cols" in st)

    for i, st in enumerate(steps):
        op, kind = st["op"], None
        if op == "isin" and "values_dict" in st:
            kind = "isin-dict"
        elif op == "round" and isinstance(st["decimals"], dict):
            kind = "round-dict"
        elif op == "replace" and isinstance(st["to"], dict):
            kind = "replace-dict"
        elif op == "fillna" and "value_from" in st:
            kind = "fillna-frame"
        elif op == "clip" and (isinstance(st["lower"], list) or isinstance(st["upper"], list)):
            kind = "clip-list"
        elif op in ("frame_arith", "frame_cmp") and st["rhs"]["kind"] == "list":
            kind = "binop-list"
        elif op == "frame_map":
            kind = "map-frame-meta"
        if kind is not None and any(selects(x) for x in steps[i + 1:]):
            return kind
    return None


def make_label(mini, layout, key, message=""):
    """<culprit>:<layout>:<facet> (value differences) or <culprit>:<exception site>.  culprit = the step of the minimal
    program with the most structure (second operands > frame-level binary ops / where > apply > astype / fillna / clip
    / isin > assign > filter > series ops > rename > projection; ties: the later step).

    Mechanism predicates that replace the generic label (one mechanism = one label or a closed family):
    * ``aligned-operands:mismatched-divisions`` - dask's own assertion "Mismatched divisions between multiple Blockwise
      dependencies" (only programs with a differently partitioned second operand can reach it);
    * ``apply:axis1:empty-partition:exception|wrong-result`` - the minimal program contains DataFrame.apply(axis=1) and
      does NOT fail on a single partition holding all rows (the user function's partition was empty);
    * ``partition-wise-evaluation:value-dependent-dtype`` - decided in run_case (dask value == pandas applied per
      partition), and here for its follow-up error: unknown categoricals whose per-partition categories got different
      dtypes cannot be unioned, while the same program works on one partition;
    * ``other:assign:exception|wrong-result`` - assign of a differently partitioned series (outer alignment);
    * ``filter:or-of-identical-operands-then-filter:IndexingError@compute`` - ``s2 = s[p | p]; s2[s2]``;
    * ``user-meta-tuple:comparison-with-column:identically-labeled`` - comparing ``s.apply(f, meta=(name, dtype))`` with a
      column raises while the meta is built (the tuple meta has a default index);
    * exceptions raised inside the methods of one specific expression class are labelled by that site alone:
      ``expr-node:ExcType@Class.method``."""
    fams = [family(c) for c in mini["classes"]]
    steps = mini["steps"]
    exc = "@" in key or key.startswith("meta-generation")
    site = key.split("@", 1)[1] if "@" in key else ""
    if key == MISMATCHED:
        return "aligned-operands:mismatched-divisions"
    if "Only the Series name can be used for the key in Series dtype mappings" in message:
        return "astype-dict:selected-column-name-contains-a-key:KeyError"
    pc = per_column_argument_then_selection(steps)
    if pc is not None and (layout == "any-layout" or exc):
        return "per-column-argument:%s:then-column-selection:%s" % (pc, "exception" if exc else "wrong-result")
    if key == "IndexingError@compute" and any(
            (st["op"] in ("filter", "sfilter") and isinstance(st.get("pred"), list) and st["pred"][:2] == ["bin", "|"]
             and st["pred"][2] == st["pred"][3]) or
            (st["op"] == "series" and st["expr"][:2] == ["bin", "|"] and st["expr"][2] == st["expr"][3]
             and sum(1 for x in steps if x["op"] == "sfilter") >= 2) for st in steps[:-1]):
        return "filter:or-of-identical-operands-then-filter:IndexingError@compute"
    if key == "KeyError@Projection._meta" and str_plus_literal_then_str_predicate(steps):
        return "str-plus-literal:object-meta:filter-by-str-predicate:KeyError@Projection._meta"
    if exc and site.split(".")[0] in ("LT", "LE", "GT", "GE", "EQ", "NE", "LTSeries", "LESeries", "GTSeries", "GESeries",
                                      "EQSeries", "NESeries") and "identically-labeled" in message:
        return "user-meta-tuple:comparison-with-column:identically-labeled"
    if any(st["op"] == "apply_rows" for st in steps) and (layout != "any-layout" or any(st["op"] == "other" for st in steps)):
        return "apply:axis1:empty-partition:%s" % ("exception" if exc else "wrong-result")
    if exc and layout != "any-layout" and ("_union_categoricals_wrapper" in key or
                                           "Categorical categories must be unique" in message):
        return PARTITIONWISE
    if exc and "." in site and ":" not in site and "(" not in site:
        owner = site.split(".")[0]
        if owner not in _GENERIC_OWNERS:
            return "expr-node:%s" % key          # raised inside the methods of one specific expression class
    best = min(range(len(fams)), key=lambda i: (_rank(fams[i]), -i))
    if key == "column-order" and "assign" in fams:
        best = max(i for i, f in enumerate(fams) if f == "assign")
    fam = fams[best]
    if fam in _COLLAPSE:
        return "%s:%s" % (fam, "exception" if exc else "wrong-result")
    head = fam.split(":")[0]
    h = None
    if head == "series" or (head in ("filter", "assign") and len([f for f in fams if f != "project"]) == 1) or \
            mini["classes"][best] in ("assign:map-na:lambda", "assign:map-na:series", "filter:map-na"):
        h = expr_heads(steps[best])
    culprit = "%s%s" % (fam, "[%s]" % h if h else "")
    if exc:
        return "%s:%s" % (culprit, key)          # exceptions: the layout is not part of the mechanism
    return "%s:%s:%s" % (culprit, layout, key)


# --------------------------------------------------------------------------- the case
def part_lengths(pdf, pdesc, ddf):
    if pdesc["how"] in ("slices", "delayed"):
        n = len(pdf)
        cuts = sorted(min(max(0, c), n) for c in pdesc.get("cuts", []))
        b = [0] + cuts + [n]
        return [y - x for x, y in zip(b[:-1], b[1:])]
    return None


def run_case(case, ctx):
    from vf.gen import c36_pipelines as P

    with warnings.catch_warnings():
        warnings.simplefilter("ignore")
        c = build(case["cs"], ext=True)
    pdf, ddf, desc = c["pdf"], c["ddf"], c["desc"]
    lens = part_lengths(pdf, c["pdesc"], ddf)
    c["empty_parts"] = bool(lens and 0 in lens) or (len(pdf) == 0 and ddf.npartitions > 0)
    nsteps = len(desc["steps"])
    ctx.nontrivial = ddf.npartitions >= 2 and nsteps >= 2
    ctx.sig = [P.describe(desc), c["kind"], c["pdesc"], c["odesc"], len(pdf), case["cs"] if len(pdf) else 0]
    for k in desc["classes"]:
        ctx.op(k)
    ctx.distinct("pipeline_shapes", desc["classes"])
    status, key, info = run_pair(desc, pdf, ddf, c["opdf"], c["oddf"], want_value=True)
    ctx.count("programs")
    if status == "reject":
        return ctx.reject(key)
    if status == "unsupported":
        return ctx.unsupported(key)
    if status == "env":
        return ctx.envlimited(key)
    ctx.count("compared")
    ctx.count("known_divisions" if ddf.known_divisions else "unknown_divisions")
    if c["empty_parts"]:
        ctx.count("empty_partition_inputs")
    if not pdf.index.is_unique:
        ctx.count("duplicate_index_inputs")
    if not pdf.index.is_monotonic_increasing:
        ctx.count("unsorted_index_inputs")
    if desc["uses_other"]:
        ctx.count("second_operand_pipelines")
        if not c["same"]:
            ctx.count("second_operand_partial_overlap")
    if desc["uses_meta"]:
        ctx.count("user_function_with_meta")
    if any(k == "filter:earlier-state-mask" for k in desc["classes"]):
        ctx.count("mask_from_earlier_aligned_state")
    for f in desc.get("features", ()):
        ctx.count("x:" + f)                      # extended step kinds / keyword variants (each has a floor)
    if c["pool_names"]:
        ctx.count("x:names:substring-pool")
        if any(st["op"] == "astype" and isinstance(st["spec"], dict) for st in desc["steps"]):
            ctx.count("x:names:substring-pool:astype-dict")
    if ctx.nontrivial:
        ctx.count("nontrivial_compared")
    if status == "ok":
        exp = info["exp"]
        ctx.count("rows_compared", len(exp))
        ctx.sample = {"pipeline": P.describe(desc)[:600], "index": c["kind"], "partitioning": c["pdesc"],
                      "npartitions": ddf.npartitions, "rows_in": len(pdf), "rows_out": len(exp),
                      "second_operand": c["odesc"]}
        return
    # ---- violation: shrink, find layout predicate, label
    with warnings.catch_warnings():
        warnings.simplefilter("ignore")
        try:
            mini = shrink(desc, pdf, ddf, c["opdf"], c["oddf"], status, key)
            layout = layout_predicate(mini, c, status, key)
        except Exception as e:  # noqa: BLE001
            from vf.core.ctx import CaseTimeout

            if isinstance(e, CaseTimeout):
                raise
            mini, layout = desc, "unshrunk"
    label = make_label(mini, layout, key, info.get("message", ""))
    if status == "neq" and "val" in info:
        with warnings.catch_warnings():
            warnings.simplefilter("ignore")
            if layout != "any-layout" and partitionwise_equal(desc, c, info["val"]):
                label = PARTITIONWISE
            elif key == "dtype" and desc["uses_other"] and dtype_only_numeric_upcast(info["val"], info["exp"]):
                # aligned operands: rows that got a NaN from the alignment were filtered away again; pandas upcast the
                # whole column, dask only the partitions that saw a NaN
                label = PARTITIONWISE
            elif key == "values" and desc["uses_other"] and upcast_before_astype_str(mini, c):
                label = PARTITIONWISE
    if status == "neq" and "val" in info:
        with warnings.catch_warnings():
            warnings.simplefilter("ignore")
            if na_action_not_applied(desc, c, info["val"]):
                label = NA_ACTION_DROPPED
    if status == "neq" and key != "dtype" and label != PARTITIONWISE and c["other_unknown"] and c["oddf"] is not None \
            and c["oddf"].npartitions == ddf.npartitions and any(":unknown-divisions" in k for k in mini["classes"]):
        # operands with unknown divisions and EQUAL partition counts are combined partition by partition
        label = "other:unknown-divisions:equal-partition-counts:paired-without-alignment"
    detail = {"minimal_pipeline": mini["steps"], "full_pipeline": desc["steps"], "index_kind": c["kind"],
              "partitioning": c["pdesc"], "second_operand_partitioning": c["odesc"], "same_rows": c["same"],
              "divisions": list(ddf.divisions), "rows": len(pdf), "case_seed": case["cs"]}
    if status == "exc":
        detail["traceback"] = info.get("traceback")
    ctx.violation(label, info.get("message", ""), **detail)
