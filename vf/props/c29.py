"""C29 — storing arrays writes exactly the array into the targets.

Monitor: every target handed to the real ``da.store`` is a ``MonitoredTarget``: an array-like with
``shape``/``dtype``/``ndim`` whose ``__setitem__`` records (index, copy of the value, thread id, logical
enter tick, logical exit tick) under its own bookkeeping lock, sleeps ~0.5 ms between entering and
writing (to widen the window in which an unprotected concurrent write would overlap), increments a
per-element write counter and writes into a backing NumPy array pre-filled with a sentinel.
After the store (and, for ``compute=False``, after the later compute — before it nothing may have
been written):

* every element of the region was written exactly once and holds the source value; nothing outside
  the region was written (write counter 0, sentinel intact);
* with ``lock=True``, a ``threading.Lock`` or a ``dask.utils.SerializableLock`` no two ``__setitem__``
  calls on one target overlap (logical ticks; threads scheduler with 4 workers); with ``lock=False``
  nothing is demanded — overlaps seen there are counted to show the monitor can see them;
* ``return_stored=True`` returns arrays that compute to the stored data;
* several sources/targets in one call (the same source twice, two sources into disjoint regions of
  one target, different chunk alignments), regions as tuples of slices (steps, ``None`` ends,
  negative indices) inside larger targets.

``to_npy_stack(dir, x, axis)`` followed by ``from_npy_stack(dir)`` must give the same values and dtype
and the same chunks along ``axis`` (run-private temporary directory, removed afterwards).

Parameter audit (operation x parameter x value class, all with counters and floors):
* targets that are ``dask.delayed`` objects (``delayed(t)``, ``delayed(t, traverse=False)``, the result of a delayed call), alone,
  mixed with plain targets in one call and shared by two sources;
* ``load_stored`` given explicitly: True / False with every compute / return_stored combination.  With compute=True,
  return_stored=True, load_stored=True the returned arrays must compute to the stored data (label
  ``store:return_stored&load_stored=True&compute=True:returned-arrays``, one label whatever the symptom); with compute=False,
  return_stored=True, load_stored=False the blocks of the returned arrays, computed one by one, must BE the targets
  (``...&load_stored=False&compute=False:<regions>:block-is-not-the-target``) and the writes must have happened;
* ``optimize_graph=False`` as a scheduler keyword next to scheduler= / num_workers=;
* sources that are not plain from_array collections: a blockwise producer (map_blocks, fusable with the store task), a rechunk,
  a lazily sliced larger array, and ``same-data-other-chunks``: one call storing the same data in two chunkings (the second
  source is a rechunk of the first) into targets of their own;
* STATE: the same call a second time on the same sources and the reset targets (``again``) must write everything again;
* npy stacks: negative ``axis`` (label ``npy_stack:negative-axis:chunks-along-axis``), a directory that exists already, a directory
  that holds an older stack of other data in another chunking (stale files), derived sources.
* to_zarr / to_hdf5 / to_tiledb are NOT exercised: zarr, h5py and tiledb are not importable in this environment.

Calibration
* a ValueTokenTarget is never wrapped in dask.delayed: delayed() names a constant after its token, two equal-content targets
  would be one graph constant (the caller's naming, not store's).
* zero-size chunks are legitimately never written (``x.size != 0`` guard in load_store_chunk): "exactly
  once" is evaluated per element, so empty regions are vacuous.
* ``compute=False`` returns dask Arrays in this version (the docstring says Delayed); the statement only
  demands that a later compute performs the writes, so any dask collection is accepted.
* negative indices in a region raise NotImplementedError in fuse_slice/normalize_slice: unsupported, generated rarely.
* bool targets have no free sentinel value: "outside untouched" is decided by the write counter only.
"""
from __future__ import annotations

import itertools
import os
import random
import shutil
import tempfile
import threading
import time
import warnings

import numpy as np

from ..gen import arrays as A
from ..mon.compare import compare_arrays

PROP = "C29"
RULE = ("cases = store(sources, targets, regions, lock, compute, return_stored, scheduler) with 1-3 sources of 0-3 d "
        "(lengths 0-7, 10 dtypes, random irregular chunks), targets equal to or larger than the region, region slices "
        "with steps/None ends/negative indices, lock in {True, False, threading.Lock, SerializableLock}, scheduler "
        "sync|threads given as keyword, through dask.config or left to the default; and to_npy_stack/from_npy_stack round "
        "trips (axis incl. negative, dtype, chunks, mmap_mode, fresh/existing/occupied directory). Audit extras: Delayed targets, "
        "explicit load_stored, optimize_graph=False, derived sources (map_blocks/rechunk/sliced/same data rechunked), a second "
        "store of the same call. non-trivial = some source axis has >= 2 chunks; distinct = distinct "
        "case description.")
ASSUMPTIONS = ["the MonitoredTarget bookkeeping lock and logical clock are correct", "NumPy assignment semantics define a write"]
BUDGET = {"quick": 90, "thorough": 560}
FLOORS = {"quick": {"evaluations": 1100, "distinct_nontrivial": 700,
                    "counters": {"targets_checked": 1400, "locked_histories_checked": 420, "overlap_seen_without_lock": 100,
                                 "npy_roundtrips": 160, "return_stored_checked": 280, "deferred_stores": 320,
                                 "targets_written_by_several_threads": 400},
                    "sets": {"store_config": 100}, "max_skipped_fraction": 0.15},
          "thorough": {"evaluations": 7000, "distinct_nontrivial": 4400,
                       "counters": {"targets_checked": 9000, "locked_histories_checked": 2700, "overlap_seen_without_lock": 600,
                                    "npy_roundtrips": 1000, "return_stored_checked": 1800, "deferred_stores": 2000,
                                    "targets_written_by_several_threads": 2500},
                       "sets": {"store_config": 150}, "max_skipped_fraction": 0.15}}
# parameter audit families: ~45 % of the smallest count of the five quick seeds; thorough = quick floor x 6 (stream ratio 6.4)
_AUDIT = {"delayed_targets": 210, "delayed_target_histories_checked": 215, "load_stored_explicit": 280,
          "load_stored_false_blocks_checked": 55, "derived_sources": 590, "optimize_graph_false": 135, "stored_again": 60,
          "calls_with_differently_chunked_sources": 175, "npy_negative_axis": 36, "npy_existing_dir": 30, "npy_overwrites": 64}
FLOORS["quick"]["counters"].update(_AUDIT)
FLOORS["thorough"]["counters"].update({k: 6 * v for k, v in _AUDIT.items()})
EXHAUSTIVE_SPACE = None
CLAIM = ("Every generated da.store call ran on the real dask with monitored targets: each region element was written exactly "
         "once with the source value, nothing else was touched, locked stores never overlapped on a target, deferred stores "
         "wrote only when computed and returned arrays computed to the stored data; every generated npy-stack round trip "
         "reproduced values, dtype and the chunks along the stacking axis; held = no deviation on the executions observed.")
LEVEL_NOTE = "trusts NumPy and the harness' MonitoredTarget; real sync and threaded schedulers"
TECHNIQUE = "runtime monitoring: write-history monitor on store targets (exactly-once, region, lock overlap) and round-trip differential"
PENDING = {
    "npy_stack:negative-axis:chunks-along-axis": "to_npy_stack(axis=-1) merges the chunks of every axis (fixes_ready/C29_01)",
    "store:return_stored&load_stored=True&compute=True:returned-arrays": "store(return_stored=True, load_stored=True, compute=True) "
    "indexes the already loaded blocks once more (fixes_ready/C29_02)",
}

_CLOCK = itertools.count()
SENTINEL = {"b": None, "i": -99, "u": 250, "f": -777.0, "c": -777.0 + 0j, "M": np.datetime64(12345, "ns"), "m": np.timedelta64(12345, "ns")}


class MonitoredTarget:
    """Array-like store target that records every write."""

    def __init__(self, shape, dtype, delay=0.0005):
        self.shape = tuple(shape)
        self.dtype = np.dtype(dtype)
        self.ndim = len(self.shape)
        self.sentinel = SENTINEL[self.dtype.kind]
        self.data = np.zeros(self.shape, self.dtype) if self.sentinel is None else np.full(self.shape, self.sentinel, self.dtype)
        self.count = np.zeros(self.shape, np.int32)
        self.events = []
        self.reads = 0
        self.inside = 0
        self.max_inside = 0
        self.delay = delay
        self._book = threading.Lock()

    def __setitem__(self, key, value):
        with self._book:
            self.inside += 1
            self.max_inside = max(self.max_inside, self.inside)
            t_enter = next(_CLOCK)
        if self.delay:
            time.sleep(self.delay)
        val = np.array(value, copy=True)
        with self._book:
            self.data[key] = val
            self.count[key] += 1
            t_exit = next(_CLOCK)
            self.inside -= 1
            self.events.append((key, val, threading.get_ident(), t_enter, t_exit))

    def __getitem__(self, key):
        with self._book:
            self.reads += 1
            return self.data[key].copy()

    def overlaps(self):
        ev = sorted(self.events, key=lambda e: e[3])
        out = []
        for i, a in enumerate(ev):
            for b in ev[i + 1:]:
                if b[3] < a[4]:
                    out.append((str(a[0]), str(b[0]), a[2] != b[2]))
        return out


class ValueTokenTarget(MonitoredTarget):
    """A target whose dask token is derived from its content, like a NumPy array's."""

    def __dask_tokenize__(self):
        from dask.tokenize import normalize_token
        return ("ValueTokenTarget", normalize_token(self.data))


# ---------------------------------------------------------------------------------------------
# case stream
# ---------------------------------------------------------------------------------------------

def _region(rng, shape, kind):
    """Per axis [start, stop, step] (JSON null allowed) and the target length."""
    reg, tshape = [], []
    for n in shape:
        b = rng.choice((0, 0, 1, 2, 3))
        a = rng.choice((0, 0, 1, 2, 3))
        step = 2 if (kind == "step" and rng.random() < 0.6) else (3 if kind == "step" and rng.random() < 0.3 else 1)
        span = (n - 1) * step + 1 if n else 0
        T = b + span + a
        start, stop = b, b + span
        if n and step > 1 and a >= 1 and rng.random() < 0.5:
            stop = min(stop + rng.randint(0, step - 1), T)    # any stop up to the next grid point selects the same elements
        st = step if step > 1 else rng.choice((None, 1))
        if kind == "none-ends":
            if b == 0 and rng.random() < 0.7:
                start = None
            if a == 0 and rng.random() < 0.7:
                stop = None
        elif kind == "negative" and n:
            start = b - T
            if a > 0:
                stop = stop - T
            else:
                stop = None
        reg.append([start, stop, st])
        tshape.append(T)
    return reg, tshape


def cases(tier, seed):
    rng = random.Random(seed * 4099 + 29)
    n = 2500 if tier == "quick" else 16000
    for i in range(n):
        # parameter-audit extras are drawn from a stream of their own so that the base stream stays what it was
        xr = random.Random(seed * 7919 + 31 * i + 5)
        if rng.random() < 0.15:
            shape = A.rand_shape(rng, maxnd=3, maxlen=6, minnd=1)
            c = {"k": "npy", "shape": list(shape), "dtype": rng.choice(A.DTYPES), "c": [list(c) for c in A.rand_chunks(rng, shape)],
                 "axis": rng.randrange(len(shape)), "mmap": rng.choice(("r", "r", None)), "seed": rng.randrange(2 ** 31),
                 "sched": rng.choice(("sync", "threads"))}
            c["axis_neg"] = xr.random() < 0.25                     # the same axis counted from the end
            c["predir"] = xr.choice(("new", "new", "exists", "overwrite", "overwrite"))   # state of the directory before the write
            if c["predir"] == "overwrite":
                c["c_before"] = [list(q) for q in A.rand_chunks(xr, shape)]
                c["seed_before"] = xr.randrange(2 ** 31)
            c["derive"] = xr.choice(("from_array", "from_array", "map_blocks", "rechunk"))
            yield c
            continue
        nsrc = rng.choice((1, 1, 1, 2, 2, 3))
        variant = "plain"
        if nsrc >= 2:
            variant = rng.choice(("plain", "plain", "same-source-twice", "two-into-one-target", "same-source-equal-targets"))
        srcs = []
        base_shape = A.rand_shape(rng, maxnd=3, maxlen=7)
        for j in range(nsrc):
            shape = base_shape if (variant != "plain" or rng.random() < 0.5) else A.rand_shape(rng, maxnd=3, maxlen=7)
            rk = rng.choice(("none", "none", "exact", "inside", "inside", "inside", "step", "none-ends"))
            if rng.random() < 0.03:
                rk = "negative"   # Calibration: negative region indices raise NotImplementedError (unsupported); kept rare
            s = {"shape": list(shape), "dtype": rng.choice(A.DTYPES), "c": [list(c) for c in A.rand_chunks(rng, shape)],
                 "seed": rng.randrange(2 ** 31), "rk": rk, "wide": rng.random() < 0.1}
            if rk == "none":
                s["region"], s["tshape"] = None, list(shape)
            elif rk == "exact":
                s["region"], s["tshape"] = [[0, nn, None] for nn in shape], list(shape)
            else:
                s["region"], s["tshape"] = _region(rng, shape, "inside" if rk == "inside" else rk)
            srcs.append(s)
        if variant == "same-source-twice":
            for s in srcs[1:]:
                s["same_as_first"] = True
                s["shape"], s["dtype"], s["c"], s["seed"] = srcs[0]["shape"], srcs[0]["dtype"], srcs[0]["c"], srcs[0]["seed"]
                rk = s["rk"] if s["rk"] != "none" else "inside"
                s["rk"] = rk
                if rk == "exact":
                    s["region"], s["tshape"] = [[0, nn, None] for nn in s["shape"]], list(s["shape"])
                else:
                    s["region"], s["tshape"] = _region(rng, s["shape"], rk)
        if variant == "same-source-equal-targets":
            # the same source into distinct targets that start out with equal content and tokenize by value, as
            # freshly allocated NumPy arrays do
            for s in srcs[1:]:
                s.update({k: srcs[0][k] for k in ("shape", "dtype", "c", "seed", "rk", "region", "tshape", "wide")})
                s["same_as_first"] = True
            for s in srcs:
                s["value_token"] = True
        if variant == "plain" and nsrc >= 2 and xr.random() < 0.35:
            # the same data and shape in another chunking (a rechunk of the first source) into a target of its own
            variant = "same-data-other-chunks"
            for s in srcs[1:]:
                s["shape"], s["dtype"], s["seed"] = srcs[0]["shape"], srcs[0]["dtype"], srcs[0]["seed"]
                s["c"] = [list(q) for q in A.rand_chunks(xr, tuple(s["shape"]))]
                s["rechunk_of_first"] = True
                if s["rk"] == "none":
                    s["region"], s["tshape"] = None, list(s["shape"])
                elif s["rk"] == "exact":
                    s["region"], s["tshape"] = [[0, nn, None] for nn in s["shape"]], list(s["shape"])
                else:
                    s["region"], s["tshape"] = _region(xr, s["shape"], "inside" if s["rk"] == "inside" else s["rk"])
        if variant == "two-into-one-target":
            # one target, the sources are written side by side along a new leading split of axis 0
            srcs = srcs[:2]
            if not base_shape:
                variant = "plain"
            else:
                n0 = base_shape[0]
                gap = rng.choice((0, 1, 2))
                pad = [rng.choice((0, 1, 2)) for _ in base_shape]
                T = [pad[0] + 2 * n0 + gap + rng.choice((0, 1))] + [p + nn + rng.choice((0, 1)) for p, nn in zip(pad[1:], base_shape[1:])]
                rest = [[p, p + nn, None] for p, nn in zip(pad[1:], base_shape[1:])]
                srcs[0]["region"] = [[pad[0], pad[0] + n0, None]] + rest
                srcs[1]["region"] = [[pad[0] + n0 + gap, pad[0] + 2 * n0 + gap, None]] + rest
                for s in srcs:
                    s["tshape"], s["rk"], s["wide"] = T, "inside", False
                srcs[1]["dtype"] = srcs[0]["dtype"]
                srcs[1]["shape"] = srcs[0]["shape"]
                srcs[1]["c"] = [list(c) for c in A.rand_chunks(rng, base_shape)]
                srcs[1]["shared_target"] = True
        how = rng.choice(("kwarg", "kwarg", "kwarg", "config", "default"))
        sched = rng.choice(("sync", "threads", "threads", "threads")) if how != "default" else "threads"
        case = {"k": "store", "variant": variant, "srcs": srcs, "lock": rng.choice(("true", "true", "false", "false", "threading", "serializable")),
                "compute": rng.random() < 0.65, "return_stored": rng.random() < 0.3, "sched": sched, "sched_how": how,
                "single_form": rng.random() < 0.5, "regions_form": rng.choice(("list", "tuple-if-one"))}
        # ---- parameter audit: Delayed targets, load_stored, optimize_graph=, derived sources, a second store
        if variant != "same-source-equal-targets" and xr.random() < 0.22:
            # (value-tokenized targets excluded: dask.delayed names an object after its token, two equal-content
            #  targets would be ONE delayed constant)
            td = xr.choice(("obj", "obj", "notraverse", "call"))
            for s in srcs:
                if xr.random() < 0.8:
                    s["tdelayed"] = td
        if xr.random() < 0.3:
            case["load_stored"] = xr.choice((True, True, False))
            if case["load_stored"] and xr.random() < 0.5:
                case["return_stored"] = True
            if case["load_stored"] is False and xr.random() < 0.7:
                case["return_stored"], case["compute"] = True, False
        if xr.random() < 0.15:
            case["optimize_graph"] = False
        for s in srcs:
            if not s.get("same_as_first") and not s.get("rechunk_of_first"):
                s["derive"] = xr.choice(("from_array", "from_array", "from_array", "map_blocks", "rechunk", "sliced"))
        if case["compute"] and xr.random() < 0.12:
            case["again"] = True
        yield case


# ---------------------------------------------------------------------------------------------
# running
# ---------------------------------------------------------------------------------------------

def _slices(region):
    return tuple(slice(*r) for r in region)


def run_case(case, ctx):
    with warnings.catch_warnings():
        warnings.simplefilter("ignore")
        if case["k"] == "npy":
            _run_npy(case, ctx)
        else:
            _run_store(case, ctx)


_RK = {"none": "no-region", "exact": "region", "inside": "region", "step": "region-step", "none-ends": "region-none-ends",
       "negative": "region-negative"}


def _feat(case):
    """Case-level feature (exceptions, deferred compute): only whether explicit regions are involved."""
    return "no-region" if all(s["region"] is None for s in case["srcs"]) else "regions"


def _derive(da, x, chunks, how):
    """The source collection for data ``x`` in chunking ``chunks``, built in one of several ways."""
    if how == "map_blocks":
        return da.from_array(x, chunks=chunks).map_blocks(np.copy)          # a blockwise producer the store task can fuse with
    if how == "rechunk":
        return da.from_array(x, chunks=x.shape if x.ndim else ()).rechunk(chunks)
    if how == "sliced" and x.ndim and x.shape[0] >= 1:
        big = np.concatenate([x[:1], x], axis=0)                            # one more row in front, cut off lazily
        c0 = (1,) + tuple(chunks[0])
        return da.from_array(big, chunks=(c0,) + tuple(chunks[1:]))[1:]
    return da.from_array(x, chunks=chunks)


def _reset(t):
    t.data[...] = 0 if t.sentinel is None else t.sentinel
    t.count[...] = 0
    t.events.clear()
    t.reads = t.inside = t.max_inside = 0


def _run_store(case, ctx):
    import dask
    import dask.array as da
    from dask.utils import SerializableLock

    srcs = case["srcs"]
    ctx.op("store:lock=%s:%s" % (case["lock"], case["sched"]))
    feat0 = _feat(case)
    datas, sources, targets, targs, regions = [], [], [], [], []
    for s in srcs:
        if s.get("same_as_first"):
            x, dx = datas[0], sources[0]
        elif s.get("rechunk_of_first"):
            x, dx = datas[0], sources[0].rechunk(A.chunks_of_desc(s["c"]))
        else:
            x = A.rand_data(s["seed"], s["shape"], s["dtype"])
            dx = _derive(da, x, A.chunks_of_desc(s["c"]), s.get("derive", "from_array"))
            if s.get("derive", "from_array") != "from_array":
                ctx.count("derived_sources")
        if s.get("shared_target"):
            t, targ = targets[0], targs[0]
        else:
            tdt = s["dtype"]
            if s["wide"] and np.dtype(tdt).kind in "iu":
                tdt = "float64"
            t = (ValueTokenTarget if s.get("value_token") else MonitoredTarget)(s["tshape"], tdt)
            td = s.get("tdelayed")
            if td == "obj":
                targ = dask.delayed(t)
            elif td == "notraverse":
                targ = dask.delayed(t, traverse=False)
            elif td == "call":
                targ = dask.delayed(lambda t=t: t, pure=False)()
            else:
                targ = t
            if td:
                ctx.count("delayed_targets")
        datas.append(x)
        sources.append(dx)
        targets.append(t)
        targs.append(targ)
        regions.append(_slices(s["region"]) if s["region"] is not None else None)
    if any(tuple(dx.chunks) != tuple(A.chunks_of_desc(s["c"])) for dx, s in zip(sources, srcs)):
        raise ValueError("harness: derived source has other chunks than described")
    if len(srcs) >= 2 and len({tuple(dx.chunks) for dx in sources}) >= 2:
        ctx.count("calls_with_differently_chunked_sources")
    ctx.nontrivial = any(A.has_split(dx.chunks) for dx in sources)
    lock = {"true": True, "false": False, "threading": threading.Lock(), "serializable": SerializableLock()}[case["lock"]]
    kw = {}
    if case["sched_how"] == "kwarg":
        kw["scheduler"] = case["sched"]
        if case["sched"] == "threads":
            kw["num_workers"] = 4
    if case.get("optimize_graph") is False:
        kw["optimize_graph"] = False
        ctx.count("optimize_graph_false")
    skw = dict(kw)
    ls = case.get("load_stored")
    if ls is not None:
        skw["load_stored"] = ls
        ctx.count("load_stored_explicit")
    single = len(srcs) == 1 and case["single_form"]
    if all(r is None for r in regions):
        reg_arg = None
    elif len(srcs) == 1 and (single or case["regions_form"] == "tuple-if-one"):
        reg_arg = regions[0]
    else:
        reg_arg = list(regions)
    if reg_arg is not None and not isinstance(reg_arg, tuple) and any(r is None for r in reg_arg):
        reg_arg = [r if r is not None else tuple(slice(None) for _ in t.shape) for r, t in zip(reg_arg, targets)]
    cfg = {"scheduler": case["sched"], "num_workers": 4} if case["sched_how"] == "config" else {}
    distinct_targets = []
    for t in targets:
        if not any(t is u for u in distinct_targets):
            distinct_targets.append(t)
    # load_stored given explicitly: the mechanisms are features of their own
    lsfeat = ""
    if ls is True and case["compute"] and case["return_stored"]:
        lsfeat = "load_stored=True&compute=True"
    elif ls is False and not case["compute"] and case["return_stored"]:
        lsfeat = "load_stored=False&compute=False"

    def written():
        return sum(int(t.count.sum()) for t in distinct_targets)

    def once(rnd):
        feat = feat0 + ("&second-store-of-the-same-call" if rnd else "")
        loaded = None
        try:
            with dask.config.set(cfg):
                res = da.store(sources[0] if single else sources, targs[0] if single else targs, lock=lock, regions=reg_arg,
                               compute=case["compute"], return_stored=case["return_stored"], **skw)
                if not case["compute"]:
                    ctx.count("deferred_stores")
                    if written():
                        ctx.violation("store:compute=False:%s:written-before-compute" % feat, "%d element writes before the later compute" % written())
                    if res is None:
                        ctx.violation("store:compute=False:%s:returned-None" % feat, "nothing to compute later")
                        return False
                    if lsfeat == "load_stored=False&compute=False":
                        # the blocks of the returned arrays ARE the targets ("store will return the appropriate target for
                        # each chunk that is stored"): compute them block by block, never assembled
                        rs = res if isinstance(res, tuple) else (res,)
                        blocks = dask.compute([list(r.to_delayed().ravel()) for r in rs], **kw)[0]
                        ctx.count("load_stored_false_blocks_checked")
                        for j, (bl, t) in enumerate(zip(blocks, targets)):
                            if any(b is not t for b in bl):
                                ctx.violation("store:return_stored&%s:%s:block-is-not-the-target" % (lsfeat, feat),
                                              "source %d: blocks %s" % (j, [type(b).__name__ for b in bl][:4]))
                    else:
                        later = dask.compute(res, **kw)[0]
                        if case["return_stored"]:
                            loaded = later if isinstance(later, tuple) else (later,)
                elif case["return_stored"]:
                    before = written()
                    rs = res if isinstance(res, tuple) else (res,)
                    expect_w = sum(int(x.size) for x in datas)
                    if before != expect_w:
                        ctx.violation("store:return_stored&compute=True:%s:not-written-at-return" % feat,
                                      "%d element writes at return, expected %d" % (before, expect_w))
                    if lsfeat:
                        try:
                            loaded = dask.compute(*rs, **kw)
                        except Exception as ex:  # noqa: BLE001
                            ctx.violation("store:return_stored&%s:returned-arrays" % lsfeat, "computing the returned arrays raised %r" % (ex,))
                            loaded = None
                    else:
                        loaded = dask.compute(*rs, **kw)
                elif res is not None:
                    ctx.violation("store:%s:return-value" % feat, "compute=True, return_stored=False returned %r" % (type(res),))
        except NotImplementedError as ex:
            ctx.unsupported(str(ex))
            return False
        except Exception as ex:  # noqa: BLE001
            ctx.exception(ex, prefix="store:%s" % feat)
            return False
        # ---- returned arrays ---------------------------------------------------------------------------
        if case["return_stored"] and loaded is not None:
            ctx.count("return_stored_checked")
            if len(loaded) != len(datas):
                ctx.violation("store:return_stored:%s:number-of-results" % feat, "%d results for %d sources" % (len(loaded), len(datas)))
            else:
                for j, (lv, x, t) in enumerate(zip(loaded, datas, targets)):
                    m = compare_arrays(lv, x.astype(t.dtype), exact=True)
                    if m and lsfeat:
                        # one mechanism whatever the symptom (shape / values): one label
                        ctx.violation("store:return_stored&%s:returned-arrays" % lsfeat, "source %d: %s: %s" % (j, m[0], m[1]))
                    elif m:
                        ctx.violation("store:return_stored:%s:%s" % (_RK[srcs[j]["rk"]], m[0]), "source %d: %s" % (j, m[1]),
                                      compute=case["compute"], variant=case["variant"])
        # ---- write history -----------------------------------------------------------------------------
        for t in distinct_targets:
            ctx.count("targets_checked")
            exp_count = np.zeros(t.shape, np.int32)
            mine = [(x, r) for x, r, u in zip(datas, regions, targets) if u is t]
            feat = [_RK[s_["rk"]] for s_, u in zip(srcs, targets) if u is t][0] + ("&two-sources-one-target" if len(mine) > 1 else "")
            if any(s_.get("tdelayed") for s_, u in zip(srcs, targets) if u is t):
                ctx.count("delayed_target_histories_checked")
            for x, r in mine:
                key = r if r is not None else tuple(slice(None) for _ in t.shape)
                try:
                    if exp_count[key].shape != x.shape:
                        raise ValueError("harness: region %s selects %s for a source of shape %s" % (key, exp_count[key].shape, x.shape))
                except IndexError as ex:
                    raise ValueError("harness region: %s" % ex) from None
                exp_count[key] += 1
            if not np.array_equal(t.count, exp_count):
                over = int(((t.count > exp_count)).sum())
                under = int(((t.count < exp_count)).sum())
                outside = int(((t.count > 0) & (exp_count == 0)).sum())
                sym = "outside-region-written" if outside else ("written-more-than-once" if over else "not-written")
                ctx.violation("store:%s:%s" % (feat, sym), "%d elements written too often, %d too rarely, %d outside the region; writes=%s"
                              % (over, under, outside, [str(e[0]) for e in t.events][:6]), regions=[str(r) for _, r in mine],
                              target_shape=t.shape, round=rnd)
                continue
            # values: replay the expected content
            exp = np.zeros(t.shape, t.dtype) if t.sentinel is None else np.full(t.shape, t.sentinel, t.dtype)
            for x, r in mine:
                key = r if r is not None else tuple(slice(None) for _ in t.shape)
                exp[key] = x
            m = compare_arrays(t.data, exp, exact=True)
            if m:
                ctx.violation("store:%s:%s" % (feat, m[0]), m[1], regions=[str(r) for _, r in mine], round=rnd)
            nw = len(t.events)
            if nw >= 2:
                ctx.count("targets_with_several_writes")
                threads = len({e[2] for e in t.events})
                if threads >= 2:
                    ctx.count("targets_written_by_several_threads")
                if case["lock"] != "false":
                    ctx.count("locked_histories_checked")
                    if t.max_inside > 1:
                        ctx.violation("store:lock=%s:%s:overlapping-writes" % (case["lock"], case["sched"]),
                                      "%d writes inside __setitem__ at once; overlapping pairs %s" % (t.max_inside, t.overlaps()[:3]))
                elif t.max_inside > 1:
                    ctx.count("overlap_seen_without_lock")
        return True

    if not once(0):
        return
    ctx.distinct("store_config", (case["lock"], case["compute"], case["return_stored"], case["sched"], case["sched_how"], case["variant"]))
    ctx.sample = {"sources": [(s["shape"], s["c"]) for s in srcs][:2], "regions": [str(r) for r in regions][:2], "lock": case["lock"],
                  "writes": [len(t.events) for t in distinct_targets], "max_concurrent": [t.max_inside for t in distinct_targets]}
    if case.get("again"):
        # STATE: the very same call once more on the same sources and (reset) targets must write everything again
        for t in distinct_targets:
            _reset(t)
        if once(1):
            ctx.count("stored_again")


def _run_npy(case, ctx):
    import dask.array as da

    ctx.op("npy_stack")
    x = A.rand_data(case["seed"], case["shape"], case["dtype"])
    c = A.chunks_of_desc(case["c"])
    dx = _derive(da, x, c, case.get("derive", "from_array"))
    if tuple(dx.chunks) != tuple(c):
        raise ValueError("harness: derived source has other chunks than described")
    axis = case["axis"]
    axis_arg = axis - x.ndim if case.get("axis_neg") else axis
    ctx.nontrivial = A.has_split(c)
    feat = "axis-split" if len(c[axis]) > 1 else "axis-one-chunk"
    if 0 in case["shape"]:
        feat += "&zero-length"
    if case.get("axis_neg"):
        feat += "&negative-axis"
    predir = case.get("predir", "new")
    if predir == "overwrite":
        feat += "&directory-holds-an-older-stack"
    d = tempfile.mkdtemp(prefix="vf-c29-")
    try:
        path = os.path.join(d, "stack")
        try:
            import dask

            with dask.config.set(scheduler=case["sched"]):
                if predir == "exists":
                    os.mkdir(path)
                    ctx.count("npy_existing_dir")
                elif predir == "overwrite":
                    # STATE: the directory already holds a stack of other data in another chunking (possibly more files)
                    xb = A.rand_data(case["seed_before"], case["shape"], case["dtype"])
                    da.to_npy_stack(path, da.from_array(xb, chunks=A.chunks_of_desc(case["c_before"])), axis=axis)
                    ctx.count("npy_overwrites")
                da.to_npy_stack(path, dx, axis=axis_arg)
                y = da.from_npy_stack(path, mmap_mode=case["mmap"])
                v = y.compute()
        except NotImplementedError as ex:
            ctx.unsupported(str(ex))
            return
        except Exception as ex:  # noqa: BLE001
            ctx.exception(ex, prefix="npy_stack:%s" % feat)
            return
        ctx.count("npy_roundtrips")
        if case.get("axis_neg"):
            ctx.count("npy_negative_axis")
        m = compare_arrays(np.asarray(v), x, exact=True)
        if m:
            ctx.violation("npy_stack:%s:%s" % (feat, m[0]), m[1])
        if y.dtype != x.dtype:
            ctx.violation("npy_stack:%s:lazy-dtype" % feat, "lazy dtype %s, source %s" % (y.dtype, x.dtype))
        if tuple(y.chunks[axis]) != tuple(dx.chunks[axis]):
            # a negative axis is a mechanism of its own (one label whatever else the case has)
            ctx.violation("npy_stack:%s:chunks-along-axis" % ("negative-axis" if case.get("axis_neg") else feat),
                          "chunks %s, source %s" % (y.chunks[axis], dx.chunks[axis]))
        if tuple(y.shape) != x.shape:
            ctx.violation("npy_stack:%s:lazy-shape" % feat, "lazy shape %s, source %s" % (y.shape, x.shape))
        nfiles = len([f for f in os.listdir(path) if f.endswith(".npy")])
        ctx.sample = {"shape": case["shape"], "axis": axis_arg, "chunks": str(y.chunks), "files": nfiles}
        del y, v
    finally:
        shutil.rmtree(d, ignore_errors=True)
