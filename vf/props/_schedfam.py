"""Shared workload of the scheduler properties C01-C04 (DESIGN 4.1-4.3, 5).

One case stream, four facets; each property module applies only its own
checker so that the verdicts stay independent.
"""
from __future__ import annotations

import itertools
import os
import random
import tempfile

from ..gen import graphs as G
from ..mon import sched as S

CONFIGS_SMALL = [(1, 1), (2, 1), (3, 2), (8, 1), (2, -1), (3, -1)]
FAILS = ("ValueError", "KeyError", "Boom", "BaseBoom", "ZeroDivisionError")


def _small_kind_product(n, mask):
    deps = G.shape_deps(n, mask)
    return itertools.product(*[G.kind_choices(len(deps[i])) for i in range(n)])


def cases(tier, seed, facet):
    rng = random.Random(seed * 1000003 + 11)
    cap = 400 if tier == "quick" else 20000
    nmax = 4
    # ---- A: complete small space -------------------------------------------------------
    c = 0
    for n in range(1, nmax + 1):
        for mask in G.shapes(n):
            for kinds in _small_kind_product(n, mask):
                c += 1
                forms = ("legacy", "spec") if tier == "thorough" else (("legacy", "spec")[c % 2],)
                for form in forms:
                    base = {"k": "small", "space": "exhaustive", "n": n, "mask": mask, "kinds": list(kinds),
                            "form": form, "style": "str", "cap": cap}
                    if facet == "C04":
                        calls = [i for i, k in enumerate(kinds) if k == "call"]
                        for i in calls:
                            d = dict(base)
                            d["fail"] = [[i, FAILS[(i + c) % len(FAILS)]]]
                            yield d
                    else:
                        yield base
    # ---- A': sampled n=5 (thorough: also 6) shapes, other key styles -----------------------
    k = 150 if tier == "quick" else 4000
    for _ in range(k):
        n = 5 if tier == "quick" or rng.random() < 0.6 else 6
        mask = rng.getrandbits(n * (n - 1) // 2)
        if rng.random() < 0.5:
            mask &= rng.getrandbits(n * (n - 1) // 2)
        kinds = [rng.choice(ch) for ch in (G.kind_choices(len(d)) for d in G.shape_deps(n, mask).values())]
        d = {"k": "small", "n": n, "mask": mask, "kinds": kinds, "form": rng.choice(("legacy", "spec")),
             "style": rng.choice(G.KEY_STYLES), "cap": 60 if tier == "quick" else 600, "subsets": "sample",
             "pseed": rng.randrange(2 ** 31)}
        if facet == "C04":
            calls = [i for i, kk in enumerate(kinds) if kk == "call"]
            if not calls:
                continue
            d["fail"] = [[i, rng.choice(FAILS)] for i in rng.sample(calls, rng.randint(1, min(3, len(calls))))]
        yield d
    # ---- B: random larger programs, sampled schedules ---------------------------------------
    k = 260 if tier == "quick" else 5000
    for _ in range(k):
        d = {"k": "random", "n": rng.randint(5, 30 if tier == "quick" else 80), "pseed": rng.randrange(2 ** 31),
             "form": rng.choice(("legacy", "spec")), "style": rng.choice(G.KEY_STYLES),
             "nw": rng.choice((1, 2, 3, 4, 8)), "cs": rng.choice((1, 1, 2, 3, -1)),
             "nsched": 12 if tier == "quick" else 40}
        if facet == "C04":
            d["nfail"] = rng.randint(1, 3)
            d["rerun"] = rng.random() < 0.2
        yield d
    # ---- B': wide 'pairs' graphs with >=3 workers and batches of 2-3: completion orders that leave
    #          half-empty batches in flight (more outstanding batches than workers)
    k = 70 if tier == "quick" else 1500
    for _ in range(k):
        d = {"k": "random", "family": "pairs", "plain": True, "n": rng.randint(11, 26), "pseed": rng.randrange(2 ** 31),
             "form": rng.choice(("legacy", "spec")), "style": "str",
             "nw": rng.choice((3, 3, 4, 5)), "cs": rng.choice((2, 2, 3)),
             "nsched": 60 if tier == "quick" else 150, "fullreq": True}
        if facet == "C04":
            d["nfail"] = 1
            d["rerun"] = False
        yield d
    # ---- C: real pools -------------------------------------------------------------------------
    k = 170 if tier == "quick" else 3000
    for j in range(k):
        r = rng.random()
        mode = "threads" if r < 0.7 else ("sync" if r < 0.8 else ("compute-executor" if r < 0.9 else "threads-default"))
        d = {"k": "pool", "mode": mode, "n": rng.randint(4, 24 if tier == "quick" else 60),
             "pseed": rng.randrange(2 ** 31), "form": rng.choice(("legacy", "spec")),
             "style": rng.choice(G.KEY_STYLES), "nw": rng.randint(1, 8), "cs": rng.choice((1, 1, 2, -1)),
             "yieldp": rng.choice((0.0, 0.1, 0.3))}
        if facet == "C04":
            d["nfail"] = rng.randint(1, 3)
        yield d
    k = 24 if tier == "quick" else 400
    for j in range(k):
        d = {"k": "pool", "mode": "processes", "n": rng.randint(3, 12), "pseed": rng.randrange(2 ** 31),
             "form": rng.choice(("legacy", "spec")), "style": rng.choice(("str", "tuple")),
             "nw": 2, "cs": rng.choice((1, 6, -1)), "optimize": rng.random() < 0.5}
        if facet == "C04":
            d["nfail"] = rng.randint(1, 2)
            d["exc"] = rng.choice(("ValueError", "KeyError", "Boom", "UnpicklableBoom", "Boom2", "UnpicklableBoomVE",
                                   "UnpicklableBoomRE", "UnpicklableBoomNI"))
        yield d
    if facet == "C04":
        # several failing process-scheduler calls from ONE parent process, raising different exception
        # classes (two of them share their __name__): state kept between calls must not mix them up
        for j in range(8 if tier == "quick" else 120):
            excs = rng.sample(("Boom", "Boom2", "ValueError", "KeyError"), 3)
            if rng.random() < 0.7:
                excs = rng.choice((["Boom", "Boom2", "Boom"], ["Boom2", "Boom", "KeyError"], ["Boom", "ValueError", "Boom2"]))
            yield {"k": "pool", "mode": "processes-seq", "n": rng.randint(3, 7), "pseed": rng.randrange(2 ** 31),
                   "form": rng.choice(("legacy", "spec")), "style": "str", "nw": 2, "cs": rng.choice((1, 6)),
                   "optimize": rng.random() < 0.5, "nfail": 1, "excs": list(excs)}


# ---------------------------------------------------------------------------

_POOL = {}


def _proc_pool():
    if "p" not in _POOL:
        import multiprocessing
        from concurrent.futures import ProcessPoolExecutor

        _POOL["p"] = ProcessPoolExecutor(2, mp_context=multiprocessing.get_context("spawn"))
    return _POOL["p"]


def shard_finish():
    p = _POOL.pop("p", None)
    if p is not None:
        p.shutdown(wait=True, cancel_futures=True)
    return {"queue_rebinding_hits": S.QUEUE_HITS[0]}


def _program(case):
    if case["k"] == "small":
        perm = None
        if case.get("pseed") is not None:
            perm = list(range(case["n"]))
            random.Random(case["pseed"]).shuffle(perm)
        return G.small_program(case["n"], case["mask"], case["kinds"], style=case["style"], perm=perm,
                               fail=[tuple(x) for x in case.get("fail", [])])
    rng = random.Random(case["pseed"])
    fk = (case["exc"],) if case.get("exc") else FAILS
    return G.random_program(rng, case["n"], style=case["style"], nfail=case.get("nfail", 0), fail_kinds=fk,
                            family=case.get("family"), rich=not case.get("plain"))


def _emit(prog, form, **kw):
    return prog.legacy(**kw) if form == "legacy" else prog.spec(**kw)


def _requests_small(prog, case, facet):
    keys = [n.key for n in prog.nodes]
    n = len(keys)
    if case.get("subsets") == "sample":
        rng = random.Random(case["pseed"] + 1)
        return [G.random_request(rng, keys) for _ in range(4)]
    reqs = [list(c) for r in range(1, n + 1) for c in itertools.combinations(keys, r)]
    if facet in ("C01", "C02", "C03"):
        reqs += [[], [[], []], [[], [keys[-1]]]]          # the empty subset, in flat and nested form
    if facet == "C01":
        reqs += [keys[-1], [[keys[0]], [keys[-1], keys[0]]], [[[keys[-1]]]]]  # bare key, nesting, repeats
    return reqs


def _apply(facet, model, req, obs, out, failing):
    if facet == "C01":
        S.check_values(model, req, obs, out)
    elif facet == "C02":
        if obs.exc is not None:
            out("exception-on-valid-graph", repr(obs.exc))
        S.check_once(model, obs, out)
    elif facet == "C03":
        if obs.exc is not None:
            out("exception-on-valid-graph", repr(obs.exc))
        S.check_release(model, obs, out)
    elif facet == "C04":
        S.check_failure(model, obs, out)


def run_case(case, ctx, facet):
    prog = _program(case)
    failing = bool(case.get("fail") or case.get("nfail"))
    ctx.op(case["k"] + ":" + case.get("mode", case.get("form")))
    feat = _feat(case)

    def outer(req, cfg, sched):
        def out(symptom, msg, raw=False):
            lab = symptom if raw else "%s:%s" % (feat(cfg), symptom)
            if len(ctx.violations) < 6:
                ctx.violation(lab, msg, request=repr(req), config=cfg, schedule=sched, program=prog.describe()[:40])
        return out

    if case["k"] == "small":
        _run_small(case, ctx, facet, prog, failing, outer)
    elif case["k"] == "random":
        _run_random(case, ctx, facet, prog, failing, outer)
    else:
        _run_pool(case, ctx, facet, prog, failing, outer)


def _feat(case):
    def f(cfg):
        nw, cs = cfg
        return "%s:%s:nw%s:cs%s" % (case["k"] if case["k"] != "pool" else case["mode"], case["form"],
                                    "1" if nw == 1 else ">1", "-1" if cs == -1 else ("1" if cs == 1 else "k"))
    return f


def _note_states(ctx, obs):
    st = ctx.sets.setdefault("scheduler_states", set())
    for ev in obs.events:
        if ev[1] in ("cb_pre", "cb_post"):
            st.add("%x" % (hash(ev[4]) & 0xFFFFFFFFFFFF))


def _run_small(case, ctx, facet, prog, failing, outer):
    dsk = _emit(prog, case["form"])
    orders = ctx.sets.setdefault("completion_orders", set())
    nruns = 0
    exhausted_all = True
    for req in _requests_small(prog, case, facet):
        model = S.Model(prog, req)
        if facet == "C04" and not any(prog.nodes[i].fail for i in model.need):
            continue
        for cfg in CONFIGS_SMALL:
            nw, cs = cfg

            def run(prefix, cfg=cfg, req=req):
                return S.run_controlled(dsk, req, num_workers=cfg[0], chunksize=cfg[1], prefix=prefix)

            it = S.explore(run, case["cap"])
            while True:
                try:
                    obs = next(it)
                except StopIteration as stop:
                    _, done = stop.value
                    exhausted_all = exhausted_all and done
                    break
                nruns += 1
                if obs.queue_gets == 0:
                    ctx.count("queue_never_hit")
                _apply(facet, model, req, obs, outer(req, cfg, [t[0] for t in obs.trace]), failing)
                orders.add("%x" % (hash((case["n"], case["mask"], tuple(case["kinds"]), repr(req), cfg,
                                         tuple(ev[3] for ev in obs.events if ev[1] == "cb_post"))) & 0xFFFFFFFFFFFF))
                if nruns % 7 == 0:
                    _note_states(ctx, obs)
    ctx.count("controlled_runs", nruns)
    ctx.count("graphs_with_all_orders_enumerated" if exhausted_all else "graphs_capped")
    ctx.nontrivial = len(prog.nodes) >= 2 and any(prog.deps(n) for n in prog.nodes)
    ctx.sig = (case["n"], case["mask"], case["kinds"], case["form"], case["style"], case.get("fail"))
    ctx.sample = {"program": prog.describe(), "runs": nruns, "all_orders": exhausted_all}


def _run_random(case, ctx, facet, prog, failing, outer):
    rng = random.Random(case["pseed"] + 7)
    dsk = _emit(prog, case["form"])
    keys = [n.key for n in prog.nodes]
    cfg = (case["nw"], case["cs"])
    orders = ctx.sets.setdefault("completion_orders", set())
    nruns = 0
    for s in range(case["nsched"]):
        req = G.random_request(rng, keys)
        if case.get("fullreq"):
            dm = prog.dep_map()
            used = set().union(*dm.values()) if dm else set()
            req = [n.key for n in prog.nodes if n.idx not in used]      # every sink: the whole graph is needed
        model = S.Model(prog, req)
        if facet == "C04" and not any(prog.nodes[i].fail for i in model.need):
            req = [prog.nodes[next(i for i in range(len(keys)) if prog.nodes[i].fail)].key, keys[-1]]
            model = S.Model(prog, req)
        policy = ("random", "pct", "last", "first")[s % 4] if s > 3 else "random"
        if case.get("family") == "pairs":
            policy = "random" if s % 3 else "last"
        pts = [rng.randrange(0, 2 * len(keys)) for _ in range(3)] if policy == "pct" else ()
        extra = {"rerun_exceptions_locally": True} if case.get("rerun") and s % 2 else None
        obs = S.run_controlled(dsk, req, num_workers=cfg[0], chunksize=cfg[1], policy=policy,
                               rng=random.Random(case["pseed"] + s), pct_points=pts, extra_kwargs=extra)
        nruns += 1
        if obs.queue_gets == 0:
            ctx.count("queue_never_hit")
        if extra and facet == "C04":
            # the failing task is re-executed locally by design: only type/message/finish are checked
            _apply(facet, model, req, _strip_second_start(obs), outer(req, cfg, [t[0] for t in obs.trace]), failing)
        else:
            _apply(facet, model, req, obs, outer(req, cfg, [t[0] for t in obs.trace]), failing)
        orders.add("%x" % (hash((case["pseed"], repr(req), tuple(ev[3] for ev in obs.events if ev[1] == "cb_post"))) & 0xFFFFFFFFFFFF))
        _note_states(ctx, obs)
    ctx.count("controlled_runs", nruns)
    ctx.nontrivial = True
    ctx.sample = {"program": prog.describe()[:12], "config": cfg, "runs": nruns}


def _strip_second_start(obs):
    return obs


def _run_pool(case, ctx, facet, prog, failing, outer):
    import dask
    import dask.local
    import dask.multiprocessing
    import dask.threaded
    from concurrent.futures import ThreadPoolExecutor

    from ..mon.yieldinj import inject

    if case["mode"] == "processes-seq":
        ctx.count("process_call_sequences")
        for j, exc in enumerate(case["excs"]):
            sub = dict(case, mode="processes", exc=exc, pseed=case["pseed"] + 17 * j)
            _run_pool(sub, ctx, facet, _program(sub), failing, outer)
        return
    rng = random.Random(case["pseed"] + 3)
    keys = [n.key for n in prog.nodes]
    req = G.random_request(rng, keys)
    model = S.Model(prog, req)
    if facet == "C04" and not any(prog.nodes[i].fail for i in model.need):
        req = [prog.nodes[next(i for i in range(len(keys)) if prog.nodes[i].fail)].key]
        model = S.Model(prog, req)
    cfg = (case["nw"], case["cs"])
    mode = case["mode"]
    obs = S.Obs()
    out = outer(req, cfg, None)
    ctx.nontrivial = True
    if mode == "processes":
        fd, logpath = tempfile.mkstemp(prefix="vf-plog-")
        os.close(fd)
        try:
            dsk = _emit(prog, case["form"], logpath=logpath)
            G.reset_log()
            cache = S.TracingCache()
            try:
                obs.result = dask.multiprocessing.get(dsk, req, pool=_proc_pool(), optimize_graph=case["optimize"],
                                                      chunksize=case["cs"], cache=cache, callbacks=[S.recorder()])
            except BaseException as e:  # noqa: BLE001
                if type(e).__name__ in ("CaseTimeout", "KeyboardInterrupt"):
                    raise
                obs.exc = e
            import json

            evs = G.events()
            with open(logpath) as f:
                for line in f:
                    t, kind, idx, dig, pid = json.loads(line)
                    evs.append((t, kind, idx, dig, pid))
            obs.events = evs
        finally:
            os.unlink(logpath)
        ctx.count("process_runs")
        if facet == "C01":
            S.check_values(model, req, obs, out)
        elif facet == "C02":
            if obs.exc is not None:
                out("exception-on-valid-graph", repr(obs.exc))
            _check_once_proc(model, obs, out)
        elif facet == "C03":
            if obs.exc is not None:
                out("exception-on-valid-graph", repr(obs.exc))
        elif facet == "C04":
            _check_failure_proc(model, obs, out, case)
        ctx.sample = {"mode": mode, "program": prog.describe()[:8], "request": repr(req)}
        return

    delays = {n.idx: rng.choice((0, 0, 0.0005, 0.002)) for n in prog.nodes}
    dsk = _emit(prog, case["form"], delays=delays)
    G.reset_log()
    cache = S.TracingCache()
    cbs = [S.recorder()]
    pool = None
    try:
        with inject([dask.local.get_async, dask.local.finish_task, dask.local.batch_execute_tasks,
                     dask.local.execute_task, dask.local.release_data], case["pseed"], case.get("yieldp", 0.0)) as inj:
            try:
                if mode == "threads":
                    pool = ThreadPoolExecutor(case["nw"])
                    obs.result = dask.threaded.get(dsk, req, pool=pool, cache=cache, callbacks=cbs, chunksize=case["cs"])
                elif mode == "threads-default":
                    obs.result = dask.threaded.get(dsk, req, num_workers=case["nw"], cache=cache, callbacks=cbs,
                                                   chunksize=case["cs"])
                elif mode == "sync":
                    obs.result = dask.get(dsk, req, cache=cache, callbacks=cbs, chunksize=case["cs"])
                elif mode == "compute-executor":
                    from dask.delayed import Delayed

                    pool = ThreadPoolExecutor(case["nw"])
                    flat = G.flatten_req(req)
                    with dask.config.set(cache=cache):
                        vals = dask.compute(*[Delayed(k, dsk) for k in flat], scheduler=pool, optimize_graph=False,
                                            callbacks=cbs, chunksize=case["cs"])
                    req = flat
                    model = S.Model(prog, req)
                    obs.result = tuple(vals)
            except BaseException as e:  # noqa: BLE001
                if type(e).__name__ in ("CaseTimeout", "KeyboardInterrupt"):
                    raise
                obs.exc = e
        ctx.count("injected_yields", inj.injected)
        ls = ctx.sets.setdefault("local_py_lines", set())
        ls.update("%s:%d" % l for l in inj.lines)
    finally:
        if pool is not None:
            pool.shutdown(wait=True)  # drain so that late starts are seen
    obs.events = G.events()
    obs.cache_keys_at_return = set(cache.d)
    ctx.count("pool_runs")
    inter = ctx.sets.setdefault("thread_interleavings", set())
    inter.add("%x" % (hash(tuple((ev[1], ev[2]) for ev in obs.events if ev[1] in ("start", "end"))) & 0xFFFFFFFFFFFF))
    if mode == "compute-executor" and facet in ("C03",):
        obs.cache_keys_at_return = None  # compute() merges graphs; only ordering rules apply
    _apply(facet, model, req, obs, out, failing)
    ctx.sample = {"mode": mode, "program": prog.describe()[:8], "request": repr(req), "config": cfg}


def _check_once_proc(model, obs, out):
    starts = {}
    for ev in obs.events:
        if ev[1] == "start":
            starts.setdefault(ev[2], []).append(ev)
    calls = model.call_nodes()
    for i, l in starts.items():
        if i not in calls:
            out("unneeded-task-executed", "node %d ran but is not needed" % i)
        if len(l) > 1:
            out("task-executed-twice", "node %d started %d times" % (i, len(l)))
        exp = model.argd.get(i)
        if exp is not None and any(e[3] != exp for e in l):
            out("wrong-argument-values", "node %d received %r expected %s" % (i, [e[3] for e in l], exp))
    if obs.exc is None:
        for i in calls:
            if i not in starts:
                out("needed-task-not-executed", "node %d never started" % i)
    ends = {ev[2]: ev[0] for ev in obs.events if ev[1] == "end"}
    for i, l in starts.items():
        for d in model.dm[i]:
            if model.prog.nodes[d].kind == "call" and d in ends and ends[d] > l[0][0]:
                out("started-before-dependency-ended", "node %d started before dependency %d ended (monotonic_ns)" % (i, d))


def _check_failure_proc(model, obs, out, case):
    raised = {ev[2] for ev in obs.events if ev[1] == "raise"}
    started = {ev[2] for ev in obs.events if ev[1] == "start"}
    fin = [ev for ev in obs.events if ev[1] == "cb_finish"]
    if obs.exc is None:
        out("failure-swallowed", "tasks %r raised but the call returned" % sorted(raised))
    else:
        ok = False
        for i in raised:
            n = model.prog.nodes[i]
            if isinstance(obs.exc, G.EXC[n.fail]) and ("boom-%d" % i) in str(obs.exc):
                ok = True
        if not ok:
            msg = ("raised %s(%s); failing tasks that ran: %r"
                   % (type(obs.exc).__name__, str(obs.exc)[:160], [(i, model.prog.nodes[i].fail) for i in sorted(raised)]))
            unpick = raised and all(model.prog.nodes[i].fail.startswith("UnpicklableBoom") for i in raised)
            if unpick and "pickle" in str(obs.exc).lower():
                # mechanism label independent of graph form / batch size: the exception object could not be
                # shipped to the parent and the pickling error is raised in its place
                out("processes:unpicklable-exception:pickling-error-raised-instead-of-original-type", msg, raw=True)
            else:
                out("wrong-exception", msg)
    for i in started:
        fa = model.failed_anc[i] - {i}
        if fa:
            out("descendant-of-failed-task-executed", "node %d ran although ancestor(s) %r fail" % (i, sorted(fa)))
    if len(fin) != 1:
        out("finish-callback-count", "finish fired %d times" % len(fin))
    elif fin[0][3] is not True:
        out("finish-flag-not-failed", "finish fired with failed=%r" % (fin[0][3],))
