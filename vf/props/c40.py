"""C40 — sorting, shuffling and de-duplication keep exactly the right rows.

Statement (fixed): shuffle on any columns puts all rows with equal key values in the same output partition and
preserves the multiset of rows.  sort_values and set_index produce globally ordered results equal to pandas.
drop_duplicates, unique and nunique equal pandas for any partitioning, split_out and shuffle method.

Every case is ONE description (frame seed, rows, index kind, partitioning, operation and keywords); the dask program
and the pandas reference are both built from it.  Partitions of a result are observed with
``dask.compute(*r.to_delayed())`` (view ``graph``; one graph, every partition), for shuffles in a quarter of the cases
also through ``r.partitions[i]`` (view ``accessor``: the partition filter is pushed into the shuffle layers), and
``r.compute()`` is observed as well for half of the sort/set_index cases (view ``compute``: compute() appends
``repartition(npartitions=1)``, which the optimiser moves below ``sort_values``).

Facets
------
``shuffle``    ``df.shuffle(on=cols | [index name] | on_index=True, npartitions=None|1..9, shuffle_method=None|tasks|
               disk, ignore_index, max_branch=None|2|3)``.  Oracle: (1) no key tuple (NA equal to NA) occurs in two
               output partitions; (2) ``concat(partitions)`` equals the input as a multiset of rows (index included
               unless ``ignore_index``).  Keys: int, str, float with NaN, bool, datetime (with NaT), categorical (with
               NaN), nullable Int64 / boolean with NA, str with NA, 1-3 columns.  ``max_branch`` 2/3 with > max_branch
               input and output partitions gives the staged task shuffle (counted ``multi_stage_task_shuffles``).
``sort``       ``df.sort_values(by 1-3 columns, ascending bool | list, na_position, npartitions, shuffle_method,
               max_branch)``.  Reference ``pdf.sort_values(..., kind="stable")``.  Oracle: the sequence of key columns
               equals pandas exactly (global order, hence also partition i before partition i+1); dask is not stable
               among equal keys, so rows are compared as multisets within each run of equal keys.
``set_index``  ``df.set_index(col, drop, [npartitions | divisions | sorted=True on really sorted input],
               shuffle_method, max_branch)``.  Reference ``pdf.set_index(col, drop).sort_index(kind="stable")``.  Oracle:
               index sequence exactly, rows as multisets within equal index values.  ``frames.divisions_violation`` runs
               as a SIDE monitor only (counted, never a C40 verdict: divisions belong to C41).
``dedup``      ``DataFrame.drop_duplicates(subset, keep first|last, split_out, split_every, shuffle_method,
               ignore_index)`` also on an already shuffled frame, ``Series.drop_duplicates``, ``Series.unique``,
               ``Series.nunique(dropna)``, ``DataFrame.nunique(axis 0|1, dropna)``, ``Index.drop_duplicates/unique/nunique``.
               Oracle: the multiset of surviving KEYS (subset columns / values) equals pandas (``keys``); then, as a
               separately labelled facet ``survivor``, the surviving full rows (other columns and index label of the
               first/last duplicate) equal pandas as a multiset.  Row order is never compared.  ``keep=False`` is
               documented unsupported (NotImplementedError -> unsupported).

Labels: ``shuffle:<method>[&multi-stage][&on-index]:<view>:key-in-two-partitions[:na-key(<dtype kinds>)]`` /
``...:rows-<kind>``.  ``sort_values:<mechanism feature>:<view>:key-order`` (first key column out of order) /
``sort_values:multi-column...:<view>:secondary-key-order`` (first key right, later keys wrong) /
``:rows-within-equal-keys-<kind>`` / ``:rows-<kind>``; the mechanism feature is, in this priority: first key is an
unordered categorical with non-lexical category order; first key has NA and some input partition is all-NA; first key has NA
and the non-NA values are already partition-sorted; first key has NA and na_position=first; else dtype kind of the first key
(+ ``&na&na_position=last``, ``&descending``).  ``set_index:<mode | quantile-divisions>:<column kind>[&na-values][&all-NA-input-
partition | &input-presorted-by-non-NA-values]:<view>:index-order`` / ``...``.  ``drop_duplicates:<frame|series>...:keys-<kind>``,
``drop_duplicates:<tree-reduce | shuffle=tasks | shuffle=disk>:survivor``; ``unique|nunique:...``.
Exceptions ``<facet>:<reduced features>:<ExcType>@file:function``.

Calibration (unchanged tree)
----------------------------
* false alarm corrected: ``shuffle(on=<index>, ignore_index=True)`` drops the key (the index) from the output, the key sets
  cannot be observed there -> only the row multiset (without index) is checked for that combination.
* false alarm corrected: ``sort_values(ignore_index=True)`` gives partition-local labels in dask (pandas: one global
  RangeIndex); no global index is promised -> with ``ignore_index=True`` rows are compared without the index.
* generator restricted: ``drop_duplicates`` AFTER an explicit ``shuffle()`` is judged on the surviving keys only:
  ``shuffle`` documents that it keeps no meaningful order, so which duplicate is "first" is undefined there.
* generator restricted: ``set_index`` on a NON-numeric column holding nulls is documented as unsupported ("nulls ... which
  Dask does not entirely support in the index", NotImplementedError hint) -> only float / Int64 columns carry NA into
  ``set_index``; ``sorted=True`` is only generated on columns without NA ("really sorted" is undefined with nulls);
  given ``divisions`` always cover min..max of the column (values outside are clamped into the last partition by design of
  ``set_partitions_pre``) and must be python-sorted (an unordered categorical with non-lexical category order has no
  valid vector -> rejected).
* when the graph view of a sort/set_index already disagrees, the compute() view is not judged (same pipeline; avoids two
  labels for one mechanism).
* ``keep=False`` raises NotImplementedError by documentation -> unsupported.
"""
from __future__ import annotations

import random
import warnings

PROP = "C40"
RULE = ("case = (operation facet, frame seed, rows 0..40, index kind, partitioning incl. empty partitions and unknown "
        "divisions, keywords); facets shuffle / sort_values / set_index / drop_duplicates-unique-nunique with the keyword "
        "ranges of the module docstring; non-trivial = the input has >= 2 partitions and >= 2 rows; distinct = distinct "
        "case descriptions")
ASSUMPTIONS = [
    "pandas 3 is the reference for sort order (stable), NA placement, duplicate semantics; NA keys equal each other",
    "partitions are what dask.compute(*r.to_delayed()) / r.partitions[i] return; sync scheduler; pyarrow import stub",
]
BUDGET = {"quick": 75, "thorough": 560}
_QF = {"shuffles_checked": 250, "shuffle_key_sets_checked": 240, "shuffle_partitions_observed": 1100,
       "multi_stage_task_shuffles": 35, "shuffles_with_na_keys": 110, "shuffles_spreading_over_partitions": 200,
       "shuffle_method_disk": 120, "shuffle_method_tasks": 130, "shuffles_changing_npartitions": 170,
       "sorts_checked": 230, "sorts_with_na_keys": 110, "sorts_multi_column": 140, "sorts_with_several_output_partitions": 150,
       "set_index_checked": 240, "set_index_divisions": 75, "set_index_npartitions": 40, "set_index_sorted": 25,
       "set_index_with_several_output_partitions": 180, "drop_duplicates_checked": 170, "drop_duplicates_with_duplicates": 110,
       "survivor_checked": 110, "dedup_after_shuffle_with_one_shuffle_layers": 40, "nunique_checked": 50, "unique_checked": 30,
       "compute_views": 200, "side_divisions_monitor_runs": 200, "inputs_unknown_divisions": 550}
# (_QF = 45 % of the counts of a 2400-case run; the quick tier runs 1800 cases, the thorough tier 24000)
FLOORS = {
    "quick": {"evaluations": 800, "distinct_nontrivial": 620, "counters": {k: int(0.75 * v) for k, v in _QF.items()},
              "sets": {"shuffle_feature": 95, "sort_feature": 70, "dedup_feature": 55, "set_index_feature": 14},
              "max_skipped_fraction": 0.2},
    "thorough": {"evaluations": 10000, "distinct_nontrivial": 8000, "counters": {k: 9 * v for k, v in _QF.items()},
                 "sets": {"shuffle_feature": 400, "sort_feature": 280, "dedup_feature": 160, "set_index_feature": 18},
                 "max_skipped_fraction": 0.2},
}
EXHAUSTIVE_SPACE = None
CLAIM = ("For every generated shuffle the key sets of all output partitions were pairwise disjoint and the rows were the "
         "input's multiset; every sort_values / set_index result had exactly pandas' key (index) sequence and pandas' rows "
         "within each run of equal keys; every drop_duplicates / unique / nunique result equalled pandas as a multiset.  "
         "Held means: no disagreement among the executions observed beyond the PENDING mechanisms.")
LEVEL_NOTE = "trusts pandas sorting/duplicate semantics, frames.compare and the sync scheduler"
TECHNIQUE = ("runtime monitoring: per-partition key-set disjointness + row-multiset conservation for shuffles; pandas "
             "differential (exact key order, multisets within equal keys) for sort_values/set_index; multiset differential "
             "for drop_duplicates/unique/nunique")
CASE_TIMEOUT = 90

# Labels that still fire and are recorded as known findings (known_findings.d/C40.json).
PENDING = {
    "sort_values:first-key=category(categories-not-in-lexical-order):graph:key-order":
        "sort_values on an unordered categorical whose categories are not in lexical order: partitions are assigned by the "
        "lexical order of the category values, rows inside partitions by category order",
    "set_index:category(categories-not-in-lexical-order)-column:graph:index-order":
        "set_index on an unordered categorical with non-lexical category order: division values lose the category order, "
        "rows are partitioned wrongly (also through compute())",
    "set_index:npartitions:compute:AssertionError@dataframe/dask_expr/_repartition.py:_partitions_boundaries":
        "set_index(col, npartitions=n) reports n partitions although the quantile divisions give ONE (all values equal, or an "
        "empty frame): compute() appends repartition(npartitions=1) and RepartitionToFewer asserts (gone with C41_06)",
    "set_index:sorted&category-column:TypeError@base.py:compute":
        "set_index(categorical column, sorted=True): compute_current_divisions takes min/max of an unordered categorical",
    "set_index:sorted&bool-column:IndexError@dataframe/shuffle.py:get_overlap":
        "set_index(bool column, sorted=True) with a value spanning a partition boundary: the overlap fix-up does "
        "df.loc[[True]] -> boolean mask semantics -> IndexError",
    "set_index:sorted:bool-column:graph:rows-length":
        "same overlap fix-up with one-row partitions: df.drop(True) / df.loc[[True]] act as masks and rows are lost",
    "set_index:sorted&empty-frame:IndexError@dataframe/dask_expr/_collection.py:compute_current_divisions":
        "set_index(col, sorted=True) on an empty frame raises IndexError (gone with C41_08)",
    "drop_duplicates:shuffle=disk:survivor":
        "drop_duplicates(keep='first'|'last', shuffle_method='disk') keeps an arbitrary duplicate (other columns / index label "
        "differ from pandas): the disk shuffle does not keep row order",
}
# Labels found on the pinned tree and repaired by fixes_ready/C40_0x (documentation only; they are violations wherever the
# patches are not applied).
FIXED_BY = {
    "C40_01_sort_values_na_position": [
        "sort_values:na-in-first-key&na_position=first:graph:key-order"],
    "C40_02_presorted_shortcut_with_nulls": [
        "sort_values:na-in-first-key&input-presorted-by-non-NA-values:graph:key-order",
        "set_index:quantile-divisions:float-column&na-values&input-presorted-by-non-NA-values:graph:index-order",
        "set_index:quantile-divisions:Int64-column&na-values&input-presorted-by-non-NA-values:graph:index-order"],
    "C40_03_partition_quantiles_ignore_nulls": [
        "sort_values:first-key=float&na&all-NA-input-partition:graph:key-order",
        "sort_values:first-key=float&na&all-NA-column:IndexError@dataframe/partitionquantiles.py:process_val_weights",
        "sort_values:first-key=Int64&na&all-NA-input-partition:TypeError@dataframe/partitionquantiles.py:merge_and_compress_summaries",
        "sort_values:first-key=boolean&na:TypeError@dataframe/partitionquantiles.py:merge_and_compress_summaries",
        "sort_values:first-key=str&na&all-NA-input-partition:ValueError@dataframe/partitionquantiles.py:percentiles_summary",
        "set_index:quantile-divisions:float-column&na-values&all-NA-input-partition:graph:index-order",
        "set_index:quantile-divisions&Int64-column&na-values&all-NA-input-partition:TypeError@dataframe/partitionquantiles.py:merge_and_compress_summaries"],
}

INDEX_KINDS = ("range", "range", "sorted", "dups", "unsorted", "datetime", "strings", "float")
METHODS = (None, "tasks", "tasks", "disk")
BRANCH = (None, None, 2, 2, 3)
# key candidates: (column, dtype kind, may hold NA)
KEYCOLS = ("a", "b", "c", "d", "e", "t", "k", "n", "m", "s", "kn", "tn", "k2")
LOWCARD = ("a", "b", "d", "e", "k", "n", "m", "s", "kn", "k2")
NACOLS = ("c", "n", "m", "s", "kn", "tn")


# --------------------------------------------------------------------------- cases
def _pdesc(rng, n):
    r = rng.random()
    if r < 0.45:
        return {"how": "npartitions", "n": rng.randint(1, 9), "clear": rng.random() < 0.15}
    if r < 0.6:
        return {"how": "chunksize", "n": rng.randint(1, max(1, n // 2 + 1)), "clear": rng.random() < 0.15}
    return {"how": rng.choice(("slices", "delayed")), "cuts": [rng.randint(0, max(0, n)) for _ in range(rng.randint(0, 7))]}


def _base(rng):
    nrows = rng.choice((0, 1, 2, 3)) if rng.random() < 0.08 else rng.randint(4, 40)
    return {"fs": rng.randrange(2 ** 31), "nrows": nrows, "index": rng.choice(INDEX_KINDS), "part": _pdesc(rng, nrows)}


def _shuffle_kw(rng):
    m = rng.choice(METHODS)
    return {"method": m, "mb": rng.choice(BRANCH) if m != "disk" else rng.choice((None, None, 2))}


def cases(tier, seed):
    rng = random.Random(seed * 40503 % (2 ** 31) + 40)
    n = 1800 if tier == "quick" else 24000
    for i in range(n):
        c = _base(rng)
        if i % 4 == 0:      # every block of four holds each facet once, in random order (shards take i % nshards)
            block = rng.sample(("shuffle", "sort", "set_index", "dedup"), 4)
        op = block[i % 4]
        c["op"] = op
        c.update(_shuffle_kw(rng))
        if op == "shuffle":
            r = rng.random()
            if r < 0.12:
                c["on"] = "@index"          # on_index=True
            elif r < 0.2:
                c["on"] = "@name"           # on=[index name] (only when the index has a name)
            else:
                c["on"] = rng.sample(KEYCOLS, rng.choice((1, 1, 1, 2, 2, 3)))
            c["np"] = rng.choice((None, None, 1, 2, 3, 4, 5, 7, 9))
            c["ignore_index"] = rng.random() < 0.25
            c["accessor"] = rng.random() < 0.25
            c["onform"] = rng.choice(("list", "list", "str")) if isinstance(c["on"], list) and len(c["on"]) == 1 else "list"
        elif op == "sort":
            k = rng.choice((1, 1, 2, 2, 3))
            c["by"] = rng.sample(KEYCOLS, k)
            c["asc"] = rng.choice((True, True, False)) if rng.random() < 0.6 else [rng.random() < 0.5 for _ in range(k)]
            c["na"] = rng.choice(("last", "last", "first"))
            c["np"] = rng.choice((None, None, None, 1, 2, 3, 5, 8))
            c["ignore_index"] = rng.random() < 0.1
            c["also_compute"] = rng.random() < 0.5
            c["byform"] = "str" if k == 1 and rng.random() < 0.4 else "list"
        elif op == "set_index":
            c["col"] = rng.choice(("a", "b", "d", "e", "t", "k", "k2", "u", "u", "f", "c", "n"))
            c["mode"] = rng.choice(("plain", "plain", "npartitions", "divisions", "divisions", "sorted"))
            c["drop"] = rng.random() < 0.75
            c["np"] = rng.randint(1, 8)
            c["dseed"] = rng.randrange(2 ** 31)
            c["beyond"] = rng.random() < 0.3
            c["also_compute"] = rng.random() < 0.5
        else:
            kind = rng.choice(("df", "df", "df", "df", "preshuffled", "preshuffled", "series", "series_unique", "series_nunique",
                               "df_nunique", "index"))
            c["kind"] = kind
            c["dcols"] = rng.sample(LOWCARD, rng.choice((1, 2, 2, 3))) + (["c"] if rng.random() < 0.4 else [])
            c["subset"] = rng.choice((None, None, "first1", "first2", "some"))
            c["keep"] = rng.choice(("first", "first", "last")) if rng.random() < 0.96 else False
            c["pre"] = rng.choice(("key1", "key1", "all", "first2"))      # columns of the preceding shuffle (kind preshuffled)
            c["split_out"] = rng.choice((True, True, 1, 2, 3, 5))
            c["split_every"] = rng.choice((None, None, 2, 3, False))
            c["ignore_index"] = rng.random() < 0.2
            c["dropna"] = rng.random() < 0.6
            c["axis"] = 1 if rng.random() < 0.25 else 0
            c["scol"] = rng.choice(KEYCOLS)
            c["iop"] = rng.choice(("drop_duplicates", "unique", "nunique"))
        yield c


def shard_setup(tier, seed):
    from vf.gen import frames as F

    F.setup()
    import dask

    dask.config.set(scheduler="sync")
    warnings.simplefilter("ignore")


# --------------------------------------------------------------------------- frames
def make_frame(case):
    """the shared wide frame plus: s str with NA, kn categorical with NaN, tn datetime with NaT, u unique int64
    (shuffled), f float64 without NaN (few ties)"""
    import numpy as np
    import pandas as pd

    from vf.gen import frames as F

    pdf = F.rand_frame(case["fs"], nrows=case["nrows"], index=case["index"], cols="wide")
    n = len(pdf)
    r = np.random.default_rng(case["fs"] ^ 0x5bd1e995)
    s = r.choice(["x", "y", "zz", "w"], n).astype(object) if n else np.array([], dtype=object)
    if n:
        s[r.random(n) < 0.25] = None
    pdf["s"] = pd.array(list(s), dtype="str")
    kn = pd.Categorical(r.choice(["p", "q", "r"], n) if n else [], categories=["r", "p", "q", "unused"])
    pdf["k2"] = kn
    if n:
        kn = pd.Categorical.from_codes(np.where(r.random(n) < 0.2, -1, kn.codes), dtype=kn.dtype)
    pdf["kn"] = kn
    tn = pd.Series(pd.to_datetime("2022-05-01") + pd.to_timedelta(r.integers(0, 6, n), unit="D"))
    if n:
        tn[r.random(n) < 0.2] = pd.NaT
    pdf["tn"] = tn.values
    pdf["u"] = r.permutation(n).astype("int64")
    pdf["f"] = np.round(r.integers(0, max(2, 2 * n), n) / 4.0, 2)
    return pdf


def _kindof(dtype):
    s = str(dtype)
    for pre, k in (("int", "int"), ("float", "float"), ("boolean", "boolean"), ("bool", "bool"), ("datetime", "datetime"),
                   ("category", "category"), ("Int", "Int64"), ("str", "str"), ("object", "str")):
        if s.startswith(pre):
            return k
    return "other"


def _norm(v):
    import pandas as pd

    try:
        if pd.isna(v):
            return None
    except (TypeError, ValueError):
        pass
    return v


def key_tuples(df):
    """list of NA-normalised key tuples of a key frame"""
    cols = [df.iloc[:, i].astype(object).tolist() for i in range(df.shape[1])]
    return [tuple(_norm(v) for v in row) for row in zip(*cols)] if cols else [()] * len(df)


def run_ids(keys):
    out, cur, prev = [], -1, object()
    for t in keys:
        if t != prev:
            cur += 1
            prev = t
        out.append(cur)
    return out


def _stages(method, mb, nin, nout):
    """True when TaskShuffle builds the staged graph"""
    import dask.utils

    m = method or dask.utils.get_default_shuffle_method()
    if m != "tasks":
        return m, False
    mb = mb or 32
    nin = min(nin, nout)
    return m, (nout > mb and nin > mb)


def _opts(case):
    return {} if case.get("mb") is None else {"max_branch": case["mb"]}


def _parts(r, accessor=False):
    import dask

    if accessor:
        return list(dask.compute(*[r.partitions[i] for i in range(r.npartitions)], scheduler="sync"))
    return list(dask.compute(*r.to_delayed(), scheduler="sync"))


def _concat(parts, like):
    import pandas as pd

    parts = [p for p in parts]
    if not parts:
        return like.iloc[:0]
    return pd.concat(parts)


# --------------------------------------------------------------------------- run
def run_case(case, ctx):
    with warnings.catch_warnings():
        warnings.simplefilter("ignore")
        from vf.gen import frames as F

        F.setup()
        pdf = make_frame(case)
        try:
            ddf = F.partition(pdf, case["part"])
        except NotImplementedError as e:
            ctx.unsupported("source: %s" % e)
            return
        ctx.sig = case
        ctx.nontrivial = len(pdf) >= 2 and ddf.npartitions >= 2
        ctx.op(case["op"])
        if not ddf.known_divisions:
            ctx.count("inputs_unknown_divisions")
        {"shuffle": _shuffle, "sort": _sort, "set_index": _set_index, "dedup": _dedup}[case["op"]](case, ctx, pdf, ddf)


def _guard(ctx, feat, fn, desc, refine=None):
    """run a dask-side thunk; classify exceptions.  -> (ok, value).  ``refine()`` -> extra input-feature predicate
    (evaluated only when an exception has to be labelled)"""
    try:
        return True, fn()
    except NotImplementedError as e:
        ctx.unsupported("%s: %s" % (feat, e))
    except Exception as e:  # noqa: BLE001
        extra = ""
        if refine is not None:
            try:
                extra = refine() or ""
            except Exception:  # noqa: BLE001
                extra = ""
        ctx.exception(e, prefix=feat + extra, case=desc)
    return False, None


def _all_na_partition(ddf, col):
    """input-feature predicate: some non-empty input partition holds only NA in ``col``"""
    import dask

    pieces = [s for s in dask.compute(*ddf[col].to_delayed(), scheduler="sync") if len(s)]
    if pieces and all(bool(s.isna().all()) for s in pieces):
        return "&all-NA-column"
    return "&all-NA-input-partition" if any(bool(s.isna().all()) for s in pieces) else ""


def _presorted_ignoring_na(ddf, col, ascending=True):
    """input-feature predicate: the NON-NA values of ``col`` are already partition-sorted (max of partition i < min of
    partition i+1, or > for descending; >= 2 non-empty partitions) while the column holds NA"""
    import dask
    import pandas as pd

    pieces = [s for s in dask.compute(*ddf[col].to_delayed(), scheduler="sync") if len(s)]
    if len(pieces) < 2 or not any(bool(s.isna().any()) for s in pieces):
        return ""
    vals = [s.dropna() for s in pieces]
    if any(len(v) == 0 for v in vals):
        return ""
    try:
        if isinstance(vals[0].dtype, pd.CategoricalDtype):
            vals = [v.cat.as_ordered() for v in vals]
        lo, hi = [v.min() for v in vals], [v.max() for v in vals]
        ok = all(hi[i] < lo[i + 1] for i in range(len(vals) - 1)) if ascending else \
            all(lo[i] > hi[i + 1] for i in range(len(vals) - 1))
    except TypeError:
        return ""
    return "&input-presorted-by-non-NA-values" if ok else ""


# ---- shuffle ---------------------------------------------------------------------------------------------------------
def _shuffle(case, ctx, pdf, ddf):
    from vf.gen import frames as F

    on = case["on"]
    kw = {"ignore_index": case["ignore_index"], "npartitions": case["np"], "shuffle_method": case["method"]}
    kw.update(_opts(case))
    if on == "@index":
        kw["on_index"] = True
        keyframe = lambda p: p.index.to_frame(index=False)  # noqa: E731
        onfeat = "&on-index"
    elif on == "@name":
        if pdf.index.name is None:
            ctx.reject("index has no name")
            return
        kw["on"] = [pdf.index.name]
        keyframe = lambda p: p.index.to_frame(index=False)  # noqa: E731
        onfeat = "&on-index-name"
    else:
        kw["on"] = on[0] if case.get("onform") == "str" else list(on)
        keyframe = lambda p: p[list(on)]  # noqa: E731
        onfeat = ""
    nout = case["np"] or ddf.npartitions
    method, staged = _stages(case["method"], case["mb"], ddf.npartitions, nout)
    view = "accessor" if case.get("accessor") else "graph"
    feat = "shuffle:%s%s%s" % (method, "&multi-stage" if staged else "", onfeat)
    desc = dict(case, input_npartitions=ddf.npartitions)
    ok, parts = _guard(ctx, feat + ":" + view, lambda: _parts(ddf.shuffle(**kw), accessor=case.get("accessor")), desc)
    if not ok:
        return
    ctx.count("shuffles_checked")
    ctx.count("shuffle_partitions_observed", len(parts))
    ctx.count("shuffle_method_" + method)
    if staged:
        ctx.count("multi_stage_task_shuffles")
    if nout != ddf.npartitions:
        ctx.count("shuffles_changing_npartitions")
    ctx.distinct("shuffle_feature", (feat, view, sorted(on) if isinstance(on, list) else on))
    # (1) equal keys never in two partitions (not observable when the key IS the index and ignore_index drops it)
    seen = {}
    nakey = False
    observable = not (case["ignore_index"] and on in ("@index", "@name"))
    if observable:
        ctx.count("shuffle_key_sets_checked")
    for i, p in enumerate(parts):
        if len(p) == 0 or not observable:
            continue
        kf = keyframe(p)
        for t in set(key_tuples(kf)):
            if t in seen and seen[t] != i:
                na = any(v is None for v in t)
                kinds = "+".join(sorted({_kindof(dt) for dt, v in zip(kf.dtypes, t) if v is None})) if na else ""
                ctx.violation("%s:%s:key-in-two-partitions%s" % (feat, view, ":na-key(%s)" % kinds if na else ""),
                              "key %r occurs in output partitions %d and %d" % (t, seen[t], i), case=desc,
                              partition_lengths=[len(q) for q in parts])
                break
            seen[t] = i
            nakey = nakey or any(v is None for v in t)
        else:
            continue
        break
    if nakey:
        ctx.count("shuffles_with_na_keys")
    if sum(1 for p in parts if len(p)) >= 2:
        ctx.count("shuffles_spreading_over_partitions")
    # (2) multiset of rows preserved
    got = _concat(parts, pdf)
    m = F.compare(got, pdf, ordered=False, check_index=not case["ignore_index"])
    if m is not None:
        ctx.violation("%s:%s:rows-%s" % (feat, view, m[0]), "rows of the shuffled frame differ from the input (as multisets): %s" % m[1],
                      case=desc, partition_lengths=[len(q) for q in parts])
    ctx.sample = {"feat": feat, "view": view, "keys": len(seen), "partition_lengths": [len(p) for p in parts][:12]}


# ---- sort_values -----------------------------------------------------------------------------------------------------
def _ordered_check(ctx, feat, view, got, exp, keyframe, what, desc, check_index=True, feat2=None):
    """exact key sequence + multisets within runs of equal keys.  ``feat2``: label prefix used when the FIRST key
    column's sequence agrees and only later key columns are out of order."""
    from vf.gen import frames as F

    if len(got) != len(exp):
        ctx.violation("%s:%s:rows-length" % (feat, view), "%d rows, pandas has %d" % (len(got), len(exp)), case=desc)
        return False
    gk, ek = keyframe(got).reset_index(drop=True), keyframe(exp).reset_index(drop=True)
    m = F.compare(gk, ek, ordered=True, check_index=False, check_dtype=False)
    if m is not None:
        m0 = F.compare(got, exp, ordered=False, check_index=check_index)
        if m0 is not None:
            ctx.violation("%s:%s:rows-%s" % (feat, view, m0[0]), "rows differ from pandas even as a multiset: %s" % m0[1], case=desc)
            return False
        lab = "%s:%s:%s-order" % (feat, view, what)
        if feat2 is not None and gk.shape[1] > 1 and \
                F.compare(gk.iloc[:, :1], ek.iloc[:, :1], ordered=True, check_index=False, check_dtype=False) is None:
            lab = "%s:%s:secondary-%s-order" % (feat2, view, what)
        ctx.violation(lab, "%s sequence differs from pandas: got %s, expected %s (%s)"
                      % (what, key_tuples(gk)[:14], key_tuples(ek)[:14], m[1][:160]), case=desc)
        return False
    ids = run_ids(key_tuples(ek))
    g2, e2 = got.copy(), exp.copy()
    g2["__run"] = ids
    e2["__run"] = ids
    m = F.compare(g2, e2, ordered=False, check_index=check_index)
    if m is not None:
        ctx.violation("%s:%s:rows-within-equal-%ss-%s" % (feat, view, what, m[0]),
                      "rows within runs of equal %ss differ from pandas as multisets: %s" % (what, m[1]), case=desc)
        return False
    return True


def _colkind(s):
    """dtype kind of a key column; an unordered categorical whose categories are not in lexical order is its own kind"""
    import pandas as pd

    k = _kindof(s.dtype)
    if isinstance(s.dtype, pd.CategoricalDtype):
        cats = list(s.dtype.categories)
        if cats != sorted(cats):
            k += "(categories-not-in-lexical-order)"
    return k


def _sort(case, ctx, pdf, ddf):
    by = list(case["by"])
    asc = case["asc"]
    kw = {"ascending": asc, "na_position": case["na"], "npartitions": case["np"], "shuffle_method": case["method"],
          "ignore_index": case["ignore_index"]}
    kw.update(_opts(case))
    try:
        exp = pdf.sort_values(by, ascending=asc, na_position=case["na"], kind="stable")
    except Exception as e:  # noqa: BLE001
        ctx.reject("pandas: %s" % e)
        return
    nakeys = bool(pdf[by].isna().any().any())
    na0 = bool(pdf[by[0]].isna().any())
    asc0 = asc if isinstance(asc, bool) else asc[0]
    # the partitioning of a sort depends on the FIRST key only; later keys are sorted inside partitions
    # one mechanism = one label: an unordered categorical first key with non-lexical category order, and NA in the first
    # key with na_position="first", are mechanisms of their own (whatever the direction / dtype)
    k0 = _colkind(pdf[by[0]])
    allna = _all_na_partition(ddf, by[0]) if na0 else ""       # quantile summaries of all-NA partitions are a mechanism
    if allna == "&all-NA-column" and k0 != "float":            # (own symptom only for float keys)
        allna = "&all-NA-input-partition"
    pres = _presorted_ignoring_na(ddf, by[0], asc0) if na0 and not allna else ""   # the presorted shortcut skips NA
    if allna:
        ctx.count("sorts_with_all_na_input_partition")
    if pres:
        ctx.count("sorts_presorted_by_non_na_values")
    if "not-in-lexical-order" in k0:
        feat = "sort_values:first-key=%s" % k0
    elif allna:
        feat = "sort_values:first-key=%s&na%s" % (k0, allna)
    elif pres:
        feat = "sort_values:na-in-first-key%s" % pres
    elif na0 and case["na"] == "first":
        feat = "sort_values:na-in-first-key&na_position=first"
    else:
        feat = "sort_values:first-key=%s%s%s" % (k0, "&na&na_position=last" if na0 else "", "" if asc0 else "&descending")
    feat2 = "sort_values:multi-column%s%s" % ("&na-in-later-keys&na_position=%s" % case["na"] if nakeys else "",
                                              "&mixed-ascending" if isinstance(asc, list) and len(set(asc)) > 1 else "")
    # (a nullable boolean key fails on any NA, an all-NA partition is not needed: one label)
    efeat = "sort_values:first-key=%s%s%s" % (k0, "&na" if na0 else "", "" if k0 == "boolean" else allna)
    refine = None
    desc = dict(case, input_npartitions=ddf.npartitions)
    byarg = by[0] if case.get("byform") == "str" else by
    r_ok, r = _guard(ctx, efeat, lambda: ddf.sort_values(byarg, **kw), desc, refine)
    if not r_ok:
        return
    ok, parts = _guard(ctx, efeat, lambda: _parts(r), desc, refine)
    if not ok:
        return
    ctx.count("sorts_checked")
    if nakeys:
        ctx.count("sorts_with_na_keys")
    if len(by) > 1:
        ctx.count("sorts_multi_column")
    if len(parts) >= 2 and sum(1 for p in parts if len(p)) >= 2:
        ctx.count("sorts_with_several_output_partitions")
    ctx.distinct("sort_feature", (feat, sorted(str(pdf[c].dtype) for c in by)))
    got = _concat(parts, pdf)
    # dask's ignore_index gives partition-local labels: the index is not compared then (see Calibration)
    ci = not case["ignore_index"]
    good = _ordered_check(ctx, feat, "graph", got, exp, lambda f: f[by], "key", desc, check_index=ci, feat2=feat2)
    if case.get("also_compute") and good:
        ok, whole = _guard(ctx, efeat + ":compute", lambda: r.compute(scheduler="sync"), desc, refine)
        if ok:
            ctx.count("compute_views")
            _ordered_check(ctx, feat, "compute", whole, exp, lambda f: f[by], "key", desc, check_index=ci, feat2=feat2)
    ctx.sample = {"feat": feat, "partition_lengths": [len(p) for p in parts][:12]}


# ---- set_index -------------------------------------------------------------------------------------------------------
def _set_index(case, ctx, pdf, ddf):
    import pandas as pd

    from vf.gen import frames as F

    col, mode = case["col"], case["mode"]
    kw = {"drop": case["drop"]}
    if case["method"] is not None and mode != "sorted":
        kw["shuffle_method"] = case["method"]
    if mode != "sorted":
        kw.update(_opts(case))
    hasna = bool(pdf[col].isna().any())
    if hasna and (mode == "sorted" or _kindof(pdf[col].dtype) not in ("float", "Int64")):
        # nulls in a non-numeric index are documented as not supported; "really sorted" is undefined with nulls
        ctx.reject("set_index on a non-numeric column with nulls / sorted=True with nulls: outside the documented domain")
        return
    if mode == "sorted":
        # really sorted input: sort the pandas frame by the column first (stable), then partition it by position
        pdf = pdf.sort_values(col, kind="stable")
        part = dict(case["part"])
        if part.get("how") in ("npartitions", "chunksize"):
            part["clear"] = False
        try:
            ddf = F.partition(pdf, part)
        except NotImplementedError as e:
            ctx.unsupported("source: %s" % e)
            return
        kw["sorted"] = True
    elif mode == "npartitions":
        kw["npartitions"] = case["np"]
    elif mode == "divisions":
        vals = sorted(pd.unique(pdf[col].dropna()).tolist()) if not isinstance(pdf[col].dtype, pd.CategoricalDtype) else \
            [c for c in pdf[col].cat.categories if (pdf[col] == c).any()]
        if len(vals) == 0:
            ctx.reject("no values to draw divisions from")
            return
        rng = random.Random(case["dseed"])
        inner = vals[1:-1]
        take = sorted(rng.sample(inner, min(len(inner), max(0, case["np"] - 1))), key=vals.index)
        d = [vals[0]] + take + ([vals[-1]] if len(vals) > 1 else [vals[0]])
        if case.get("beyond") and _kindof(pdf[col].dtype) in ("int", "float", "Int64"):
            d = [d[0] - 2] + (d if rng.random() < 0.5 else d[1:])
            d = (d if rng.random() < 0.5 else d[:-1]) + [d[-1] + 3]
        head = []
        for v in d[:-1]:            # divisions must be unique except for the last element
            if v not in head:
                head.append(v)
        d = head + [d[-1]]
        kw["divisions"] = [_norm_div(v) for v in d]
    try:
        exp = pdf.set_index(col, drop=case["drop"]).sort_index(kind="stable")
    except Exception as e:  # noqa: BLE001
        ctx.reject("pandas: %s" % e)
        return
    ck = _colkind(pdf[col])
    allna = _all_na_partition(ddf, col) if hasna else ""
    if allna == "&all-NA-column" and ck != "float":
        allna = "&all-NA-input-partition"
    if allna:
        ctx.count("set_index_with_all_na_input_partition")
    if "not-in-lexical-order" in ck and mode == "divisions":
        # divisions must be python-sorted (documented ValueError otherwise); no vector is both sorted and in category order
        ctx.reject("no valid division vector for an unordered categorical with non-lexical category order")
        return
    pres = _presorted_ignoring_na(ddf, col) if hasna and not allna and mode in ("plain", "npartitions") else ""
    if pres:
        ctx.count("set_index_presorted_by_non_na_values")
    if "not-in-lexical-order" in ck and mode != "sorted":
        feat = "set_index:%s-column" % ck          # one mechanism whatever the mode
    else:
        fmode = "quantile-divisions" if (allna or pres) and mode in ("plain", "npartitions") else mode
        feat = "set_index:%s:%s-column%s%s%s" % (fmode, ck, "&na-values" if hasna else "", allna, pres)
    emode = "quantile-divisions" if hasna and mode in ("plain", "npartitions") else mode
    efeat = "set_index:%s%s" % (emode, "&%s-column&na-values%s" % (ck, allna) if hasna else
                                "&category-column" if ck.startswith("category") and mode == "sorted" else
                                "&empty-frame" if len(pdf) == 0 and mode == "sorted" else
                                "&bool-column" if ck == "bool" and mode == "sorted" else "")
    refine = None
    desc = dict(case, input_npartitions=ddf.npartitions, kwargs={k: str(v)[:120] for k, v in kw.items()})
    r_ok, r = _guard(ctx, efeat, lambda: ddf.set_index(col, **kw), desc, refine)
    if not r_ok:
        return
    ok, parts = _guard(ctx, efeat, lambda: _parts(r), desc, refine)
    if not ok:
        return
    ctx.count("set_index_checked")
    ctx.count("set_index_" + mode)
    if len(parts) >= 2 and sum(1 for p in parts if len(p)) >= 2:
        ctx.count("set_index_with_several_output_partitions")
    ctx.distinct("set_index_feature", feat)
    got = _concat(parts, exp)
    keyframe = lambda f: f.index.to_frame(index=False)  # noqa: E731
    good = _ordered_check(ctx, feat, "graph", got, exp, keyframe, "index", desc)
    if case.get("also_compute") and good:
        # (the graph view was right: an exception here comes from what compute() appends, whatever the column)
        ok, whole = _guard(ctx, "set_index:%s:compute" % mode, lambda: r.compute(scheduler="sync"), desc, refine)
        if ok:
            ctx.count("compute_views")
            _ordered_check(ctx, feat, "compute", whole, exp, keyframe, "index", desc)
    # side monitor only (C41 owns the verdict)
    try:
        if good and r.known_divisions and len(parts) == len(r.divisions) - 1:
            ctx.count("side_divisions_monitor_runs")
            dv = F.divisions_violation(r, parts)
            if dv is not None:
                ctx.count("side_divisions_monitor_hits")
                ctx.distinct("side_divisions_monitor_kinds", (mode, dv[0]))
    except Exception:  # noqa: BLE001
        pass
    ctx.sample = {"feat": feat, "partition_lengths": [len(p) for p in parts][:12]}


def _norm_div(v):
    import numpy as np
    import pandas as pd

    if isinstance(v, np.generic) and not isinstance(v, np.datetime64):
        return v.item()
    if isinstance(v, np.datetime64):
        return pd.Timestamp(v)
    return v


# ---- drop_duplicates / unique / nunique --------------------------------------------------------------------------------
def _valuelist(x):
    """NA-normalised sorted value list of a Series / Index / array"""
    import pandas as pd

    vals = [_norm(v) for v in pd.Series(x).astype(object).tolist()]
    return sorted(vals, key=lambda v: (v is None, repr(v)))


def _dedup(case, ctx, pdf, ddf):
    import pandas as pd

    from vf.gen import frames as F

    kind = case["kind"]
    keep = case["keep"]
    desc = dict(case, input_npartitions=ddf.npartitions)
    so, se = case["split_out"], case["split_every"]
    method = case["method"]
    sfeat = "split_out=%s%s" % ("True" if so is True else "1" if so == 1 else ">1", "&%s" % method if method else "")
    # which machinery decides the surviving duplicate: a tree reduction (split_out=1) or a shuffle of the given method
    # (None resolves to "tasks": dask prefers the order-keeping method)
    spath = "tree-reduce" if (so is not True and so == 1) else "shuffle=%s" % (method or "tasks")
    if kind in ("df", "preshuffled"):
        cols = list(dict.fromkeys(case["dcols"]))
        sub = {"first1": cols[:1], "first2": cols[:2], "some": cols[-1:], None: None}[case["subset"]]
        p2, d2 = pdf[cols], ddf[cols]
        if kind == "preshuffled":
            # shuffled on one dedup key (no second shuffle needed), on all columns, or on the first two columns (a superset
            # of a one-column subset: equal subset keys are then NOT co-located and a second shuffle is needed)
            pre = {"key1": (sub or cols)[:1], "all": cols, "first2": cols[:2]}[case.get("pre", "key1")]
            d2 = d2.shuffle(on=pre, shuffle_method=method)
            ctx.count("drop_duplicates_after_shuffle")
            if case["fs"] % 3:
                # a blockwise step between the shuffle and drop_duplicates: without it the optimiser simply removes the
                # shuffle below DropDuplicates; with it DropDuplicates may REUSE the partitioning of that shuffle
                d2, p2 = d2.assign(zz=1), p2.assign(zz=1)
                cols = cols + ["zz"]
        if keep is False:
            try:
                d2.drop_duplicates(subset=sub, keep=False)
                ctx.count("keep_false_accepted")
            except NotImplementedError as e:
                ctx.unsupported("drop_duplicates keep=False: %s" % e)
            except Exception as e:  # noqa: BLE001
                ctx.exception(e, prefix="drop_duplicates:keep=False")
            return
        exp = p2.drop_duplicates(subset=sub, keep=keep, ignore_index=False)
        feat = "drop_duplicates:frame%s:%s&keep=%s:%s" % ("&pre-shuffled" if kind == "preshuffled" else "",
                                                        "subset" if sub else "whole-row", keep, sfeat)
        kwargs = {"subset": sub, "keep": keep, "split_out": so, "split_every": se, "shuffle_method": method,
                  "ignore_index": case["ignore_index"]}
        ok, got = _guard(ctx, feat, lambda: _concat(_parts(d2.drop_duplicates(**kwargs)), p2), desc)
        if not ok:
            return
        ctx.count("drop_duplicates_checked")
        if kind == "preshuffled":
            try:
                nsh = sum(1 for e in d2.drop_duplicates(**kwargs).optimize(fuse=False).expr.walk() if "Shuffle" in type(e).__name__)
                ctx.count("dedup_after_shuffle_with_%s_shuffle_layers" % ("one" if nsh == 1 else "no" if nsh == 0 else "several"))
            except Exception:  # noqa: BLE001
                pass
        if len(exp) < len(p2):
            ctx.count("drop_duplicates_with_duplicates")
        ctx.distinct("dedup_feature", feat)
        kc = sub or cols
        m = F.compare(got[kc], exp[kc], ordered=False, check_index=False)
        if m is not None:
            ctx.violation("drop_duplicates:frame%s:%s:%s:keys-%s" % ("&pre-shuffled" if kind == "preshuffled" else "",
                                                                     "subset" if sub else "whole-row", spath, m[0]),
                          "surviving keys differ from pandas (as multisets): %s" % m[1], case=desc)
            return
        # survivor facet: full rows (and index label unless ignore_index) of the kept duplicate.  Not judged after an
        # explicit shuffle: shuffle() documents that it keeps no meaningful order, so first/last are undefined there.
        if kind == "preshuffled":
            return
        m = F.compare(got, exp, ordered=False, check_index=not case["ignore_index"])
        ctx.count("survivor_checked")
        if m is not None:
            ctx.violation("drop_duplicates:%s:survivor" % spath,
                          "kept rows differ from pandas' keep=%s rows (as multisets, %s): %s" % (keep, m[0], m[1]), case=desc)
        return
    if kind == "df_nunique":
        cols = list(dict.fromkeys(case["dcols"]))
        p2, d2 = pdf[cols], ddf[cols]
        axis = case["axis"]
        feat = "nunique:frame:axis=%d&dropna=%s" % (axis, case["dropna"])
        try:
            exp = p2.nunique(axis=axis, dropna=case["dropna"])
        except Exception as e:  # noqa: BLE001
            ctx.reject("pandas: %s" % e)
            return
        kwargs = {"axis": axis, "dropna": case["dropna"]}
        if axis == 0 and se is not None:
            kwargs["split_every"] = se
        ok, got = _guard(ctx, feat, lambda: d2.nunique(**kwargs).compute(scheduler="sync"), desc)
        if not ok:
            return
        ctx.count("nunique_checked")
        m = F.compare(got, exp, ordered=True, check_names=False)
        if m is not None:
            ctx.violation("%s:%s" % (feat, m[0]), "DataFrame.nunique differs from pandas: %s" % m[1], case=desc)
        return
    if kind == "index":
        iop = case["iop"]
        feat = "index.%s:%s-index" % (iop, _kindof(pdf.index.dtype))
        if iop == "nunique":
            exp = pdf.index.nunique(dropna=case["dropna"])
            ok, got = _guard(ctx, feat, lambda: ddf.index.nunique(dropna=case["dropna"]).compute(scheduler="sync"), desc)
            if ok:
                ctx.count("nunique_checked")
                if F.compare(got, exp) is not None:
                    ctx.violation(feat + ":value", "Index.nunique %r, pandas %r" % (got, exp), case=desc)
            return
        exp = pdf.index.drop_duplicates() if iop == "drop_duplicates" else pdf.index.unique()
        fn = (lambda: ddf.index.drop_duplicates(split_out=so).compute(scheduler="sync")) if iop == "drop_duplicates" else \
            (lambda: ddf.index.unique().compute(scheduler="sync"))
        ok, got = _guard(ctx, feat, fn, desc)
        if ok:
            ctx.count("unique_checked")
            if _valuelist(got) != _valuelist(exp):
                ctx.violation(feat + ":values", "got %s, pandas %s" % (_valuelist(got)[:12], _valuelist(exp)[:12]), case=desc)
        return
    # ---- Series facets
    sc = case["scol"]
    ps, ds = pdf[sc], ddf[sc]
    dk = _kindof(ps.dtype)
    if kind == "series":
        if keep is False:
            try:
                ds.drop_duplicates(keep=False)
                ctx.count("keep_false_accepted")
            except NotImplementedError as e:
                ctx.unsupported("drop_duplicates keep=False: %s" % e)
            return
        feat = "drop_duplicates:series:%s&keep=%s:%s" % (dk, keep, sfeat)
        exp = ps.drop_duplicates(keep=keep)
        kwargs = {"keep": keep, "split_out": so, "split_every": se, "shuffle_method": method, "ignore_index": case["ignore_index"]}
        ok, got = _guard(ctx, feat, lambda: _concat(_parts(ds.drop_duplicates(**kwargs)), ps), desc)
        if not ok:
            return
        ctx.count("drop_duplicates_checked")
        ctx.distinct("dedup_feature", feat)
        if not isinstance(got, pd.Series) or _valuelist(got) != _valuelist(exp):
            ctx.violation("drop_duplicates:series:%s:%s:keys-values" % (dk, spath),
                          "got %s, pandas %s" % (_valuelist(got)[:12], _valuelist(exp)[:12]), case=desc)
            return
        ctx.count("survivor_checked")
        m = F.compare(got, exp, ordered=False, check_index=not case["ignore_index"])
        if m is not None:
            ctx.violation("drop_duplicates:%s:survivor" % spath,
                          "kept index labels differ from pandas' keep=%s (as multisets, %s): %s" % (keep, m[0], m[1]), case=desc)
        return
    if kind == "series_unique":
        feat = "unique:series:%s:%s" % (dk, sfeat)
        exp = ps.unique()
        ok, got = _guard(ctx, feat, lambda: ds.unique(split_every=se, split_out=so, shuffle_method=method).compute(scheduler="sync"), desc)
        if not ok:
            return
        ctx.count("unique_checked")
        ctx.distinct("dedup_feature", feat)
        if _valuelist(got) != _valuelist(exp):
            ctx.violation(feat + ":values", "got %s, pandas %s" % (_valuelist(got)[:12], _valuelist(exp)[:12]), case=desc)
        elif isinstance(got, pd.Series) and got.name != sc:
            ctx.violation(feat + ":name", "unique() result is named %r, the series %r" % (got.name, sc), case=desc)
        return
    if kind == "series_nunique":
        feat = "nunique:series:%s&dropna=%s:%s" % (dk, case["dropna"], sfeat)
        exp = ps.nunique(dropna=case["dropna"])
        kwargs = {"dropna": case["dropna"], "split_out": so}
        if se is not None:
            kwargs["split_every"] = se
        ok, got = _guard(ctx, feat, lambda: ds.nunique(**kwargs).compute(scheduler="sync"), desc)
        if not ok:
            return
        ctx.count("nunique_checked")
        ctx.distinct("dedup_feature", feat)
        if F.compare(got, exp) is not None:
            ctx.violation(feat + ":value", "Series.nunique %r, pandas %r" % (got, exp), case=desc)
        return
    raise ValueError(kind)
