"""C40 — sorting, shuffling and de-duplication keep exactly the right rows.

Statement (fixed): shuffle on any columns puts all rows with equal key values in the same output partition and
preserves the multiset of rows.  sort_values and set_index produce globally ordered results equal to pandas.
drop_duplicates, unique and nunique equal pandas for any partitioning, split_out and shuffle method.

Every case is ONE description (frame seed, rows, index kind, partitioning, operation and keywords); the dask program
and the pandas reference are both built from it.  Partitions of a result are observed with
``dask.compute(*r.to_delayed())`` (view ``graph``; one graph, every partition), for shuffles in a quarter of the cases
also through ``r.partitions[i]`` (view ``accessor``: the partition filter is pushed into the shuffle layers), and
``r.compute()`` is observed as well for half of the sort/set_index cases (view ``compute``: compute() appends
``repartition(npartitions=1)``, which the optimiser moves below ``sort_values``).

Facets
------
``shuffle``    ``df.shuffle(on=cols | [index name] | on_index=True, npartitions=None|1..9, shuffle_method=None|tasks|
               disk, ignore_index, max_branch=None|2|3)``.  Oracle: (1) no key tuple (NA equal to NA) occurs in two
               output partitions; (2) ``concat(partitions)`` equals the input as a multiset of rows (index included
               unless ``ignore_index``).  Keys: int, str, float with NaN, bool, datetime (with NaT), categorical (with
               NaN), nullable Int64 / boolean with NA, str with NA, 1-3 columns.  ``max_branch`` 2/3 with > max_branch
               input and output partitions gives the staged task shuffle (counted ``multi_stage_task_shuffles``).
``sort``       ``df.sort_values(by 1-3 columns, ascending bool | list, na_position, npartitions, shuffle_method,
               max_branch)``.  Reference ``pdf.sort_values(..., kind="stable")``.  Oracle: the sequence of key columns
               equals pandas exactly (global order, hence also partition i before partition i+1); dask is not stable
               among equal keys, so rows are compared as multisets within each run of equal keys.
``set_index``  ``df.set_index(col, drop, [npartitions | divisions | sorted=True on really sorted input],
               shuffle_method, max_branch)``.  Reference ``pdf.set_index(col, drop).sort_index(kind="stable")``.  Oracle:
               index sequence exactly, rows as multisets within equal index values.  ``frames.divisions_violation`` runs
               as a SIDE monitor only (counted, never a C40 verdict: divisions belong to C41).
``dedup``      ``DataFrame.drop_duplicates(subset, keep first|last, split_out, split_every, shuffle_method,
               ignore_index)`` also on an already shuffled frame, ``Series.drop_duplicates``, ``Series.unique``,
               ``Series.nunique(dropna)``, ``DataFrame.nunique(axis 0|1, dropna)``, ``Index.drop_duplicates/unique/nunique``.
               Oracle: the multiset of surviving KEYS (subset columns / values) equals pandas (``keys``); then, as a
               separately labelled facet ``survivor``, the surviving full rows (other columns and index label of the
               first/last duplicate) equal pandas as a multiset.  Row order is never compared.  ``keep=False`` is
               documented unsupported (NotImplementedError -> unsupported).

Parameter audit stream (cases carrying ``x``; about one per two base cases, at random positions of the stream)
---------------------------------------------------------------------------------------------------------------
Keywords / input classes / STATE that the base stream never produces; the oracles are the ones above.
``shuffle``    ``on=`` a dask Series (also an expression ``col % 3``), the Index object, a DataFrame, ``[column, index name]``;
               ``force=True``; ``Series.shuffle(on_index=True)``; 130 / 200 / 257 output partitions; frames of 300-1200 rows;
               a consumer AFTER the shuffle that the optimiser pushes below it (``[columns]`` / a row filter, views
               ``graph&then-project`` / ``&then-filter``, labels ``shuffle[&on-...]:then-<kind>:...``); a second shuffle of a frame
               that an earlier shuffle / merge / groupby / drop_duplicates partitioned on overlapping keys.
``sort``       ``sort_function=`` / ``sort_function_kwargs=`` (both order by the keys and then by the unique column ``u``: the whole
               row sequence is then determined and compared exactly, label ``sort_values:sort_function[_kwargs]:graph:rows-order``);
               ``upsample`` 0.5 / 2 / 10; ``npartitions="auto"``; input already ordered by the first key (ascending / descending /
               as asked: the presorted shortcut, counted ``sorts_lowered_without_shuffle``); pre-steps; ``.head(n)`` / ``.tail(n)``
               (NFirst / NLast rewrite; n 0..50; key sequence = pandas' first / last n, every row a row of the frame; by the
               documented caveat possibly only the rows of the first / last partition), ``[columns without the keys]`` (keys
               recovered through ``u``), a row filter; a SECOND sort of the same collection with the same first key (cached
               quantile divisions) and other later keys / na_position / method.
``set_index``  ``other`` as ``[col]``, as the dask Series ``ddf[col]``, as an expression ``ddf[col] * 2``; ``sort=False`` (exactly
               pandas.set_index: same rows, same order); ``sorted=True`` WITH ``divisions`` (partitions cut at the division values);
               ``npartitions="auto"``; ``upsample``; pre-steps; head / tail / column selection / row filter after it; a second
               set_index of the same collection with other ``drop`` / method.
``dedup``      frames carrying hash-partitioning knowledge on a key TUPLE from an earlier shuffle (+ assign / rename / add_prefix /
               repartition to fewer AND to more partitions / an assign that OVERWRITES a key column), a hash merge, a groupby
               aggregation with split_out, a drop_duplicates; de-duplicated on a part of / exactly / more than / other columns than
               the known keys (counters ``dedup_subset_<relation>_known_keys``); ``subset`` as ONE string (also names whose letters
               are column names: ``kn``); Series facets on a column of a shuffled frame; Index.drop_duplicates / unique with
               split_every / split_out / shuffle_method; 5-12 input partitions with split_every 2 / 3 (an intermediate combine
               level, or a shuffle wider than split_out).
Value class: in a tenth of the audit shuffle / dedup cases the float key ``c`` holds BOTH ``-0.0`` and ``0.0`` (equal values, different
bit patterns; label feature ``float-key-with-negative-and-positive-zero``).
Sibling monitor (vf/mon/siblings.py) on audit cases with the deterministic task shuffle: the collection next to one that differs in
na_position / ascending / ignore_index (sort), drop (set_index), keep (drop_duplicates), npartitions (shuffle), both in one graph.

Labels: ``shuffle:<method>[&multi-stage][&on-index]:<view>:key-in-two-partitions[:na-key(<dtype kinds>)]`` /
``...:rows-<kind>``.  ``sort_values:<mechanism feature>:<view>:key-order`` (first key column out of order) /
``sort_values:multi-column...:<view>:secondary-key-order`` (first key right, later keys wrong) /
``:rows-within-equal-keys-<kind>`` / ``:rows-<kind>``; the mechanism feature is, in this priority: first key is an
unordered categorical with non-lexical category order; first key has NA and some input partition is all-NA; first key has NA
and the non-NA values are already partition-sorted; first key has NA and na_position=first; else dtype kind of the first key
(+ ``&na&na_position=last``, ``&descending``).  ``set_index:<mode | quantile-divisions>:<column kind>[&na-values][&all-NA-input-
partition | &input-presorted-by-non-NA-values]:<view>:index-order`` / ``...``.  ``drop_duplicates:<frame|series>...:keys-<kind>``,
``drop_duplicates:<tree-reduce | shuffle=tasks | shuffle=disk>:survivor``; ``unique|nunique:...``.
Exceptions ``<facet>:<reduced features>:<ExcType>@file:function``.

Calibration (unchanged tree)
----------------------------
* false alarm corrected: ``shuffle(on=<index>, ignore_index=True)`` drops the key (the index) from the output, the key sets
  cannot be observed there -> only the row multiset (without index) is checked for that combination.
* false alarm corrected: ``sort_values(ignore_index=True)`` gives partition-local labels in dask (pandas: one global
  RangeIndex); no global index is promised -> with ``ignore_index=True`` rows are compared without the index.
* generator restricted: ``drop_duplicates`` AFTER an explicit ``shuffle()`` is judged on the surviving keys only:
  ``shuffle`` documents that it keeps no meaningful order, so which duplicate is "first" is undefined there.
* generator restricted: ``set_index`` on a NON-numeric column holding nulls is documented as unsupported ("nulls ... which
  Dask does not entirely support in the index", NotImplementedError hint) -> only float / Int64 columns carry NA into
  ``set_index``; ``sorted=True`` is only generated on columns without NA ("really sorted" is undefined with nulls);
  given ``divisions`` always cover min..max of the column (values outside are clamped into the last partition by design of
  ``set_partitions_pre``) and must be python-sorted (an unordered categorical with non-lexical category order has no
  valid vector -> rejected).
* when the graph view of a sort/set_index already disagrees, the compute() view is not judged (same pipeline; avoids two
  labels for one mechanism).
* ``keep=False`` raises NotImplementedError by documentation -> unsupported.
* (audit) false alarm corrected: ``set_index(sort=False)`` AFTER a pre-step was compared in pandas' row order; a shuffle / merge /
  groupby has no row order -> multiset there (exact order only without a pre-step).
* (audit) false alarm corrected: the sibling monitor compared ``keep='first'`` survivors / ``ignore_index`` labels between two graphs
  that contain a disk shuffle (also the sync scheduler's default): the disk shuffle orders rows by execution order -> siblings
  only for ``shuffle_method="tasks"`` throughout; partitions are compared as sorted row multisets.
* (audit) generator restricted: a pre-step that fails WITHOUT the C40 operation (same consumer applied to the pre-step's output:
  e.g. ``groupby(k).agg(split_out=2).reset_index()`` followed by a row filter raises IndexingError on some data) is the business
  of that operation's own property -> ``unsupported`` (counted ``pre_step_failures_outside_c40``).  The pre-step keys are the
  NA-free columns a / b / d / e (NA semantics of merge / groupby belong to C38 / C39); the overwriting assign keeps the dtype
  (``str.len()`` gives float64 meta in dask, int64 in pandas: C42's business).
* (audit) ``head()`` / ``tail()`` document that they look at the first / last partition only: a result with
  ``min(n, len(first/last partition))`` rows is accepted next to ``min(n, len)``; rows tied at the cut may be any of the tied rows.
* (audit) ``Series.shuffle(on=<own name>)`` raises RuntimeError (no columns to select) - not generated: the statement speaks of
  shuffling on columns or the index; ``set_index(append=True)`` is not in the documented parameter list - not generated.
"""
from __future__ import annotations

import random
import warnings

PROP = "C40"
RULE = ("case = (operation facet, frame seed, rows 0..40, index kind, partitioning incl. empty partitions and unknown "
        "divisions, keywords); facets shuffle / sort_values / set_index / drop_duplicates-unique-nunique with the keyword "
        "ranges of the module docstring; a second, interleaved stream of parameter-audit cases (about one per two base cases) adds "
        "the keywords / key forms / sizes / pre-steps (partitioning knowledge from an earlier shuffle, merge, groupby, "
        "drop_duplicates) / consumers (head, tail, column selection, row filter) / second operations of the docstring's audit "
        "section; non-trivial = the input has >= 2 partitions and >= 2 rows; distinct = distinct case descriptions")
ASSUMPTIONS = [
    "pandas 3 is the reference for sort order (stable), NA placement, duplicate semantics; NA keys equal each other",
    "partitions are what dask.compute(*r.to_delayed()) / r.partitions[i] return; sync scheduler; pyarrow import stub",
]
BUDGET = {"quick": 110, "thorough": 800}
_QF = {"shuffles_checked": 278, "shuffle_key_sets_checked": 260, "shuffle_partitions_observed": 2425,
       "multi_stage_task_shuffles": 44, "shuffles_with_na_keys": 114, "shuffles_spreading_over_partitions": 229,
       "shuffle_method_disk": 131, "shuffle_method_tasks": 128, "shuffles_changing_npartitions": 187, "sorts_checked": 299,
       "sorts_with_na_keys": 166, "sorts_multi_column": 180, "sorts_with_several_output_partitions": 211,
       "set_index_checked": 267, "set_index_divisions": 78, "set_index_npartitions": 38, "set_index_sorted": 23,
       "set_index_with_several_output_partitions": 215, "drop_duplicates_checked": 209, "drop_duplicates_with_duplicates": 147,
       "survivor_checked": 88, "dedup_after_shuffle_with_one_shuffle_layers": 63, "nunique_checked": 52, "unique_checked": 45,
       "compute_views": 212, "side_divisions_monitor_runs": 232, "inputs_unknown_divisions": 651,
       # parameter-audit stream
       "shuffle_audit_cases": 60, "sort_audit_cases": 86, "set_index_audit_cases": 69, "dedup_audit_cases": 116,
       "big_frames": 13, "pre_steps_applied": 118, "pre_step_shuffle": 63, "pre_step_merge": 19, "pre_step_groupby": 16,
       "pre_step_dedup": 8, "dedup_after_knowledge_pre_step": 79, "dedup_subset_equals_known_keys": 27,
       "dedup_subset_part_of_known_keys": 27, "dedup_subset_superset_of_known_keys": 6, "dedup_subset_as_string": 25,
       "dedup_tree_reduce_with_intermediate_level": 36, "dedup_shuffle_wider_than_split_out": 18,
       "series_dedup_after_shuffle": 13, "index_dedup_with_keywords": 6, "ordered_then_head_or_tail": 38,
       "ordered_then_project_or_filter": 15, "second_operation_on_same_collection": 21, "set_index_nosort": 10,
       "set_index_sorted_div": 4, "set_index_other_collection": 18, "set_index_x_upsample": 16, "sort_x_upsample": 23,
       "sorts_on_presorted_input": 17, "sorts_lowered_without_shuffle": 1, "sorts_with_user_sort_function": 21,
       "shuffle_on_collection_or_column_and_index": 23, "shuffle_then_filter": 6, "shuffle_then_project": 8,
       "shuffle_x_bignp": 5, "shuffle_x_force": 17, "shuffle_x_ser": 6, "siblings_built": 69, "siblings_computed_together": 32,
       "siblings_with_different_values": 28,
       "inputs_with_negative_and_positive_zero_key": 10}
# (_QF = 45 % of the smallest count of the five quick seeds 0 1 2 7 12345 on the unchanged tree; the quick tier runs 1800 base +
#  ~900 audit cases, the thorough tier 24000 + ~12000: thorough floors = 12 x quick)
FLOORS = {
    "quick": {"evaluations": 1200, "distinct_nontrivial": 1000, "counters": dict(_QF),
              "sets": {"shuffle_feature": 145, "sort_feature": 125, "dedup_feature": 80, "set_index_feature": 20},
              "max_skipped_fraction": 0.2},
    "thorough": {"evaluations": 16000, "distinct_nontrivial": 13000, "counters": {k: 12 * v for k, v in _QF.items()},
                 "sets": {"shuffle_feature": 830, "sort_feature": 460, "dedup_feature": 180, "set_index_feature": 24},
                 "max_skipped_fraction": 0.2},
}
EXHAUSTIVE_SPACE = None
CLAIM = ("For every generated shuffle the key sets of all output partitions were pairwise disjoint and the rows were the "
         "input's multiset; every sort_values / set_index result had exactly pandas' key (index) sequence and pandas' rows "
         "within each run of equal keys; every drop_duplicates / unique / nunique result equalled pandas as a multiset.  "
         "Held means: no disagreement among the executions observed beyond the PENDING mechanisms.")
LEVEL_NOTE = "trusts pandas sorting/duplicate semantics, frames.compare and the sync scheduler"
TECHNIQUE = ("runtime monitoring: per-partition key-set disjointness + row-multiset conservation for shuffles; pandas "
             "differential (exact key order, multisets within equal keys) for sort_values/set_index; multiset differential "
             "for drop_duplicates/unique/nunique")
CASE_TIMEOUT = 90

# Labels that still fire and are recorded as known findings (known_findings.d/C40.json).
PENDING = {
    "sort_values:first-key=category(categories-not-in-lexical-order):graph:key-order":
        "sort_values on an unordered categorical whose categories are not in lexical order: partitions are assigned by the "
        "lexical order of the category values, rows inside partitions by category order",
    "set_index:category(categories-not-in-lexical-order)-column:graph:index-order":
        "set_index on an unordered categorical with non-lexical category order: division values lose the category order, "
        "rows are partitioned wrongly (also through compute())",
    "set_index:npartitions:compute:AssertionError@dataframe/dask_expr/_repartition.py:_partitions_boundaries":
        "set_index(col, npartitions=n) reports n partitions although the quantile divisions give ONE (all values equal, or an "
        "empty frame): compute() appends repartition(npartitions=1) and RepartitionToFewer asserts (gone with C41_06)",
    "set_index:sorted&category-column:TypeError@base.py:compute":
        "set_index(categorical column, sorted=True): compute_current_divisions takes min/max of an unordered categorical",
    "set_index:sorted&bool-column:IndexError@dataframe/shuffle.py:get_overlap":
        "set_index(bool column, sorted=True) with a value spanning a partition boundary: the overlap fix-up does "
        "df.loc[[True]] -> boolean mask semantics -> IndexError",
    "set_index:sorted:bool-column:graph:rows-length":
        "same overlap fix-up with one-row partitions: df.drop(True) / df.loc[[True]] act as masks and rows are lost",
    "set_index:sorted&empty-frame:IndexError@dataframe/dask_expr/_collection.py:compute_current_divisions":
        "set_index(col, sorted=True) on an empty frame raises IndexError (gone with C41_08)",
    "drop_duplicates:shuffle=disk:survivor":
        "drop_duplicates(keep='first'|'last', shuffle_method='disk') keeps an arbitrary duplicate (other columns / index label "
        "differ from pandas): the disk shuffle does not keep row order",
    # ---- found by the parameter audit (fixes_ready/C40_04..09 repair them; known findings for trees without the patches)
    "sort_values:na-in-keys&na_position=first:head:key-order":
        "sort_values(na_position='first').head(n): the NFirst rewrite sorts with the default na_position (C40_04)",
    "sort_values:na-in-keys&na_position=first:tail:key-order":
        "sort_values(na_position='first').tail(n): the NLast rewrite sorts with the default na_position (C40_04)",
    "set_index:drop=False:head:rows-columns":
        "set_index(col, drop=False).head(n): the rewritten set_index uses drop=True, the column is lost (C40_05)",
    "set_index:drop=False:tail:rows-columns":
        "set_index(col, drop=False).tail(n): same rewrite (C40_05)",
    "shuffle&on-dask-collection:then-project:ValueError@dataframe/dask_expr/_expr.py:__bool__":
        "shuffle(on=<Series/Index/DataFrame>)[columns]: the projection pushdown evaluates 'col in <expression>' (C40_06)",
    "shuffle&on-dask-collection:then-filter:rows":
        "shuffle(on=<Series/Index/DataFrame>)[row filter]: the filter is pushed below the shuffle, the key stays unfiltered (C40_07)",
    "set_index&other=series:filter:rows":
        "set_index(<Series>)[row filter]: same pushdown, the Series of the new index stays unfiltered (C40_07)",
    "set_index:other=series&npartitions=1&several-input-partitions:ValueError@dataframe/dask_expr/_shuffle.py:operation":
        "set_index(<Series>, npartitions=1): the frame is brought to one partition, the Series is not (C40_08)",
    "sort_values:npartitions=auto:TypeError@dataframe/dask_expr/_quantiles.py:_layer":
        "sort_values(npartitions='auto'): the documented value reaches RepartitionQuantiles as a string (C40_09)",
    "set_index:npartitions=auto:TypeError@dataframe/dask_expr/_quantiles.py:_layer":
        "set_index(npartitions='auto'): same (C40_09)",
    "shuffle:float-key-with-negative-and-positive-zero:key-in-two-partitions":
        "a float key holding -0.0 and 0.0: pandas hashes the bit pattern, the equal keys land in different partitions (C40_10)",
    "drop_duplicates:float-key-with-negative-and-positive-zero:keys": "same: both zeros survive (C40_10)",
    "unique:float-key-with-negative-and-positive-zero:values": "same: both zeros are returned (C40_10)",
    "nunique:float-key-with-negative-and-positive-zero:value": "same: the zero is counted twice (C40_10)",
    "dedup:pre-shuffled&single-input-partition&split_out>1:AssertionError@dataframe/dask_expr/_repartition.py:_partitions_boundaries":
        "unique/drop_duplicates/nunique(split_out>1) on a one-partition frame with partitioning knowledge: split_out partitions are "
        "reported, one exists; compute() asserts (repaired by C38_10)",
}
# Labels found on the pinned tree and repaired by fixes_ready/C40_0x (documentation only; they are violations wherever the
# patches are not applied).
FIXED_BY = {
    # (parameter audit: the labels of C40_04..10 are ALSO listed in PENDING / known findings until the patches are applied)
    "C40_04_sort_values_head_tail_na_position": ["sort_values:na-in-keys&na_position=first:head:key-order",
                                                 "sort_values:na-in-keys&na_position=first:tail:key-order"],
    "C40_05_set_index_head_tail_keeps_drop": ["set_index:drop=False:head:rows-columns", "set_index:drop=False:tail:rows-columns"],
    "C40_06_shuffle_on_collection_then_projection": [
        "shuffle&on-dask-collection:then-project:ValueError@dataframe/dask_expr/_expr.py:__bool__"],
    "C40_07_no_filter_pushdown_below_collection_key": ["shuffle&on-dask-collection:then-filter:rows", "set_index&other=series:filter:rows"],
    "C40_08_set_index_series_single_output_partition": [
        "set_index:other=series&npartitions=1&several-input-partitions:ValueError@dataframe/dask_expr/_shuffle.py:operation"],
    "C40_09_npartitions_auto_by_memory_use": ["sort_values:npartitions=auto:TypeError@dataframe/dask_expr/_quantiles.py:_layer",
                                              "set_index:npartitions=auto:TypeError@dataframe/dask_expr/_quantiles.py:_layer"],
    "C40_10_negative_zero_hashes_like_zero": ["shuffle:float-key-with-negative-and-positive-zero:key-in-two-partitions",
                                              "drop_duplicates:float-key-with-negative-and-positive-zero:keys",
                                              "unique:float-key-with-negative-and-positive-zero:values",
                                              "nunique:float-key-with-negative-and-positive-zero:value"],
    "C40_01_sort_values_na_position": [
        "sort_values:na-in-first-key&na_position=first:graph:key-order"],
    "C40_02_presorted_shortcut_with_nulls": [
        "sort_values:na-in-first-key&input-presorted-by-non-NA-values:graph:key-order",
        "set_index:quantile-divisions:float-column&na-values&input-presorted-by-non-NA-values:graph:index-order",
        "set_index:quantile-divisions:Int64-column&na-values&input-presorted-by-non-NA-values:graph:index-order"],
    "C40_03_partition_quantiles_ignore_nulls": [
        "sort_values:first-key=float&na&all-NA-input-partition:graph:key-order",
        "sort_values:first-key=float&na&all-NA-column:IndexError@dataframe/partitionquantiles.py:process_val_weights",
        "sort_values:first-key=Int64&na&all-NA-input-partition:TypeError@dataframe/partitionquantiles.py:merge_and_compress_summaries",
        "sort_values:first-key=boolean&na:TypeError@dataframe/partitionquantiles.py:merge_and_compress_summaries",
        "sort_values:first-key=str&na&all-NA-input-partition:ValueError@dataframe/partitionquantiles.py:percentiles_summary",
        "set_index:quantile-divisions:float-column&na-values&all-NA-input-partition:graph:index-order",
        "set_index:quantile-divisions&Int64-column&na-values&all-NA-input-partition:TypeError@dataframe/partitionquantiles.py:merge_and_compress_summaries"],
}

INDEX_KINDS = ("range", "range", "sorted", "dups", "unsorted", "datetime", "strings", "float")
METHODS = (None, "tasks", "tasks", "disk")
BRANCH = (None, None, 2, 2, 3)
# key candidates: (column, dtype kind, may hold NA)
KEYCOLS = ("a", "b", "c", "d", "e", "t", "k", "n", "m", "s", "kn", "tn", "k2")
LOWCARD = ("a", "b", "d", "e", "k", "n", "m", "s", "kn", "k2")
NACOLS = ("c", "n", "m", "s", "kn", "tn")


# --------------------------------------------------------------------------- cases
def _pdesc(rng, n):
    r = rng.random()
    if r < 0.45:
        return {"how": "npartitions", "n": rng.randint(1, 9), "clear": rng.random() < 0.15}
    if r < 0.6:
        return {"how": "chunksize", "n": rng.randint(1, max(1, n // 2 + 1)), "clear": rng.random() < 0.15}
    return {"how": rng.choice(("slices", "delayed")), "cuts": [rng.randint(0, max(0, n)) for _ in range(rng.randint(0, 7))]}


def _base(rng):
    nrows = rng.choice((0, 1, 2, 3)) if rng.random() < 0.08 else rng.randint(4, 40)
    return {"fs": rng.randrange(2 ** 31), "nrows": nrows, "index": rng.choice(INDEX_KINDS), "part": _pdesc(rng, nrows)}


def _shuffle_kw(rng):
    m = rng.choice(METHODS)
    return {"method": m, "mb": rng.choice(BRANCH) if m != "disk" else rng.choice((None, None, 2))}


def _fill(c, rng, op):
    """keywords of one base case (the order of the rng calls is part of the calibrated stream)"""
    c["op"] = op
    c.update(_shuffle_kw(rng))
    if op == "shuffle":
        r = rng.random()
        if r < 0.12:
            c["on"] = "@index"          # on_index=True
        elif r < 0.2:
            c["on"] = "@name"           # on=[index name] (only when the index has a name)
        else:
            c["on"] = rng.sample(KEYCOLS, rng.choice((1, 1, 1, 2, 2, 3)))
        c["np"] = rng.choice((None, None, 1, 2, 3, 4, 5, 7, 9))
        c["ignore_index"] = rng.random() < 0.25
        c["accessor"] = rng.random() < 0.25
        c["onform"] = rng.choice(("list", "list", "str")) if isinstance(c["on"], list) and len(c["on"]) == 1 else "list"
    elif op == "sort":
        k = rng.choice((1, 1, 2, 2, 3))
        c["by"] = rng.sample(KEYCOLS, k)
        c["asc"] = rng.choice((True, True, False)) if rng.random() < 0.6 else [rng.random() < 0.5 for _ in range(k)]
        c["na"] = rng.choice(("last", "last", "first"))
        c["np"] = rng.choice((None, None, None, 1, 2, 3, 5, 8))
        c["ignore_index"] = rng.random() < 0.1
        c["also_compute"] = rng.random() < 0.5
        c["byform"] = "str" if k == 1 and rng.random() < 0.4 else "list"
    elif op == "set_index":
        c["col"] = rng.choice(("a", "b", "d", "e", "t", "k", "k2", "u", "u", "f", "c", "n"))
        c["mode"] = rng.choice(("plain", "plain", "npartitions", "divisions", "divisions", "sorted"))
        c["drop"] = rng.random() < 0.75
        c["np"] = rng.randint(1, 8)
        c["dseed"] = rng.randrange(2 ** 31)
        c["beyond"] = rng.random() < 0.3
        c["also_compute"] = rng.random() < 0.5
    else:
        kind = rng.choice(("df", "df", "df", "df", "preshuffled", "preshuffled", "series", "series_unique", "series_nunique",
                           "df_nunique", "index"))
        c["kind"] = kind
        c["dcols"] = rng.sample(LOWCARD, rng.choice((1, 2, 2, 3))) + (["c"] if rng.random() < 0.4 else [])
        c["subset"] = rng.choice((None, None, "first1", "first2", "some"))
        c["keep"] = rng.choice(("first", "first", "last")) if rng.random() < 0.96 else False
        c["pre"] = rng.choice(("key1", "key1", "all", "first2"))      # columns of the preceding shuffle (kind preshuffled)
        c["split_out"] = rng.choice((True, True, 1, 2, 3, 5))
        c["split_every"] = rng.choice((None, None, 2, 3, False))
        c["ignore_index"] = rng.random() < 0.2
        c["dropna"] = rng.random() < 0.6
        c["axis"] = 1 if rng.random() < 0.25 else 0
        c["scol"] = rng.choice(KEYCOLS)
        c["iop"] = rng.choice(("drop_duplicates", "unique", "nunique"))
    return c


PREKEYS = ("a", "b", "d", "e")          # keys of the pre-steps: no NA (merge / groupby semantics of NA belong to C38/C39)


def _pre_desc(rx, must=None):
    """an EARLIER operation that leaves hash-partitioning knowledge on a key tuple (see ``_apply_pre``)"""
    keys = rx.sample(PREKEYS, rx.choice((1, 2, 2, 3)))
    if must is not None and must not in keys:
        keys[0] = must
    return {"kind": rx.choice(("shuffle", "shuffle+assign", "shuffle+rename", "shuffle+prefix", "shuffle+repart", "shuffle+repart",
                               "shuffle+overwrite", "merge", "merge", "dedup", "groupby", "groupby")),
            "keys": keys, "np": rx.choice((None, None, 2, 3, 5)), "method": rx.choice((None, "tasks", "disk")),
            "rnp": rx.randint(1, 3)}


def _post_desc(rx, kinds):
    return {"kind": rx.choice(kinds), "n": rx.choice((0, 1, 2, 3, 5, 8, 13, 50)), "fcol": rx.choice(("a", "d", "u", "f")),
            "q": rx.choice((0.0, 0.3, 0.5, 0.8)), "cols": rx.randrange(2 ** 16)}


def _ext_case(rx):
    """one case of the parameter-audit stream: a base description plus ``x`` = the keywords / input classes / pre- and
    post-steps that the base stream never produces"""
    c = _base(rx)
    if c["nrows"] < 4:
        c["nrows"] = rx.randint(4, 40)
    op = rx.choice(("shuffle", "shuffle", "sort", "sort", "set_index", "set_index", "dedup", "dedup", "dedup"))
    _fill(c, rx, op)
    x = {}
    big = rx.random() < 0.07 and op != "dedup"
    if big:                                   # size class: hundreds of rows (quantile summaries get compressed / interpolated)
        c["nrows"] = rx.randint(300, 1200)
        c["part"] = _pdesc(rx, c["nrows"]) if rx.random() < 0.5 else {"how": "npartitions", "n": rx.randint(3, 12), "clear": rx.random() < 0.3}
        if c["part"].get("how") == "chunksize":
            c["part"]["n"] = max(c["part"]["n"], 40)
        x["big"] = True
    if op == "shuffle":
        r = rx.random()
        if r < 0.35:
            x["onkind"] = rx.choice(("series", "series", "indexobj", "frame", "frame", "col+index"))
            if not isinstance(c["on"], list):
                c["on"] = rx.sample(KEYCOLS, rx.choice((1, 2)))
            c["onform"] = "list"
        elif r < 0.45:
            x["ser"] = rx.choice(KEYCOLS)     # Series.shuffle(on_index=True)
        if rx.random() < 0.25:
            x["force"] = True
        if rx.random() < 0.1 and not big:
            c["np"] = rx.choice((130, 200, 257))
            c["accessor"] = False             # (one graph per partition would be 130+ optimisations)
            x["bignp"] = True
        if rx.random() < 0.2 and "onkind" not in x and "ser" not in x:
            x["pre"] = _pre_desc(rx)
            if isinstance(c["on"], list) and rx.random() < 0.7:      # shuffle again on a part / superset / the same keys
                k = x["pre"]["keys"]
                c["on"] = rx.choice((k[:1], list(k), list(k) + [rx.choice(("k", "n", "s"))]))
                c["onform"] = "list"
        if rx.random() < 0.3 and "ser" not in x:
            x["post"] = _post_desc(rx, ("project", "filter"))
    elif op == "sort":
        r = rx.random()
        if r < 0.3:
            x["sf"] = rx.choice(("func", "kwargs"))
        if rx.random() < 0.3:
            x["upsample"] = rx.choice((0.5, 2.0, 10.0))
        if rx.random() < 0.25:
            x["presort"] = rx.choice(("asc", "desc", "match"))      # input already ordered by the first key
            if rx.random() < 0.6:
                c["by"][0] = rx.choice(("u", "f", "t", "a", "b"))   # mostly a first key without NA: the shortcut applies
                c["by"] = list(dict.fromkeys(c["by"]))
                if not isinstance(c["asc"], bool):
                    c["asc"] = c["asc"][:len(c["by"])]
        if rx.random() < 0.04:
            c["np"] = "auto"
        if rx.random() < 0.15:
            x["pre"] = _pre_desc(rx)
        if rx.random() < 0.45:
            x["post"] = _post_desc(rx, ("head", "head", "tail", "tail", "project", "filter"))
        if rx.random() < 0.2:
            x["second"] = {"na": rx.choice(("first", "last")), "method": rx.choice(METHODS), "by2": rx.sample(KEYCOLS, 2),
                           "asc2": [rx.random() < 0.5, rx.random() < 0.5]}
    elif op == "set_index":
        r = rx.random()
        if r < 0.3:
            x["other"] = rx.choice(("list1", "series", "series", "expr", "expr"))
            if x["other"] == "expr":
                c["col"] = rx.choice(("a", "d", "u", "f", "c", "n"))
        elif r < 0.45:
            c["mode"] = "nosort"
        elif r < 0.6:
            c["mode"] = "sorted_div"
        elif r < 0.63:
            c["mode"] = "auto"
        if rx.random() < 0.3:
            x["upsample"] = rx.choice((0.5, 2.0, 10.0))
        if rx.random() < 0.15:
            x["pre"] = _pre_desc(rx)
        if rx.random() < 0.45:
            x["post"] = _post_desc(rx, ("head", "head", "tail", "tail", "project", "filter"))
        if rx.random() < 0.2:
            x["second"] = {"drop": rx.random() < 0.5, "method": rx.choice(METHODS)}
    else:
        r = rx.random()
        if r < 0.65:
            # de-duplication of a frame that carries partitioning knowledge from an earlier shuffle / merge / groupby /
            # drop_duplicates: on a part of, all of, or more than the known key tuple
            c["kind"] = "preshuffled"
            pre = _pre_desc(rx)
            x["pre"] = pre
            k = list(pre["keys"])
            extra = rx.choice(("u", "f", "a", "b", "d", "e"))
            c["dcols"] = list(dict.fromkeys(k + [extra]))
            x["subset"] = rx.choice((None, k[:1], k[:1], list(k), list(k) + [extra], [extra], k[-1:]))
        elif r < 0.77:
            x["serpre"] = True               # Series facets on a column of a shuffled frame
            c["kind"] = rx.choice(("series", "series_unique", "series_nunique"))
        elif r < 0.88:
            c["kind"] = "index"
            x["ixkw"] = True                 # Index.drop_duplicates / unique with split_every / shuffle_method / keep
        if rx.random() < 0.5:
            x["subset_str"] = True
            if "pre" not in x and c["kind"] in ("df", "preshuffled") and rx.random() < 0.6:
                # subset given as ONE string; mostly a name whose letters are column names themselves
                c["subset"] = "first1"
                c["dcols"] = [rx.choice(("kn", "kn", "k2", "a", "s"))] + [v for v in c["dcols"] if v not in ("kn", "k2", "a", "s")][:2]
        if rx.random() < 0.5:
            # more input partitions than split_every: an intermediate combine level / a widened shuffle exists
            c["part"] = {"how": "npartitions", "n": rx.randint(5, 12), "clear": rx.random() < 0.2}
            c["nrows"] = max(c["nrows"], 24)
            c["split_every"] = rx.choice((2, 2, 3))
            c["split_out"] = rx.choice((1, 1, 2, True))
    if op in ("shuffle", "dedup") and rx.random() < 0.1 and "pre" not in x and "ser" not in x:
        x["pmzero"] = True                # the float column c holds -0.0 and 0.0, and it is (part of) the key
        if op == "shuffle":
            c["on"] = ["c"] + ([v for v in c["on"] if v != "c"][:1] if isinstance(c["on"], list) and rx.random() < 0.3 else [])
            c["onform"] = "list"
        else:
            c["scol"] = "c"
            c["dcols"] = ["c"] + [v for v in c["dcols"] if v != "c"][:rx.choice((0, 0, 1))]
            c["split_out"] = rx.choice((True, 2, 3, 5))
    c["x"] = x
    return c


def cases(tier, seed):
    rng = random.Random(seed * 40503 % (2 ** 31) + 40)
    rx = random.Random(seed * 7919 % (2 ** 31) + 4040)      # private stream of the audit cases (base stream unchanged)
    n = 1800 if tier == "quick" else 24000
    for i in range(n):
        c = _base(rng)
        if i % 4 == 0:      # every block of four holds each facet once, in random order (shards take i % nshards)
            block = rng.sample(("shuffle", "sort", "set_index", "dedup"), 4)
        yield _fill(c, rng, block[i % 4])
        if rx.random() < 0.5:                                # at random positions: every shard gets its share
            yield _ext_case(rx)


_TMP = []
_CASES = [0]


def _private_tmp():
    """every disk shuffle leaves a ``*.partd`` directory in dask's temporary directory: point it at a private directory
    that is removed when the shard ends (``shard_finish`` / atexit)"""
    import atexit
    import shutil
    import tempfile

    import dask

    if not _TMP:
        d = tempfile.mkdtemp(prefix="vf-c40partd-")
        _TMP.append(d)
        atexit.register(shutil.rmtree, d, True)
    dask.config.set({"temporary-directory": _TMP[0]})


def _sweep_tmp():
    import os
    import shutil

    for d in _TMP:
        try:
            for f in os.listdir(d):
                shutil.rmtree(os.path.join(d, f), ignore_errors=True)
        except OSError:
            pass


def shard_setup(tier, seed):
    from vf.gen import frames as F

    F.setup()
    import dask

    dask.config.set(scheduler="sync")
    _private_tmp()
    warnings.simplefilter("ignore")


def shard_finish():
    import shutil

    while _TMP:
        shutil.rmtree(_TMP.pop(), ignore_errors=True)
    return {}


# --------------------------------------------------------------------------- frames
def make_frame(case):
    """the shared wide frame plus: s str with NA, kn categorical with NaN, tn datetime with NaT, u unique int64
    (shuffled), f float64 without NaN (few ties)"""
    import numpy as np
    import pandas as pd

    from vf.gen import frames as F

    pdf = F.rand_frame(case["fs"], nrows=case["nrows"], index=case["index"], cols="wide")
    n = len(pdf)
    r = np.random.default_rng(case["fs"] ^ 0x5bd1e995)
    s = r.choice(["x", "y", "zz", "w"], n).astype(object) if n else np.array([], dtype=object)
    if n:
        s[r.random(n) < 0.25] = None
    pdf["s"] = pd.array(list(s), dtype="str")
    kn = pd.Categorical(r.choice(["p", "q", "r"], n) if n else [], categories=["r", "p", "q", "unused"])
    pdf["k2"] = kn
    if n:
        kn = pd.Categorical.from_codes(np.where(r.random(n) < 0.2, -1, kn.codes), dtype=kn.dtype)
    pdf["kn"] = kn
    tn = pd.Series(pd.to_datetime("2022-05-01") + pd.to_timedelta(r.integers(0, 6, n), unit="D"))
    if n:
        tn[r.random(n) < 0.2] = pd.NaT
    pdf["tn"] = tn.values
    if (case.get("x") or {}).get("pmzero") and n >= 4:
        # value class: a float key holding BOTH zeros (equal values with different bit patterns)
        c = pdf["c"].to_numpy().copy()
        c[r.permutation(n)[:max(2, n // 6)]] = 0.0
        c[r.permutation(n)[:max(2, n // 6)]] = -0.0
        if not (np.signbit(c[c == 0]).any() and (~np.signbit(c[c == 0])).any()):
            c[0], c[1] = 0.0, -0.0
        pdf["c"] = c
    pdf["u"] = r.permutation(n).astype("int64")
    pdf["f"] = np.round(r.integers(0, max(2, 2 * n), n) / 4.0, 2)
    return pdf


def _kindof(dtype):
    s = str(dtype)
    for pre, k in (("int", "int"), ("float", "float"), ("boolean", "boolean"), ("bool", "bool"), ("datetime", "datetime"),
                   ("category", "category"), ("Int", "Int64"), ("str", "str"), ("object", "str")):
        if s.startswith(pre):
            return k
    return "other"


def _norm(v):
    import pandas as pd

    try:
        if pd.isna(v):
            return None
    except (TypeError, ValueError):
        pass
    return v


PMZ = "float-key-with-negative-and-positive-zero"


def _pm_zero(obj):
    """input-feature predicate: a float key column holds both -0.0 and 0.0 (equal values, different bit patterns: they are
    hashed apart - one mechanism for every hash-partitioned operation)"""
    import numpy as np
    import pandas as pd

    cols = [obj.iloc[:, i] for i in range(obj.shape[1])] if isinstance(obj, pd.DataFrame) else [pd.Series(obj)]
    for c in cols:
        if str(c.dtype) not in ("float64", "float32"):
            continue
        v = c.to_numpy()
        z = v == 0
        if z.any() and np.signbit(v[z]).any() and (~np.signbit(v[z])).any():
            return True
    return False


def key_tuples(df):
    """list of NA-normalised key tuples of a key frame"""
    cols = [df.iloc[:, i].astype(object).tolist() for i in range(df.shape[1])]
    return [tuple(_norm(v) for v in row) for row in zip(*cols)] if cols else [()] * len(df)


def run_ids(keys):
    out, cur, prev = [], -1, object()
    for t in keys:
        if t != prev:
            cur += 1
            prev = t
        out.append(cur)
    return out


def _stages(method, mb, nin, nout):
    """True when TaskShuffle builds the staged graph"""
    import dask.utils

    m = method or dask.utils.get_default_shuffle_method()
    if m != "tasks":
        return m, False
    mb = mb or 32
    nin = min(nin, nout)
    return m, (nout > mb and nin > mb)


def _opts(case):
    return {} if case.get("mb") is None else {"max_branch": case["mb"]}


def _parts(r, accessor=False):
    import dask

    if accessor:
        return list(dask.compute(*[r.partitions[i] for i in range(r.npartitions)], scheduler="sync"))
    return list(dask.compute(*r.to_delayed(), scheduler="sync"))


def _concat(parts, like):
    import pandas as pd

    parts = [p for p in parts]
    if not parts:
        return like.iloc[:0]
    return pd.concat(parts)


# --------------------------------------------------------------------------- run
def run_case(case, ctx):
    with warnings.catch_warnings():
        warnings.simplefilter("ignore")
        from vf.gen import frames as F

        F.setup()
        _private_tmp()
        _CASES[0] += 1
        if _CASES[0] % 50 == 0:
            _sweep_tmp()
        pdf = make_frame(case)
        try:
            ddf = F.partition(pdf, case["part"])
        except NotImplementedError as e:
            ctx.unsupported("source: %s" % e)
            return
        ctx.sig = case
        ctx.nontrivial = len(pdf) >= 2 and ddf.npartitions >= 2
        ctx.op(case["op"])
        if not ddf.known_divisions:
            ctx.count("inputs_unknown_divisions")
        if (case.get("x") or {}).get("pmzero"):
            ctx.count("inputs_with_negative_and_positive_zero_key")
        {"shuffle": _shuffle, "sort": _sort, "set_index": _set_index, "dedup": _dedup}[case["op"]](case, ctx, pdf, ddf)


def _guard(ctx, feat, fn, desc, refine=None, collapse=None, pre_probe=None):
    """run a dask-side thunk; classify exceptions.  -> (ok, value).  ``refine()`` -> extra input-feature predicate
    (evaluated only when an exception has to be labelled).  ``collapse`` = (exception types, label): these exceptions are
    one symptom of a mechanism that also shows as wrong rows -> that ONE label"""
    try:
        return True, fn()
    except NotImplementedError as e:
        ctx.unsupported("%s: %s" % (feat, e))
    except Exception as e:  # noqa: BLE001
        if pre_probe is not None:
            # a case with a pre-step: when the pre-step (with the same consumer) fails WITHOUT the C40 operation, the failure
            # is the business of the pre-step's own property (merge / groupby / optimiser), not a C40 verdict
            try:
                pre_probe()
            except Exception as e2:  # noqa: BLE001
                ctx.unsupported("the pre-step alone fails the same way: %s: %s" % (type(e2).__name__, str(e2)[:120]))
                ctx.count("pre_step_failures_outside_c40")
                return False, None
        if collapse is not None and isinstance(e, collapse[0]) and dask_frame_of(e):
            ctx.violation(collapse[1], "%s: %s" % (type(e).__name__, str(e)[:300]), case=desc)
            return False, None
        extra = ""
        if refine is not None:
            try:
                extra = refine() or ""
            except Exception:  # noqa: BLE001
                extra = ""
        ctx.exception(e, prefix=feat + extra, case=desc)
    return False, None


def dask_frame_of(e):
    from vf.core.ctx import dask_frame, through_shim

    return dask_frame(e) is not None and not through_shim(e)


def _all_na_partition(ddf, col):
    """input-feature predicate: some non-empty input partition holds only NA in ``col``"""
    import dask

    pieces = [s for s in dask.compute(*ddf[col].to_delayed(), scheduler="sync") if len(s)]
    if pieces and all(bool(s.isna().all()) for s in pieces):
        return "&all-NA-column"
    return "&all-NA-input-partition" if any(bool(s.isna().all()) for s in pieces) else ""


def _presorted_ignoring_na(ddf, col, ascending=True):
    """input-feature predicate: the NON-NA values of ``col`` are already partition-sorted (max of partition i < min of
    partition i+1, or > for descending; >= 2 non-empty partitions) while the column holds NA"""
    import dask
    import pandas as pd

    pieces = [s for s in dask.compute(*ddf[col].to_delayed(), scheduler="sync") if len(s)]
    if len(pieces) < 2 or not any(bool(s.isna().any()) for s in pieces):
        return ""
    vals = [s.dropna() for s in pieces]
    if any(len(v) == 0 for v in vals):
        return ""
    try:
        if isinstance(vals[0].dtype, pd.CategoricalDtype):
            vals = [v.cat.as_ordered() for v in vals]
        lo, hi = [v.min() for v in vals], [v.max() for v in vals]
        ok = all(hi[i] < lo[i + 1] for i in range(len(vals) - 1)) if ascending else \
            all(lo[i] > hi[i + 1] for i in range(len(vals) - 1))
    except TypeError:
        return ""
    return "&input-presorted-by-non-NA-values" if ok else ""


# ---- pre- and post-steps (audit stream) ------------------------------------------------------------------------------
def _apply_pre(pre, pdf, ddf):
    """an EARLIER operation on both sides -> (pdf2, ddf2, info).  Every kind leaves hash-partitioning knowledge on the
    key tuple ``pre["keys"]`` in the dask expression (``unique_partition_mapping_columns_from_shuffle``):
    shuffle (+ a blockwise assign / rename / add_prefix / a repartition to fewer partitions), a hash merge with the frame
    of distinct keys (every left row matches exactly once), drop_duplicates on keys + the unique column ``u`` (drops
    nothing), groupby(keys).agg(split_out).reset_index().  info: index_ok (the index still equals pandas'), colmap
    (renamed columns), keys (the key tuple under its new names), u_unique."""
    import numpy as np

    import dask.dataframe as dd

    K, kind, m, np_ = list(pre["keys"]), pre["kind"], pre.get("method"), pre.get("np")
    colmap, index_ok = {}, True
    if kind.startswith("shuffle"):
        d, p = ddf.shuffle(on=K, npartitions=np_, shuffle_method=m), pdf
        if kind == "shuffle+assign":
            d, p = d.assign(zz=1), p.assign(zz=1)
        elif kind == "shuffle+rename":
            colmap = {K[0]: K[0] + "_r"}
            d, p = d.rename(columns=colmap), p.rename(columns=colmap)
        elif kind == "shuffle+prefix":
            colmap = {c: "p_" + c for c in pdf.columns}
            d, p = d.add_prefix("p_"), p.add_prefix("p_")
        elif kind == "shuffle+repart":
            # fewer partitions keep "equal keys in one partition", more partitions do not
            d = d.repartition(npartitions=max(1, d.npartitions // 2) if pre.get("rnp", 1) == 1 else d.npartitions * 2 + 1)
        elif kind == "shuffle+overwrite":
            # a blockwise step that OVERWRITES a key column: the knowledge on the key tuple is void afterwards
            # (computed from the old values of that column, so that the column is not simply projected away below)
            f = {"a": lambda z: z["a"] % 2, "b": lambda z: z["b"].str.slice(0, 1), "d": lambda z: z["d"].abs(),
                 "e": lambda z: z["e"] & (z["a"] > 1)}[K[0]]
            d, p = d.assign(**{K[0]: f(d)}), p.assign(**{K[0]: f(p)})
    elif kind == "merge":
        right = pdf[K].drop_duplicates().reset_index(drop=True)
        right["w"] = np.arange(len(right), dtype="int64")
        dr = dd.from_pandas(right, npartitions=pre.get("rnp", 2))
        d = ddf.merge(dr, on=K, how="inner", broadcast=False, shuffle_method=m)
        p = pdf.merge(right, on=K, how="inner")
        index_ok = False
    elif kind == "dedup":
        d, p = ddf.drop_duplicates(subset=K + ["u"], split_out=np_ or True, shuffle_method=m), pdf
    elif kind == "groupby":
        spec = {"u": "sum", "f": "max"}
        d = ddf.groupby(K).agg(spec, split_out=np_ or 2, shuffle_method=m).reset_index()
        p = pdf.groupby(K).agg(spec).reset_index()
        index_ok = False
    else:
        raise ValueError(kind)
    return p, d, {"index_ok": index_ok, "colmap": colmap, "keys": [colmap.get(c, c) for c in K],
                  "u_unique": bool(colmap.get("u", "u") in p.columns and p[colmap.get("u", "u")].is_unique), "kind": kind}


def _pre(case, ctx, pdf, ddf):
    """-> (pdf, ddf, info) with the pre-step of the case applied (info None without one); None when it cannot be built"""
    x = case.get("x") or {}
    if not x.get("pre"):
        return pdf, ddf, None
    try:
        p, d, info = _apply_pre(x["pre"], pdf, ddf)
    except Exception as e:  # noqa: BLE001  (building merge / groupby / ... is the business of their own properties)
        ctx.unsupported("pre-step %s could not be built: %s: %s" % (x["pre"]["kind"], type(e).__name__, e))
        return None
    ctx.count("pre_steps_applied")
    ctx.count("pre_step_" + info["kind"].split("+")[0])
    return p, d, info


def _remap(cols, info, avail):
    """column names of the case after a pre-step that renamed / removed columns (falls back to the pre-step's keys)"""
    if info is None:
        return list(cols)
    out = [info["colmap"].get(c, c) for c in cols]
    out = list(dict.fromkeys(c for c in out if c in avail))
    return out or list(info["keys"][:max(1, len(cols))])


def _threshold(pdf, fc, q):
    """a value of numeric column ``fc`` for the filter post-step (None: no usable column)"""
    import pandas as pd

    if fc not in pdf.columns or not pd.api.types.is_numeric_dtype(pdf[fc].dtype) or len(pdf) == 0:
        return None
    v = pdf[fc].dropna()
    if len(v) == 0:
        return None
    return v.sort_values().iloc[min(len(v) - 1, int(q * len(v)))].item()


def S_pick(case, n):
    from vf.mon import siblings as S

    return S.pick(case, n, salt="c40")


def _canon(parts):
    """partition-wise canonical value of a collection for the sibling monitor: the rows of every partition as a sorted
    multiset (the row order inside a partition is not stable between two graphs for the disk shuffle)"""
    from vf.gen import frames as F

    out = []
    for p in parts:
        try:
            q = F._sorted(p, True)
            out.append((tuple(map(str, getattr(q, "columns", [getattr(q, "name", None)]))), q.to_json(orient="split", date_format="iso", default_handler=str)))
        except Exception:  # noqa: BLE001
            out.append(repr(p))
    return out


def _sibling(ctx, case, op, param, a, build_b):
    """the collection of the case next to ONE sibling that differs in one result-relevant keyword, both in one graph
    (vf/mon/siblings.py): shared output keys with different values, or values that change when computed together"""
    import dask

    from vf.mon import siblings as S

    def many(colls):
        ds = [c.to_delayed() for c in colls]
        flat = dask.compute(*[d for one in ds for d in one], scheduler="sync")
        res, k = [], 0
        for one in ds:
            res.append(_canon(flat[k:k + len(one)]))
            k += len(one)
        return res

    x = case.get("x") or {}
    if case.get("method") != "tasks" or (x.get("pre") and x["pre"].get("method") != "tasks"):
        return      # the disk shuffle (also the default of the sync scheduler) orders rows by execution order: values of
        #             keep=first / ignore_index legitimately differ between two graphs
    try:
        S.check(ctx, op, param, a, build_b, compute=lambda c: _canon(_parts(c)), compute_many=many,
                together=S.want_together(case, 0.5, salt="c40"))
    except Exception as e:  # noqa: BLE001  (the monitor itself must never decide a case by failing)
        from vf.core.ctx import CaseTimeout

        if isinstance(e, CaseTimeout):
            raise
        ctx.count("siblings_monitor_errors")


# ---- shuffle ---------------------------------------------------------------------------------------------------------
def _shuffle(case, ctx, pdf, ddf):
    import pandas as pd

    from vf.gen import frames as F

    x = case.get("x") or {}
    pre = _pre(case, ctx, pdf, ddf)
    if pre is None:
        return
    pdf, ddf, info = pre
    index_ok = info is None or info["index_ok"]
    on = case["on"]
    if isinstance(on, list):
        on = _remap(on, info, list(pdf.columns))
    kw = {"ignore_index": case["ignore_index"], "npartitions": case["np"], "shuffle_method": case["method"]}
    kw.update(_opts(case))
    if x.get("force"):
        kw["force"] = True
    src_d, src_p = ddf, pdf
    onkind = x.get("onkind")
    if x.get("ser"):
        # Series.shuffle(on_index=True): the one-dimensional path of RearrangeByColumn
        col = _remap([x["ser"]], info, list(pdf.columns))[0]
        src_d, src_p = ddf[col], pdf[[col]]
        kw["on_index"] = True
        on = "@index"
        keyframe = lambda p: p.index.to_frame(index=False)  # noqa: E731
        onfeat = "&series&on-index"
    elif on == "@index":
        kw["on_index"] = True
        keyframe = lambda p: p.index.to_frame(index=False)  # noqa: E731
        onfeat = "&on-index"
    elif on == "@name":
        if pdf.index.name is None or not index_ok:
            ctx.reject("index has no name")
            return
        kw["on"] = [pdf.index.name]
        keyframe = lambda p: p.index.to_frame(index=False)  # noqa: E731
        onfeat = "&on-index-name"
    elif onkind == "series":
        kc = on[0]
        if str(pdf[kc].dtype) == "int64":
            kw["on"] = ddf[kc] % 3
            keyframe = lambda p: p[[kc]] % 3  # noqa: E731
        else:
            kw["on"] = ddf[kc]
            keyframe = lambda p: p[[kc]]  # noqa: E731
        on = [kc]
        onfeat = "&on-series-object"
    elif onkind == "indexobj":
        kw["on"] = ddf.index
        on = "@index"
        keyframe = lambda p: p.index.to_frame(index=False)  # noqa: E731
        onfeat = "&on-index-object"
    elif onkind == "frame":
        kw["on"] = ddf[list(on)]
        keyframe = lambda p: p[list(on)]  # noqa: E731
        onfeat = "&on-frame-object"
    elif onkind == "col+index":
        if pdf.index.name is None:
            ctx.reject("index has no name")
            return
        on = [on[0]]
        kw["on"] = [on[0], pdf.index.name]
        keyframe = lambda p: p[[on[0]]].reset_index()  # noqa: E731
        onfeat = "&on-column+index-name"
    else:
        kw["on"] = on[0] if case.get("onform") == "str" and len(on) == 1 else list(on)
        keyframe = lambda p: p[list(on)]  # noqa: E731
        onfeat = ""
    usesindex = on in ("@index", "@name") or onkind == "col+index"
    nout = case["np"] or src_d.npartitions
    method, staged = _stages(case["method"], case["mb"], src_d.npartitions, nout)
    view = "accessor" if case.get("accessor") else "graph"
    post = x.get("post")
    pfilter = None
    if post:
        if post["kind"] == "project":
            keep = list(on) if isinstance(on, list) else []
            rest = [c for c in pdf.columns if c not in keep]
            keep += [c for i, c in enumerate(rest) if (post["cols"] >> (i % 16)) & 1][:4]
            keep = keep or list(pdf.columns[:1])
            pfilter = ("project", keep)
        else:
            fc = _remap([post["fcol"]], info, list(pdf.columns))[0]
            thr = _threshold(pdf, fc, post["q"])
            if thr is not None:
                pfilter = ("filter", fc, thr)
        if pfilter:
            view += "&then-" + pfilter[0]
    feat = "shuffle:%s%s%s" % (method, "&multi-stage" if staged else "", onfeat)
    desc = dict(case, input_npartitions=src_d.npartitions)
    # a consumer after the shuffle is an optimiser rewrite (pushed below the shuffle) whatever the method: own small label set
    pfeat = "shuffle%s:then-%s" % ("&on-dask-collection" if onkind in ("series", "indexobj", "frame") else onfeat, pfilter[0]) if pfilter else None

    def build():
        r = src_d.shuffle(**kw)
        if pfilter and pfilter[0] == "project":
            r = r[pfilter[1]]
        elif pfilter:
            r = r[r[pfilter[1]] >= pfilter[2]]
        return _parts(r, accessor=case.get("accessor"))

    # (a row filter after a shuffle keyed by a separate collection: misaligned key -> ValueError or wrong rows, one label)
    coll = (ValueError, pfeat + ":rows") if pfeat and "&on-dask-collection:then-filter" in pfeat else None
    def probe():
        b = src_d
        if pfilter and pfilter[0] == "project":
            b = b[pfilter[1]]
        elif pfilter:
            b = b[b[pfilter[1]] >= pfilter[2]]
        return _parts(b)

    ok, parts = _guard(ctx, pfeat or (feat + ":" + view), build, desc, collapse=coll, pre_probe=probe if info is not None else None)
    if not ok:
        return
    if x.get("ser"):
        if not all(isinstance(q, pd.Series) for q in parts):
            ctx.violation("%s:%s:kind" % (feat, view), "partitions of a shuffled Series are %s" % sorted({type(q).__name__ for q in parts}),
                          case=desc)
            return
        parts = [q.to_frame() for q in parts]
    if pfilter and pfilter[0] == "project":
        src_p = src_p[pfilter[1]]
    elif pfilter:
        src_p = src_p[src_p[pfilter[1]] >= pfilter[2]]
    ctx.count("shuffles_checked")
    ctx.count("shuffle_partitions_observed", len(parts))
    ctx.count("shuffle_method_" + method)
    if x:
        ctx.count("shuffle_audit_cases")
        for k in ("onkind", "ser", "force", "bignp", "big"):
            if x.get(k):
                ctx.count("shuffle_x_" + (k if k != "onkind" else "on_" + x[k].replace("+", "_")))
        if onkind:
            ctx.count("shuffle_on_collection_or_column_and_index")
        if x.get("big"):
            ctx.count("big_frames")
        if pfilter:
            ctx.count("shuffle_then_" + pfilter[0])
        if info:
            ctx.count("shuffle_after_pre_step")
    if staged:
        ctx.count("multi_stage_task_shuffles")
    if nout != src_d.npartitions:
        ctx.count("shuffles_changing_npartitions")
    ctx.distinct("shuffle_feature", (feat, view, sorted(on) if isinstance(on, list) else on))
    if pfeat:
        m = F.compare(_concat(parts, src_p), src_p, ordered=False, check_index=not case["ignore_index"] and index_ok)
        if m is not None:
            ctx.violation(pfeat + ":rows", "rows of shuffle(...)%s differ from the same selection of the input (as multisets): %s: %s"
                          % ("[columns]" if pfilter[0] == "project" else "[row filter]", m[0], m[1]), case=desc,
                          partition_lengths=[len(q) for q in parts])
            return
    # (1) equal keys never in two partitions (not observable when the key IS the index and ignore_index drops it)
    seen = {}
    nakey = False
    observable = not (case["ignore_index"] and usesindex)
    if observable:
        ctx.count("shuffle_key_sets_checked")
    for i, p in enumerate(parts):
        if len(p) == 0 or not observable:
            continue
        kf = keyframe(p)
        for t in set(key_tuples(kf)):
            if t in seen and seen[t] != i:
                na = any(v is None for v in t)
                kinds = "+".join(sorted({_kindof(dt) for dt, v in zip(kf.dtypes, t) if v is None})) if na else ""
                pmz = any(isinstance(v, float) and v == 0 for v in t) and _pm_zero(keyframe(_concat([q for q in parts if len(q)], p)))
                ctx.violation("shuffle:%s:key-in-two-partitions" % PMZ if pmz else
                              "%s:%s:key-in-two-partitions%s" % (feat, view, ":na-key(%s)" % kinds if na else ""),
                              "key %r occurs in output partitions %d and %d" % (t, seen[t], i), case=desc,
                              partition_lengths=[len(q) for q in parts])
                break
            seen[t] = i
            nakey = nakey or any(v is None for v in t)
        else:
            continue
        break
    if nakey:
        ctx.count("shuffles_with_na_keys")
    if sum(1 for p in parts if len(p)) >= 2:
        ctx.count("shuffles_spreading_over_partitions")
    # (2) multiset of rows preserved
    got = _concat(parts, src_p)
    m = F.compare(got, src_p, ordered=False, check_index=not case["ignore_index"] and index_ok)
    if m is not None:
        ctx.violation("%s:%s:rows-%s" % (feat, view, m[0]), "rows of the shuffled frame differ from the input (as multisets): %s" % m[1],
                      case=desc, partition_lengths=[len(q) for q in parts])
    if x and not pfilter and not x.get("bignp") and m is None:
        kw2 = dict(kw, npartitions=(nout % 7) + 2 if (nout % 7) + 2 != nout else nout + 1)
        _sibling(ctx, case, "shuffle", "npartitions", src_d.shuffle(**kw), lambda: src_d.shuffle(**kw2))
    ctx.sample = {"feat": feat, "view": view, "keys": len(seen), "partition_lengths": [len(p) for p in parts][:12]}


# ---- sort_values -----------------------------------------------------------------------------------------------------
def _ordered_check(ctx, feat, view, got, exp, keyframe, what, desc, check_index=True, feat2=None):
    """exact key sequence + multisets within runs of equal keys.  ``feat2``: label prefix used when the FIRST key
    column's sequence agrees and only later key columns are out of order."""
    from vf.gen import frames as F

    if len(got) != len(exp):
        ctx.violation("%s:%s:rows-length" % (feat, view), "%d rows, pandas has %d" % (len(got), len(exp)), case=desc)
        return False
    gk, ek = keyframe(got).reset_index(drop=True), keyframe(exp).reset_index(drop=True)
    m = F.compare(gk, ek, ordered=True, check_index=False, check_dtype=False)
    if m is not None:
        m0 = F.compare(got, exp, ordered=False, check_index=check_index)
        if m0 is not None:
            ctx.violation("%s:%s:rows-%s" % (feat, view, m0[0]), "rows differ from pandas even as a multiset: %s" % m0[1], case=desc)
            return False
        lab = "%s:%s:%s-order" % (feat, view, what)
        if feat2 is not None and gk.shape[1] > 1 and \
                F.compare(gk.iloc[:, :1], ek.iloc[:, :1], ordered=True, check_index=False, check_dtype=False) is None:
            lab = "%s:%s:secondary-%s-order" % (feat2, view, what)
        ctx.violation(lab, "%s sequence differs from pandas: got %s, expected %s (%s)"
                      % (what, key_tuples(gk)[:14], key_tuples(ek)[:14], m[1][:160]), case=desc)
        return False
    ids = run_ids(key_tuples(ek))
    g2, e2 = got.copy(), exp.copy()
    g2["__run"] = ids
    e2["__run"] = ids
    m = F.compare(g2, e2, ordered=False, check_index=check_index)
    if m is not None:
        ctx.violation("%s:%s:rows-within-equal-%ss-%s" % (feat, view, what, m[0]),
                      "rows within runs of equal %ss differ from pandas as multisets: %s" % (what, m[1]), case=desc)
        return False
    return True


def _colkind(s):
    """dtype kind of a key column; an unordered categorical whose categories are not in lexical order is its own kind"""
    import pandas as pd

    k = _kindof(s.dtype)
    if isinstance(s.dtype, pd.CategoricalDtype):
        cats = list(s.dtype.categories)
        if cats != sorted(cats):
            k += "(categories-not-in-lexical-order)"
    return k


def _sf_tiebreak(df, by=None, ascending=True, **kw):
    """a user ``sort_function``: orders by the keys and then by the unique column ``u`` (the result is a total order)"""
    asc = [ascending] * len(by) if isinstance(ascending, bool) else list(ascending)
    return df.sort_values(by=list(by) + ["u"], ascending=asc + [True], **kw)


def _head_check(ctx, feat, view, got, exp, pdf, keyframe, what, n, first_len, desc, check_index=True, feat2=None):
    """``result.head(n)`` / ``.tail(n)``: the key sequence is pandas' (the n first / last of the ordered frame; by the
    documented caveat of head()/tail() possibly only as many as the first / last partition holds) and every row is a
    row of the input"""
    from vf.gen import frames as F

    tail = view == "tail"
    if not isinstance(got, type(exp)):
        ctx.violation("%s:%s:kind" % (feat, view), "got %s" % type(got).__name__, case=desc)
        return
    full = min(n, len(exp))
    allowed = {full, min(n, first_len)} if first_len is not None else {full}
    if len(got) not in allowed:
        ctx.violation("%s:%s:rows-length" % (feat, view), "%d rows, pandas has %d (first/last partition holds %s)" % (len(got), full, first_len),
                      case=desc)
        return
    e = exp.tail(len(got)) if tail else exp.head(len(got))
    if list(got.columns) != list(e.columns):
        ctx.violation("%s:%s:rows-columns" % (feat, view), "columns %s, pandas %s" % (list(got.columns), list(e.columns)), case=desc)
        return
    gk, ek = keyframe(got).reset_index(drop=True), keyframe(e).reset_index(drop=True)
    m = F.compare(gk, ek, ordered=True, check_index=False, check_dtype=False)
    if m is not None:
        lab = "%s:%s:%s-order" % (feat, view, what)
        if feat2 is not None and gk.shape[1] > 1 and \
                F.compare(gk.iloc[:, :1], ek.iloc[:, :1], ordered=True, check_index=False, check_dtype=False) is None:
            lab = "%s:%s:secondary-%s-order" % (feat2, view, what)
        ctx.violation(lab, "%s sequence of %s(%d) differs from pandas: got %s, expected %s"
                      % (what, view, n, key_tuples(gk)[:14], key_tuples(ek)[:14]), case=desc)
        return
    # every returned row is a row of the ordered frame (ties at the cut may be any of the tied rows)
    from collections import Counter

    def rows(f):
        t = key_tuples(f.reset_index(drop=True))
        return [a + (_norm(i),) for a, i in zip(t, f.index.astype(object).tolist())] if check_index else t

    ce, cg = Counter(rows(exp)), Counter(rows(got))
    bad = [t for t, k in cg.items() if k > ce.get(t, 0)]
    if bad:
        ctx.violation("%s:%s:rows-values" % (feat, view), "%s(%d) returns rows that the frame does not hold: %s" % (view, n, bad[:3]), case=desc)


def _sort(case, ctx, pdf, ddf):
    from vf.gen import frames as F

    x = case.get("x") or {}
    pre = _pre(case, ctx, pdf, ddf)
    if pre is None:
        return
    pdf, ddf, info = pre
    by = _remap(case["by"], info, list(pdf.columns))
    asc = case["asc"]
    if not isinstance(asc, bool) and len(asc) != len(by):
        asc = (list(asc) + [True] * len(by))[:len(by)]
    case = dict(case, by=by, asc=asc)
    if x.get("presort") and info is None:
        # the input is already ordered by the first key (ascending / descending / as the sort asks): the presorted shortcut
        a0 = asc if isinstance(asc, bool) else asc[0]
        up = {"asc": True, "desc": False, "match": a0}[x["presort"]]
        try:
            pdf = pdf.sort_values(by[0], ascending=up, kind="stable", na_position=case["na"] if up == a0 else "last")
            ddf = F.partition(pdf, case["part"])
        except Exception as e:  # noqa: BLE001
            ctx.reject("pandas: %s" % e)
            return
        ctx.count("sorts_on_presorted_input")
    good = _sort_core(case, ctx, pdf, ddf, info, x, second=False)
    if good and x.get("second"):
        # STATE: a second sort of the same collection with the same first key / npartitions / direction (the quantile
        # divisions of the first one are cached) but other later keys, na_position and shuffle method
        s2 = x["second"]
        by2 = list(dict.fromkeys([by[0]] + _remap(s2["by2"], info, list(pdf.columns))))[:3]
        a0 = asc if isinstance(asc, bool) else asc[0]
        asc2 = [a0] + [bool(v) for v in (s2["asc2"] + [True])[:len(by2) - 1]]
        c2 = dict(case, by=by2, asc=asc2, na=s2["na"], method=s2["method"], byform="list", also_compute=False)
        ctx.count("sorts_second_on_same_collection")
        ctx.count("second_operation_on_same_collection")
        _sort_core(c2, ctx, pdf, ddf, info, {k: v for k, v in x.items() if k == "upsample"}, second=True)


def _sort_core(case, ctx, pdf, ddf, info, x, second):
    by = list(case["by"])
    asc = case["asc"]
    kw = {"ascending": asc, "na_position": case["na"], "npartitions": case["np"], "shuffle_method": case["method"],
          "ignore_index": case["ignore_index"]}
    kw.update(_opts(case))
    ucol = (info["colmap"].get("u", "u") if info else "u")
    total = bool(x.get("sf")) and (info is None or info["u_unique"]) and ucol in pdf.columns and ucol == "u"
    asc_list = [asc] * len(by) if isinstance(asc, bool) else list(asc)
    if x.get("sf") == "func" and total:
        kw["sort_function"] = _sf_tiebreak
    elif x.get("sf") == "kwargs" and total:
        kw["sort_function_kwargs"] = {"by": by + ["u"], "ascending": asc_list + [True]}
    if x.get("upsample"):
        kw["upsample"] = x["upsample"]
    try:
        if total:
            exp = pdf.sort_values(by + ["u"], ascending=asc_list + [True], na_position=case["na"], kind="stable")
        else:
            exp = pdf.sort_values(by, ascending=asc, na_position=case["na"], kind="stable")
    except Exception as e:  # noqa: BLE001
        ctx.reject("pandas: %s" % e)
        return False
    nakeys = bool(pdf[by].isna().any().any())
    na0 = bool(pdf[by[0]].isna().any())
    asc0 = asc if isinstance(asc, bool) else asc[0]
    # the partitioning of a sort depends on the FIRST key only; later keys are sorted inside partitions
    # one mechanism = one label: an unordered categorical first key with non-lexical category order, and NA in the first
    # key with na_position="first", are mechanisms of their own (whatever the direction / dtype)
    k0 = _colkind(pdf[by[0]])
    allna = _all_na_partition(ddf, by[0]) if na0 else ""       # quantile summaries of all-NA partitions are a mechanism
    if allna == "&all-NA-column" and k0 != "float":            # (own symptom only for float keys)
        allna = "&all-NA-input-partition"
    pres = _presorted_ignoring_na(ddf, by[0], asc0) if na0 and not allna else ""   # the presorted shortcut skips NA
    if allna:
        ctx.count("sorts_with_all_na_input_partition")
    if pres:
        ctx.count("sorts_presorted_by_non_na_values")
    if "not-in-lexical-order" in k0:
        feat = "sort_values:first-key=%s" % k0
    elif allna:
        feat = "sort_values:first-key=%s&na%s" % (k0, allna)
    elif pres:
        feat = "sort_values:na-in-first-key%s" % pres
    elif na0 and case["na"] == "first":
        feat = "sort_values:na-in-first-key&na_position=first"
    else:
        feat = "sort_values:first-key=%s%s%s" % (k0, "&na&na_position=last" if na0 else "", "" if asc0 else "&descending")
    feat2 = "sort_values:multi-column%s%s" % ("&na-in-later-keys&na_position=%s" % case["na"] if nakeys else "",
                                              "&mixed-ascending" if isinstance(asc, list) and len(set(asc)) > 1 else "")
    # (a nullable boolean key fails on any NA, an all-NA partition is not needed: one label)
    efeat = "sort_values:first-key=%s%s%s" % (k0, "&na" if na0 else "", "" if k0 == "boolean" else allna)
    if case["np"] == "auto":
        efeat = "sort_values:npartitions=auto"
    refine = None
    desc = dict(case, input_npartitions=ddf.npartitions)
    byarg = by[0] if case.get("byform") == "str" and len(by) == 1 else by
    probe = (lambda: _parts(ddf)) if info is not None else None
    r_ok, r = _guard(ctx, efeat, lambda: ddf.sort_values(byarg, **kw), desc, refine, pre_probe=probe)
    if not r_ok:
        return False
    ok, parts = _guard(ctx, efeat, lambda: _parts(r), desc, refine, pre_probe=probe)
    if not ok:
        return False
    ctx.count("sorts_checked")
    if nakeys:
        ctx.count("sorts_with_na_keys")
    if len(by) > 1:
        ctx.count("sorts_multi_column")
    if len(parts) >= 2 and sum(1 for p in parts if len(p)) >= 2:
        ctx.count("sorts_with_several_output_partitions")
    ctx.distinct("sort_feature", (feat, sorted(str(pdf[c].dtype) for c in by)))
    if x or second:
        ctx.count("sort_audit_cases")
        for k in ("upsample", "big"):
            if x.get(k):
                ctx.count("sort_x_" + k)
        if x.get("big"):
            ctx.count("big_frames")
        if info:
            ctx.count("sort_after_pre_step")
        if x.get("presort"):
            try:
                if not any("Shuffle" in type(e).__name__ for e in r.optimize(fuse=False).expr.walk()):
                    ctx.count("sorts_lowered_without_shuffle")
            except Exception:  # noqa: BLE001
                pass
    got = _concat(parts, pdf)
    # dask's ignore_index gives partition-local labels: the index is not compared then (see Calibration)
    ci = not case["ignore_index"] and (info is None or info["index_ok"])
    good = _ordered_check(ctx, feat, "graph", got, exp, lambda f: f[by], "key", desc, check_index=ci, feat2=feat2)
    if good and total:
        # with a sort function that breaks every tie the whole row sequence is determined
        from vf.gen import frames as F

        ctx.count("sorts_with_sort_function_" + x["sf"])
        ctx.count("sorts_with_user_sort_function")
        m = F.compare(got, exp, ordered=True, check_index=ci)
        if m is not None:
            ctx.violation("sort_values:%s:graph:rows-order" % ("sort_function" if x["sf"] == "func" else "sort_function_kwargs"),
                          "the user's partition sort (keys, then the unique column) was not applied: %s" % m[1][:300], case=desc)
            good = False
    if case.get("also_compute") and good and not x.get("post"):
        ok, whole = _guard(ctx, efeat + ":compute", lambda: r.compute(scheduler="sync"), desc, refine)
        if ok:
            ctx.count("compute_views")
            _ordered_check(ctx, feat, "compute", whole, exp, lambda f: f[by], "key", desc, check_index=ci, feat2=feat2)
    if good and x and not second and case["np"] != "auto":
        w = S_pick(case, 3)
        kw2 = dict(kw)
        if w == 0:
            kw2["na_position"], param = ("first" if case["na"] == "last" else "last"), "na_position"
        elif w == 1:
            kw2["ascending"], param = ([not v for v in asc_list] if not isinstance(asc, bool) else (not asc)), "ascending"
        else:
            kw2["ignore_index"], param = (not case["ignore_index"]), "ignore_index"
        _sibling(ctx, case, "sort_values", param, r, lambda: ddf.sort_values(byarg, **kw2))
    post = x.get("post") if good and not second else None
    if post:
        # head / tail never reach the partitioning: their own (smaller) feature set
        # (NA in ANY key with na_position="first" is one mechanism there)
        nafirst = nakeys and case["na"] == "first"
        hfeat = "sort_values:na-in-keys&na_position=first" if nafirst else \
            "sort_values:first-key=%s%s%s" % (k0, "&na&na_position=last" if na0 else "", "" if asc0 else "&descending")
        _sorted_post(ctx, "sort", feat, "sort_values", None if nafirst else feat2, r, exp, pdf, parts, post, info, lambda f: f[by], "key",
                     desc, ci, by, hfeat, base=ddf)
    ctx.sample = {"feat": feat, "partition_lengths": [len(p) for p in parts][:12]}
    return good


def _sorted_post(ctx, facet, feat, efeat, feat2, r, exp, pdf, parts, post, info, keyframe, what, desc, ci, keycols, hfeat=None, base=None):
    """a consumer of the ordered collection that the optimiser rewrites around the sort: head / tail (NFirst / NLast),
    a column selection, a row filter (both pushed below the sort)"""
    kind = post["kind"]
    if kind in ("head", "tail"):
        n = post["n"]
        nonempty = [len(p) for p in parts]
        first_len = (nonempty[-1] if kind == "tail" else nonempty[0]) if nonempty else 0
        ok, got = _guard(ctx, "%s:%s" % (efeat, kind), (lambda: r.tail(n)) if kind == "tail" else (lambda: r.head(n)), desc,
                         pre_probe=(lambda: _parts(base)) if info is not None and base is not None else None)
        if not ok:
            return
        ctx.count("%s_then_%s" % (facet, kind))
        ctx.count("ordered_then_head_or_tail")
        _head_check(ctx, hfeat or feat, kind, got, exp, pdf, keyframe, what, n, first_len, desc, check_index=ci, feat2=feat2)
        return
    if kind == "project":
        rest = [c for c in exp.columns if c not in keycols]
        cols = [c for i, c in enumerate(rest) if (post["cols"] >> (i % 16)) & 1][:4]
        if facet == "sort":
            # the sort keys are NOT selected: the unique column recovers them for the order check
            ucol = info["colmap"].get("u", "u") if info else "u"
            if ucol not in exp.columns or not exp[ucol].is_unique:
                return
            cols = list(dict.fromkeys([ucol] + [c for c in cols if c != ucol]))
        elif not cols:
            cols = rest[:1]
        if not cols:
            return
        ok, p2 = _guard(ctx, "%s:project" % efeat, lambda: _parts(r[cols]), desc,
                        pre_probe=(lambda: _parts(base[[c for c in cols if c in base.columns]])) if info is not None and base is not None else None)
        if not ok:
            return
        ctx.count("%s_then_project" % facet)
        ctx.count("ordered_then_project_or_filter")
        got = _concat(p2, exp[cols])
        e2 = exp[cols]
        if facet == "sort":
            if list(got.columns) != cols or len(got) != len(e2) or sorted(got[ucol].tolist()) != sorted(e2[ucol].tolist()):
                ctx.violation("%s:project:rows-values" % feat, "selection %s after the sort: columns %s, %d rows (pandas %d)"
                              % (cols, list(got.columns), len(got), len(e2)), case=desc)
                return
            look = exp[keycols].copy()
            look.index = exp[ucol].values
            g2 = got.copy()
            for c in keycols:
                g2["__k_" + c] = look[c].reindex(got[ucol]).values
            e3 = e2.copy()
            for c in keycols:
                e3["__k_" + c] = exp[c].values
            kc = ["__k_" + c for c in keycols]
            _ordered_check(ctx, feat, "project", g2, e3, lambda f: f[kc], what, desc, check_index=ci, feat2=feat2)
        else:
            _ordered_check(ctx, feat, "project", got, e2, keyframe, what, desc, check_index=ci)
        return
    if kind == "filter":
        fc = _remap([post["fcol"]], info, list(exp.columns))[0]
        thr = _threshold(exp, fc, post["q"])
        if thr is None:
            return
        ser = "&other=series" in efeat        # key given as a separate Series: ValueError or wrong rows are ONE mechanism
        ok, p2 = _guard(ctx, "%s:filter" % efeat, lambda: _parts(r[r[fc] >= thr]), desc,
                        collapse=(ValueError, "%s:filter:rows" % efeat) if ser else None,
                        pre_probe=(lambda: _parts(base[base[fc] >= thr])) if info is not None and base is not None and fc in base.columns else None)
        if not ok:
            return
        ctx.count("%s_then_filter" % facet)
        ctx.count("ordered_then_project_or_filter")
        e2 = exp[exp[fc] >= thr]
        if ser:
            from vf.gen import frames as F

            m = F.compare(_concat(p2, e2), e2, ordered=False)
            if m is not None:
                ctx.violation("%s:filter:rows" % efeat, "rows of set_index(<series>)[row filter] differ from pandas (as multisets): %s: %s"
                              % (m[0], m[1][:300]), case=desc)
                return
        _ordered_check(ctx, feat, "filter", _concat(p2, e2), e2, keyframe, what, desc, check_index=ci, feat2=feat2)


# ---- set_index -------------------------------------------------------------------------------------------------------
def _set_index(case, ctx, pdf, ddf):
    x = case.get("x") or {}
    pre = _pre(case, ctx, pdf, ddf)
    if pre is None:
        return
    pdf, ddf, info = pre
    col = _remap([case["col"]], info, list(pdf.columns))[0]
    case = dict(case, col=col)
    good = _set_index_core(case, ctx, pdf, ddf, info, x, second=False)
    if good and x.get("second") and case["mode"] in ("plain", "npartitions", "divisions"):
        # STATE: the same collection indexed a second time by the same column (cached quantile divisions), other drop / method
        s2 = x["second"]
        ctx.count("set_index_second_on_same_collection")
        ctx.count("second_operation_on_same_collection")
        _set_index_core(dict(case, drop=s2["drop"], method=s2["method"], also_compute=False), ctx, pdf, ddf, info,
                        {k: v for k, v in x.items() if k in ("upsample", "other")}, second=True)


def _set_index_core(case, ctx, pdf, ddf, info, x, second):
    import pandas as pd

    from vf.gen import frames as F

    col, mode = case["col"], case["mode"]
    other = x.get("other")
    kw = {"drop": case["drop"]}
    if mode in ("sorted", "sorted_div") and info is not None:
        mode = "plain"            # (a pre-step fixes the partitioning: no really sorted input can be built)
    shuffling = mode in ("plain", "npartitions", "divisions", "auto")
    if case["method"] is not None and shuffling:
        kw["shuffle_method"] = case["method"]
    if shuffling:
        kw.update(_opts(case))
        if x.get("upsample"):
            kw["upsample"] = x["upsample"]
    if other == "expr" and not pd.api.types.is_numeric_dtype(pdf[col].dtype):
        other = "series"
    keyser = pdf[col] * 2 if other == "expr" else pdf[col]
    hasna = bool(keyser.isna().any())
    if hasna and (mode in ("sorted", "sorted_div") or _kindof(pdf[col].dtype) not in ("float", "Int64")):
        # nulls in a non-numeric index are documented as not supported; "really sorted" is undefined with nulls
        ctx.reject("set_index on a non-numeric column with nulls / sorted=True with nulls: outside the documented domain")
        return False
    if mode == "sorted":
        # really sorted input: sort the pandas frame by the column first (stable), then partition it by position
        pdf = pdf.sort_values(col, kind="stable")
        part = dict(case["part"])
        if part.get("how") in ("npartitions", "chunksize"):
            part["clear"] = False
        try:
            ddf = F.partition(pdf, part)
        except NotImplementedError as e:
            ctx.unsupported("source: %s" % e)
            return False
        kw["sorted"] = True
    elif mode == "sorted_div":
        # sorted=True WITH divisions: the partitions are cut exactly at the division values
        if isinstance(pdf[col].dtype, pd.CategoricalDtype) or len(pdf) == 0:
            ctx.reject("sorted=True with divisions: no division vector for a categorical / empty column")
            return False
        pdf = pdf.sort_values(col, kind="stable")
        vals = sorted(pd.unique(pdf[col]).tolist())
        rng = random.Random(case["dseed"])
        cutv = sorted(rng.sample(vals[1:], min(len(vals) - 1, max(0, case["np"] - 1))), key=vals.index)
        cv = pdf[col].tolist()
        cuts = [cv.index(v) for v in cutv]
        try:
            ddf = F.partition(pdf, {"how": rng.choice(("slices", "delayed")), "cuts": cuts})
        except NotImplementedError as e:
            ctx.unsupported("source: %s" % e)
            return False
        kw["sorted"] = True
        kw["divisions"] = [_norm_div(v) for v in [vals[0]] + cutv + [vals[-1]]]
    elif mode == "nosort":
        kw["sort"] = False
    elif mode == "auto":
        kw["npartitions"] = "auto"
    elif mode == "npartitions":
        kw["npartitions"] = case["np"]
    elif mode == "divisions":
        vals = sorted(pd.unique(keyser.dropna()).tolist()) if not isinstance(pdf[col].dtype, pd.CategoricalDtype) else \
            [c for c in pdf[col].cat.categories if (pdf[col] == c).any()]
        if len(vals) == 0:
            ctx.reject("no values to draw divisions from")
            return False
        rng = random.Random(case["dseed"])
        inner = vals[1:-1]
        take = sorted(rng.sample(inner, min(len(inner), max(0, case["np"] - 1))), key=vals.index)
        d = [vals[0]] + take + ([vals[-1]] if len(vals) > 1 else [vals[0]])
        if case.get("beyond") and _kindof(pdf[col].dtype) in ("int", "float", "Int64"):
            d = [d[0] - 2] + (d if rng.random() < 0.5 else d[1:])
            d = (d if rng.random() < 0.5 else d[:-1]) + [d[-1] + 3]
        head = []
        for v in d[:-1]:            # divisions must be unique except for the last element
            if v not in head:
                head.append(v)
        d = head + [d[-1]]
        kw["divisions"] = [_norm_div(v) for v in d]
    if other == "expr":
        argp, argd = (lambda: pdf[col] * 2), (lambda: ddf[col] * 2)
    elif other == "series":
        argp, argd = (lambda: pdf[col]), (lambda: ddf[col])
    elif other == "list1":
        argp, argd = (lambda: [col]), (lambda: [col])
    else:
        argp, argd = (lambda: col), (lambda: col)
    try:
        exp = pdf.set_index(argp(), drop=case["drop"])
        if mode != "nosort":
            exp = exp.sort_index(kind="stable")
    except Exception as e:  # noqa: BLE001
        ctx.reject("pandas: %s" % e)
        return False
    ck = _colkind(pdf[col])
    allna = _all_na_partition(ddf, col) if hasna else ""
    if allna == "&all-NA-column" and ck != "float":
        allna = "&all-NA-input-partition"
    if allna:
        ctx.count("set_index_with_all_na_input_partition")
    if "not-in-lexical-order" in ck and mode == "divisions":
        # divisions must be python-sorted (documented ValueError otherwise); no vector is both sorted and in category order
        ctx.reject("no valid division vector for an unordered categorical with non-lexical category order")
        return False
    pres = _presorted_ignoring_na(ddf, col) if hasna and not allna and mode in ("plain", "npartitions") else ""
    if pres:
        ctx.count("set_index_presorted_by_non_na_values")
    ofeat = {"expr": "&other=series-expression", "series": "&other=series"}.get(other, "")
    if mode == "nosort":
        feat = "set_index:sort=False:%s-column%s" % (ck, ofeat)
    elif mode == "sorted_div":
        feat = "set_index:sorted&divisions:%s-column%s" % (ck, ofeat)
    elif "not-in-lexical-order" in ck and mode != "sorted":
        feat = "set_index:%s-column" % ck          # one mechanism whatever the mode
    else:
        fmode = "quantile-divisions" if (allna or pres) and mode in ("plain", "npartitions") else mode
        feat = "set_index:%s:%s-column%s%s%s" % (fmode, ck, "&na-values" if hasna else "", allna, pres)
    emode = "quantile-divisions" if hasna and mode in ("plain", "npartitions") else mode
    efeat = "set_index:%s%s" % (emode, "&%s-column&na-values%s" % (ck, allna) if hasna else
                                "&category-column" if ck.startswith("category") and mode == "sorted" else
                                "&empty-frame" if len(pdf) == 0 and mode == "sorted" else
                                "&bool-column" if ck == "bool" and mode == "sorted" else "")
    if mode == "auto":
        efeat = "set_index:npartitions=auto"
    elif other in ("series", "expr") and mode == "npartitions" and case["np"] == 1 and ddf.npartitions > 1:
        efeat = "set_index:other=series&npartitions=1&several-input-partitions"
    refine = None
    desc = dict(case, input_npartitions=ddf.npartitions, kwargs={k: str(v)[:120] for k, v in kw.items()})
    probe = (lambda: _parts(ddf)) if info is not None else None
    r_ok, r = _guard(ctx, efeat, lambda: ddf.set_index(argd(), **kw), desc, refine, pre_probe=probe)
    if not r_ok:
        return False
    ok, parts = _guard(ctx, efeat, lambda: _parts(r), desc, refine, pre_probe=probe)
    if not ok:
        return False
    ctx.count("set_index_checked")
    ctx.count("set_index_" + mode)
    if len(parts) >= 2 and sum(1 for p in parts if len(p)) >= 2:
        ctx.count("set_index_with_several_output_partitions")
    ctx.distinct("set_index_feature", feat)
    if x or second:
        ctx.count("set_index_audit_cases")
        for k in ("upsample", "big"):
            if x.get(k) and shuffling:
                ctx.count("set_index_x_" + k)
        if x.get("big"):
            ctx.count("big_frames")
        if other:
            ctx.count("set_index_other_" + other)
            if other != "list1":
                ctx.count("set_index_other_collection")
        if info:
            ctx.count("set_index_after_pre_step")
    got = _concat(parts, exp)
    keyframe = lambda f: f.index.to_frame(index=False)  # noqa: E731
    if mode == "nosort":
        # sort=False "operates exactly like pandas.set_index": same rows in the same order
        # (after a pre-step the row order of the input is already dask's own: multiset then)
        m = F.compare(got, exp, ordered=info is None)
        if m is not None:
            ctx.violation("%s:graph:rows-%s" % (feat, m[0]), "set_index(sort=False) differs from pandas.set_index: %s" % m[1][:300], case=desc)
        ctx.sample = {"feat": feat, "partition_lengths": [len(p) for p in parts][:12]}
        return m is None
    good = _ordered_check(ctx, feat, "graph", got, exp, keyframe, "index", desc)
    if case.get("also_compute") and good and not x.get("post"):
        # (the graph view was right: an exception here comes from what compute() appends, whatever the column)
        ok, whole = _guard(ctx, "set_index:%s:compute" % mode, lambda: r.compute(scheduler="sync"), desc, refine)
        if ok:
            ctx.count("compute_views")
            _ordered_check(ctx, feat, "compute", whole, exp, keyframe, "index", desc)
    # side monitor only (C41 owns the verdict)
    try:
        if good and r.known_divisions and len(parts) == len(r.divisions) - 1:
            ctx.count("side_divisions_monitor_runs")
            dv = F.divisions_violation(r, parts)
            if dv is not None:
                ctx.count("side_divisions_monitor_hits")
                ctx.distinct("side_divisions_monitor_kinds", (mode, dv[0]))
    except Exception:  # noqa: BLE001
        pass
    if good and x and not second and mode in ("plain", "npartitions", "divisions") and other in (None, "list1"):
        kw2 = dict(kw, drop=not case["drop"])
        _sibling(ctx, case, "set_index", "drop", r, lambda: ddf.set_index(argd(), **kw2))
    post = x.get("post") if good and not second else None
    if post:
        keycols = [c for c in [col] if c not in exp.columns]
        hfeat = "set_index:drop=False" if (not case["drop"] and other in (None, "list1")) else \
            "set_index:other=series" if other in ("series", "expr") else "set_index:%s-column%s" % (ck, "&na-values" if hasna else "")
        _sorted_post(ctx, "set_index", feat, "set_index" + ("&other=series" if other in ("series", "expr") else ""), None, r, exp, pdf,
                     parts, post, info, keyframe, "index", desc, True, keycols, hfeat, base=ddf)
    ctx.sample = {"feat": feat, "partition_lengths": [len(p) for p in parts][:12]}
    return good


def _norm_div(v):
    import numpy as np
    import pandas as pd

    if isinstance(v, np.generic) and not isinstance(v, np.datetime64):
        return v.item()
    if isinstance(v, np.datetime64):
        return pd.Timestamp(v)
    return v


# ---- drop_duplicates / unique / nunique --------------------------------------------------------------------------------
def _no_negative_zero(df):
    """-0.0 written as 0.0 in the float columns (one key, two representatives)"""
    try:
        df = df.copy()
        for c in df.columns:
            if getattr(df[c].dtype, "kind", "") == "f":
                df[c] = df[c] + 0.0
    except Exception:  # noqa: BLE001
        pass
    return df


def _valuelist(x):
    """NA-normalised sorted value list of a Series / Index / array"""
    import pandas as pd

    # Calibration: -0.0 and 0.0 are one key (they compare equal); which of the two representatives survives a
    # de-duplication is not defined, so both are written as 0.0
    vals = [0.0 if (isinstance(v, float) and v == 0.0) else v for v in (_norm(v) for v in pd.Series(x).astype(object).tolist())]
    return sorted(vals, key=lambda v: (v is None, repr(v)))


def _dedup(case, ctx, pdf, ddf):
    import pandas as pd

    from vf.gen import frames as F

    kind = case["kind"]
    keep = case["keep"]
    desc = dict(case, input_npartitions=ddf.npartitions)
    so, se = case["split_out"], case["split_every"]
    method = case["method"]
    sfeat = "split_out=%s%s" % ("True" if so is True else "1" if so == 1 else ">1", "&%s" % method if method else "")
    # which machinery decides the surviving duplicate: a tree reduction (split_out=1) or a shuffle of the given method
    # (None resolves to "tasks": dask prefers the order-keeping method)
    spath = "tree-reduce" if (so is not True and so == 1) else "shuffle=%s" % (method or "tasks")
    x = case.get("x") or {}
    if x:
        ctx.count("dedup_audit_cases")
    # size classes of the reduction: more input partitions than split_every
    if isinstance(se, int) and not isinstance(se, bool) and se >= 2 and ddf.npartitions > se:
        if so is not True and so == 1:
            ctx.count("dedup_tree_reduce_with_intermediate_level")
        elif so is not True and ddf.npartitions // se > so:
            ctx.count("dedup_shuffle_wider_than_split_out")
    if kind in ("df", "preshuffled"):
        cols = list(dict.fromkeys(case["dcols"]))
        sub = {"first1": cols[:1], "first2": cols[:2], "some": cols[-1:], None: None}[case["subset"]]
        p2, d2 = pdf[cols], ddf[cols]
        if kind == "preshuffled" and x.get("pre"):
            # partitioning knowledge from an earlier shuffle / merge / groupby / drop_duplicates on a key TUPLE; the
            # de-duplication then runs on a part of it, all of it, more than it, or other columns
            pre = _pre(case, ctx, pdf, ddf)
            if pre is None:
                return
            pfull, dfull, info = pre
            cols = _remap(cols, info, list(pfull.columns))
            sub = _remap(x["subset"], info, list(pfull.columns)) if x.get("subset") else None
            if sub is not None:
                cols = list(dict.fromkeys(cols + sub))
            p2, d2 = pfull[cols], dfull[cols]
            ctx.count("drop_duplicates_after_shuffle")
            ctx.count("drop_duplicates_after_pre_step_" + info["kind"].split("+")[0])
            ctx.count("dedup_after_knowledge_pre_step")
            if sub is not None:
                ks, ss = set(info["keys"]), set(sub)
                ctx.count("dedup_subset_%s_known_keys" % ("equals" if ss == ks else "part_of" if ss < ks else "superset_of" if ss > ks
                                                          else "overlaps" if ss & ks else "disjoint_from"))
        elif kind == "preshuffled":
            # shuffled on one dedup key (no second shuffle needed), on all columns, or on the first two columns (a superset
            # of a one-column subset: equal subset keys are then NOT co-located and a second shuffle is needed)
            pre = {"key1": (sub or cols)[:1], "all": cols, "first2": cols[:2]}[case.get("pre", "key1")]
            d2 = d2.shuffle(on=pre, shuffle_method=method)
            ctx.count("drop_duplicates_after_shuffle")
            if case["fs"] % 3:
                # a blockwise step between the shuffle and drop_duplicates: without it the optimiser simply removes the
                # shuffle below DropDuplicates; with it DropDuplicates may REUSE the partitioning of that shuffle
                d2, p2 = d2.assign(zz=1), p2.assign(zz=1)
                cols = cols + ["zz"]
        subarg = sub
        if x.get("subset_str") and sub is not None and len(sub) == 1:
            subarg = sub[0]
            ctx.count("dedup_subset_as_string")
        if keep is False:
            try:
                d2.drop_duplicates(subset=sub, keep=False)
                ctx.count("keep_false_accepted")
            except NotImplementedError as e:
                ctx.unsupported("drop_duplicates keep=False: %s" % e)
            except Exception as e:  # noqa: BLE001
                ctx.exception(e, prefix="drop_duplicates:keep=False")
            return
        exp = p2.drop_duplicates(subset=sub, keep=keep, ignore_index=False)
        feat = "drop_duplicates:frame%s:%s&keep=%s:%s" % ("&pre-shuffled" if kind == "preshuffled" else "",
                                                        "subset" if sub else "whole-row", keep, sfeat)
        kwargs = {"subset": subarg, "keep": keep, "split_out": so, "split_every": se, "shuffle_method": method,
                  "ignore_index": case["ignore_index"]}
        ok, got = _guard(ctx, feat, lambda: _concat(_parts(d2.drop_duplicates(**kwargs)), p2), desc,
                         pre_probe=(lambda: _parts(d2)) if x.get("pre") else None)
        if not ok:
            return
        ctx.count("drop_duplicates_checked")
        if kind == "preshuffled":
            try:
                nsh = sum(1 for e in d2.drop_duplicates(**kwargs).optimize(fuse=False).expr.walk() if "Shuffle" in type(e).__name__)
                ctx.count("dedup_after_shuffle_with_%s_shuffle_layers" % ("one" if nsh == 1 else "no" if nsh == 0 else "several"))
            except Exception:  # noqa: BLE001
                pass
        if len(exp) < len(p2):
            ctx.count("drop_duplicates_with_duplicates")
        ctx.distinct("dedup_feature", feat)
        kc = sub or cols
        m = F.compare(_no_negative_zero(got[kc]), _no_negative_zero(exp[kc]), ordered=False, check_index=False)
        if m is not None:
            ctx.violation("drop_duplicates:%s:keys" % PMZ if _pm_zero(p2[kc]) and spath != "tree-reduce" else
                          "drop_duplicates:frame%s:%s:%s:keys-%s" % ("&pre-shuffled" if kind == "preshuffled" else "",
                                                                     "subset" if sub else "whole-row", spath, m[0]),
                          "surviving keys differ from pandas (as multisets): %s" % m[1], case=desc)
            return
        if x and len(exp) < len(p2):
            kw2 = dict(kwargs, keep="last" if keep == "first" else "first")
            _sibling(ctx, case, "drop_duplicates", "keep", d2.drop_duplicates(**kwargs), lambda: d2.drop_duplicates(**kw2))
        # survivor facet: full rows (and index label unless ignore_index) of the kept duplicate.  Not judged after an
        # explicit shuffle: shuffle() documents that it keeps no meaningful order, so first/last are undefined there.
        if kind == "preshuffled":
            return
        m = F.compare(got, exp, ordered=False, check_index=not case["ignore_index"])
        ctx.count("survivor_checked")
        if m is not None:
            ctx.violation("drop_duplicates:%s:survivor" % spath,
                          "kept rows differ from pandas' keep=%s rows (as multisets, %s): %s" % (keep, m[0], m[1]), case=desc)
        return
    if kind == "df_nunique":
        cols = list(dict.fromkeys(case["dcols"]))
        p2, d2 = pdf[cols], ddf[cols]
        axis = case["axis"]
        feat = "nunique:frame:axis=%d&dropna=%s" % (axis, case["dropna"])
        try:
            exp = p2.nunique(axis=axis, dropna=case["dropna"])
        except Exception as e:  # noqa: BLE001
            ctx.reject("pandas: %s" % e)
            return
        kwargs = {"axis": axis, "dropna": case["dropna"]}
        if axis == 0 and se is not None:
            kwargs["split_every"] = se
        ok, got = _guard(ctx, feat, lambda: d2.nunique(**kwargs).compute(scheduler="sync"), desc)
        if not ok:
            return
        ctx.count("nunique_checked")
        m = F.compare(got, exp, ordered=True, check_names=False)
        if m is not None:
            ctx.violation("nunique:%s:value" % PMZ if _pm_zero(p2) and axis == 0 else "%s:%s" % (feat, m[0]),
                          "DataFrame.nunique differs from pandas: %s" % m[1], case=desc)
        return
    if kind == "index":
        iop = case["iop"]
        feat = "index.%s:%s-index" % (iop, _kindof(pdf.index.dtype))
        if iop == "nunique":
            exp = pdf.index.nunique(dropna=case["dropna"])
            ok, got = _guard(ctx, feat, lambda: ddf.index.nunique(dropna=case["dropna"]).compute(scheduler="sync"), desc)
            if ok:
                ctx.count("nunique_checked")
                if F.compare(got, exp) is not None:
                    ctx.violation(feat + ":value", "Index.nunique %r, pandas %r" % (got, exp), case=desc)
            return
        exp = pdf.index.drop_duplicates() if iop == "drop_duplicates" else pdf.index.unique()
        ikw = {"split_every": se, "split_out": so, "shuffle_method": method} if x.get("ixkw") else {}
        if ikw:
            ctx.count("index_dedup_with_keywords")
        fn = (lambda: ddf.index.drop_duplicates(**(ikw or {"split_out": so})).compute(scheduler="sync")) if iop == "drop_duplicates" else \
            (lambda: ddf.index.unique(**ikw).compute(scheduler="sync"))
        ok, got = _guard(ctx, feat, fn, desc)
        if ok:
            ctx.count("unique_checked")
            if _valuelist(got) != _valuelist(exp):
                ctx.violation(feat + ":values", "got %s, pandas %s" % (_valuelist(got)[:12], _valuelist(exp)[:12]), case=desc)
        return
    # ---- Series facets
    sc = case["scol"]
    ps, ds = pdf[sc], ddf[sc]
    dk = _kindof(ps.dtype)
    xpre = None
    if x.get("serpre"):
        # the column of a frame that was shuffled on it before (partitioning knowledge reaches the Series reduction)
        ds = ddf.shuffle(on=[sc], shuffle_method=method).assign(zz=1)[sc]
        ctx.count("series_dedup_after_shuffle")
        if ddf.npartitions == 1 and so is not True and so > 1:
            xpre = "dedup:pre-shuffled&single-input-partition&split_out>1"      # (one mechanism for every reduction)
    if kind == "series":
        if keep is False:
            try:
                ds.drop_duplicates(keep=False)
                ctx.count("keep_false_accepted")
            except NotImplementedError as e:
                ctx.unsupported("drop_duplicates keep=False: %s" % e)
            return
        feat = "drop_duplicates:series:%s&keep=%s:%s" % (dk, keep, sfeat)
        exp = ps.drop_duplicates(keep=keep)
        kwargs = {"keep": keep, "split_out": so, "split_every": se, "shuffle_method": method, "ignore_index": case["ignore_index"]}
        ok, got = _guard(ctx, xpre or feat, lambda: _concat(_parts(ds.drop_duplicates(**kwargs)), ps), desc)
        if not ok:
            return
        ctx.count("drop_duplicates_checked")
        ctx.distinct("dedup_feature", feat)
        if not isinstance(got, pd.Series) or _valuelist(got) != _valuelist(exp):
            ctx.violation("drop_duplicates:%s:keys" % PMZ if _pm_zero(ps) and spath != "tree-reduce" else
                          "drop_duplicates:series:%s:%s:keys-values" % (dk, spath),
                          "got %s, pandas %s" % (_valuelist(got)[:12], _valuelist(exp)[:12]), case=desc)
            return
        if x.get("serpre"):
            return          # (after an explicit shuffle "first"/"last" are undefined: keys only)
        ctx.count("survivor_checked")
        m = F.compare(got, exp, ordered=False, check_index=not case["ignore_index"])
        if m is not None:
            ctx.violation("drop_duplicates:%s:survivor" % spath,
                          "kept index labels differ from pandas' keep=%s (as multisets, %s): %s" % (keep, m[0], m[1]), case=desc)
        return
    if kind == "series_unique":
        feat = "unique:series:%s:%s" % (dk, sfeat)
        exp = ps.unique()
        ok, got = _guard(ctx, xpre or feat, lambda: ds.unique(split_every=se, split_out=so, shuffle_method=method).compute(scheduler="sync"), desc)
        if not ok:
            return
        ctx.count("unique_checked")
        ctx.distinct("dedup_feature", feat)
        if _valuelist(got) != _valuelist(exp):
            ctx.violation("unique:%s:values" % PMZ if _pm_zero(ps) and spath != "tree-reduce" else feat + ":values",
                          "got %s, pandas %s" % (_valuelist(got)[:12], _valuelist(exp)[:12]), case=desc)
        elif isinstance(got, pd.Series) and got.name != sc:
            ctx.violation(feat + ":name", "unique() result is named %r, the series %r" % (got.name, sc), case=desc)
        return
    if kind == "series_nunique":
        feat = "nunique:series:%s&dropna=%s:%s" % (dk, case["dropna"], sfeat)
        exp = ps.nunique(dropna=case["dropna"])
        kwargs = {"dropna": case["dropna"], "split_out": so}
        if se is not None:
            kwargs["split_every"] = se
        ok, got = _guard(ctx, xpre or feat, lambda: ds.nunique(**kwargs).compute(scheduler="sync"), desc)
        if not ok:
            return
        ctx.count("nunique_checked")
        ctx.distinct("dedup_feature", feat)
        if F.compare(got, exp) is not None:
            ctx.violation("nunique:%s:value" % PMZ if _pm_zero(ps) and spath != "tree-reduce" else feat + ":value",
                          "Series.nunique %r, pandas %r" % (got, exp), case=desc)
        return
    raise ValueError(kind)
