"""C33 — masked array operations equal numpy.ma.

Monitor: numpy.ma differential.  Each case rebuilds small data, a mask and a
chunking from a JSON description, runs the same masked operation through
dask.array / dask.array.ma (real code, sync scheduler, a seeded tenth on threads)
and through numpy.ma on the same inputs and compares

* the mask (np.ma.getmaskarray of both sides; a plain ndarray counts as "nothing masked",
  np.ma.masked as a fully masked 0-d value),
* the data at the UNMASKED positions only (what lies under the mask is not compared),
* the dtype (skipped when the reference is the np.ma.masked constant),
* the fill_value only for construction (`masked_array(..., fill_value=)`) and `set_fill_value`.

Exact comparison except for floating sum/mean/prod/std/var/average, which use the
reassociation tolerance of vf.mon.compare.float_tol.

Inputs: masks of the flavours nomask / scalar True|False / random / all-False array / all
True / WHOLE CHUNKS MASKED (per block of the data's chunking), data chunked independently
from the mask, masked inputs built either with da.ma.masked_array(dask data, dask mask) or
with da.from_array(numpy masked array).

Calibration (false alarms of the first version, corrected)
* default fill_value: numpy.ma keeps e.g. int64(999999) for an int8 array and casts on use, dask passes dtype= and gets
  int8(63): fill values are compared after casting to the array dtype (as `filled()` uses them).
* Python-scalar operands: numpy.ma converts the scalar to a 0-d array before the ufunc, so `masked_uint8 * 2` is int64 in
  numpy.ma but uint8 under NumPy's weak-scalar rules (which dask's metadata follows), and `masked_uint8 * -1` does not
  raise in numpy.ma while NumPy proper does: dtype not compared for Python-scalar operands, uint8 with -1 rejected.
* 0-d masked operand with a Python scalar: rejected (dask enforces the weak-scalar dtype on numpy.ma's int64 result;
  thorough run: `elem:floordiv:y=python-scalar&0-d:ValueError` for uint8 // 2).
* std/var with ddof >= count and NOTHING masked: numpy.ma gives nan for nomask and `masked` for an all-False mask array
  (thorough run: `reduce:std-var:ddof>=count:mask` with mask flavour nomask): rejected; with something masked the
  reference is unambiguous and stays in the domain.
* `numpy MaskedArray <op> dask array` never reaches dask (MaskedArray.__op__ computes it): reversed binary operators
  with a numpy operand are run in the forward direction.
* numpy.ma mean/std/var of float32 are float64 with a mask array and float32 with nomask: only the dtype kind is
  compared for mean/std/var/average, values with the float32 tolerance.
* lazy dtype/shape metadata is not part of the statement: not checked (a lazy/computed dtype disagreement for
  Python-scalar operands is listed as a side observation in findings_proposed/C33.md).
* reductions / average / nonzero over zero-length axes belong to the generic reduction machinery (C22), not to numpy.ma
  semantics: rejected for these families (zero-length axes stay in for construction, masked_*, elementwise, filled).
* the label of a fully masked 0-d reference (`np.ma.masked`) does not carry the operation: one mechanism.

Parameter audit (kinds ``x_*``, an own case stream after the original one)
* x_layout: da.concatenate / da.stack (2-3 inputs, masked and plain mixed, different dtypes and fill values, random axis incl.
  negative, zero-length pieces), rechunk, slicing (steps, negative steps, integer indices, bounds ON block boundaries) of masked
  arrays; data and mask against numpy.ma, for rechunk / slicing also the fill value (numpy keeps it through views) or, for a
  seeded 40 %, ``filled()`` with the array's OWN fill value afterwards; a third of the float cases carry a NaN fill value.
  The fill value of a concatenation / stack is not compared (numpy.ma resets it, dask keeps a common one).
* x_construct: masked data + a further mask (keep_mask default and False), ``dtype=``, the mask as a nested list, a numpy masked
  array as data; x_like: ones_like / zeros_like with and without ``dtype=``.
* x_mfunc: masked_values with rtol / atol / shrink on float data perturbed by 1e-6 .. 0.3 (counter: the keyword changes the
  mask), fix_invalid with and without fill_value on plain and masked input (mask, and the DATA at the invalid cells).
* x_reduce: ``dtype=`` for sum / prod / mean, blocks of > 255 elements (also not the last block), 4-d arrays with pairwise
  different lengths, 9-16 blocks of one element with split_every=2 (several combine levels).
* x_state: set_fill_value followed by filled / rechunk / slicing / abs on the same object, and the same expression built BEFORE
  the call (numpy.ma evaluates it eagerly with the old fill value; the lazily built dask expression must give the same).
* x_elem: ``**`` (masked, plain and Python-scalar exponents, scalar base), NumPy ufuncs called on the dask masked array.
* x_sib (vf/mon/siblings.py): two collections differing in ONE parameter (fill_value of filled / masked_array / fix_invalid /
  set_fill_value, the bounds / value of masked_inside / masked_greater / masked_equal, rtol / atol of masked_values, the condition
  of masked_where, axis of count, ddof of var, returned of average) must not share keys and must keep their values when computed
  in one graph (half of the cases); equality includes the fill value and the data under the mask.
Calibration of the audit families
* numpy.ma's mean(dtype=<integer>) is sum / count = float64 while NumPy proper and dask return the integer dtype: mean only
  with floating ``dtype=``.
* fill value of empty results (zero-length input, empty slice) is not compared: dask returns a plain empty ndarray from rechunk.
* the mask as a nested list only for arrays without a zero-length axis ([[]] does not carry the shape (1, 0, 1)).
* reference copies are detached (``_detached``): ``mx.copy()`` shares the 0-d fill value array with ``mx`` and
  np.ma.set_fill_value writes into it in place, so the reference used to change the array the dask graph reads (route
  from_array) - which also hid a dask-side defect in the original ``setfill`` family.
* the follow-up of x_state is ``abs(x)``, not ``x + 0`` (Python-scalar operands: numpy.ma dtype quirk, see above).
* not generated: hard_mask / harden_mask (da.ma has no such functions; ``hard_mask=True`` passed through masked_array is lost
  when blocks are merged, but the statement speaks of data and mask only).
"""
from __future__ import annotations

import itertools
import operator
import random
import warnings

import numpy as np

from ..gen import arrays as A
from ..mon import siblings as S
from ..mon.compare import compare_arrays

PROP = "C33"
RULE = ("cases = (operation family, data shape/dtype/seed, data chunking, mask flavour "
        "(nomask|scalar|random|all-false|all-true|whole chunks masked), mask chunking, construction route, fill value, "
        "operation parameters). Families: construct (masked_array), masked_where/inside/outside/invalid/equal/values/"
        "greater../less../not_equal, elementwise masked x {masked, plain dask, numpy, scalar} with broadcasting, reductions "
        "(sum mean min max prod std var any all count; axis, keepdims, split_every), filled, getdata, getmaskarray, "
        "set_fill_value, average, nonzero, where. Complete part: every chunking of a (2,3) array x every mask over its 6 "
        "cells under sum(axis=0/1/None), filled and masked + plain. Parameter-audit stream (1500 / 25000 cases): concatenate / "
        "stack / rechunk / slicing of masked arrays (NaN fill values), further construction forms (masked data + mask, keep_mask, "
        "dtype=, list mask, numpy masked data, ones/zeros_like), masked_values rtol/atol/shrink, fix_invalid, reductions with "
        "dtype= / blocks > 255 elements / 4-d / several combine levels, set_fill_value followed by another operation, pow and "
        "NumPy-ufunc calls, sibling pairs differing in one parameter. non-trivial = some operand axis split into >= 2 chunks; "
        "distinct = distinct (family, op, shapes, dtype, chunks, mask flavour, parameters).")
ASSUMPTIONS = ["numpy.ma (NumPy 2.x) defines the expected data, mask, dtype and fill value",
               "sync scheduler (threads for a tenth)"]
BUDGET = {"quick": 150, "thorough": 600}
FLOORS = {"quick": {"evaluations": 2600, "distinct_nontrivial": 1700,
                    "counters": {"compared": 2300, "with_allmasked_chunk": 550, "reference_has_masked_output": 900,
                                 "reduce_with_fully_masked_cell": 90, "with_nomask": 80, "reference_masked_constant": 60},
                    "max_skipped_fraction": 0.3},
          "thorough": {"evaluations": 24000, "distinct_nontrivial": 13000,
                       "counters": {"compared": 20000, "with_allmasked_chunk": 10000, "reference_has_masked_output": 9000,
                                    "reduce_with_fully_masked_cell": 1600, "with_nomask": 1500},
                       "max_skipped_fraction": 0.3}}
# parameter-audit families (kinds x_*): ~45 % of the smallest count of the five quick seeds; thorough = quick floor x stream ratio
# (25000 / 1500) x 0.8
_XF = {"construct_forms": 69, "elem_extra": 52, "elem_numpy_ufunc_on_dask": 22, "elem_pow": 22, "fix_invalid_cases": 22,
       "fix_invalid_with_invalid_cells": 6, "layout_cases": 142, "layout_concat_stack_inputs": 143, "layout_nan_fill_value": 12,
       "layout_then_filled_with_own_fill_value": 56, "like_cases": 22, "like_dtype_keyword": 16,
       "masked_values_keyword_changes_mask": 11, "masked_values_keywords": 50, "reduce_block_gt_255": 20, "reduce_class_4d": 18,
       "reduce_class_big": 20, "reduce_class_deep": 20, "reduce_class_dtype": 18, "siblings_built": 97,
       "siblings_computed_together": 45, "siblings_with_different_values": 20, "state_followups": 45}
FLOORS["quick"]["counters"].update(_XF)
FLOORS["thorough"]["counters"].update({k: int(v * 25000 / 1500 * 0.8) for k, v in _XF.items()})
for _t in ("quick", "thorough"):
    FLOORS[_t]["sets"] = {"construct_form_kinds": 5, "layout_kinds": 6, "sibling_kinds": 11}
EXHAUSTIVE_SPACE = ("all 4x2=8 chunkings of a (2,3) array x all 64 masks under sum(axis=None|0|1), filled() and "
                    "masked + plain")
CLAIM = ("Every generated masked-array expression was computed by the real dask.array(.ma) and by numpy.ma on the same data, "
         "mask and fill value; mask, data at unmasked positions, dtype (and fill_value for construction/set_fill_value) "
         "were compared. held = no mismatch and no dask exception inside the domain on the executions observed.")
LEVEL_NOTE = ("numpy.ma is the reference; data under the mask is not compared; fill_value compared only for construction "
              "and set_fill_value; only the da.ma functions that exist in dask/array/ma.py")
TECHNIQUE = "runtime monitoring: numpy.ma differential oracle over generated masks/chunkings and a complete small mask space"
PENDING = {
    "elem:*:ref=masked-constant:ValueError@array/core.py:_enforce_dtype":
        "elementwise op on a fully masked 0-d non-float64 array raises (numpy.ma returns the float64 `masked` singleton, "
        "_enforce_dtype refuses the cast)",
    "average:average:weights=none:sum_of_weights-values":
        "da.ma.average(returned=True) without weights returns the number of ALL elements, numpy.ma the number of unmasked ones",
    "average:average:weights=given&empty-cell:sum_of_weights-mask":
        "da.ma.average(weights=, returned=True): sum of weights of a fully masked cell is 0.0, numpy.ma returns it masked",
    "reduce:std-var:ddof>=count&scalar-output:mask":
        "var/std over all axes with ddof >= number of unmasked elements gives nan, numpy.ma gives masked",
    # parameter audit (fixes: fixes_ready/C33_01_set_fill_value_mutates_input_blocks.patch, C33_02_ma_like_functions_ignore_dtype.patch)
    "set_fill_value:set_fill_value:followed-by-op:built-before-values":
        "da.ma.set_fill_value writes the new fill value into its INPUT blocks (shared 0-d fill value array of x.copy()): an "
        "expression built before the call, and the source numpy array of from_array, show the new fill value",
    "like:ones|zeros_like:dtype=:dtype":
        "da.ma.ones_like / zeros_like / empty_like(dtype=) announce the dtype but compute blocks of the input dtype "
        "(map_blocks keeps dtype= for itself)",
    "reduce:count:0-d:AxisError@array/ma.py:_chunk_count":
        "da.ma.count of a 0-d array whose mask is nomask passes axis=() to np.ma.count, which rejects it",
}

DT = ["bool", "int8", "int32", "int64", "uint8", "float32", "float64"]
MASKKINDS = ["nomask", "random", "random", "chunk", "chunk", "chunk", "all", "none", "scalarT", "scalarF"]
FILLS = [None, None, 0, 1, -1, 7, 2.5, True, "nan", 300]
MFUNCS = ["masked_where", "masked_inside", "masked_outside", "masked_invalid", "masked_equal", "masked_values",
          "masked_greater", "masked_greater_equal", "masked_less", "masked_less_equal", "masked_not_equal"]
BINOPS = ["add", "sub", "mul", "truediv", "floordiv", "mod", "lt", "le", "eq", "ne", "gt", "ge", "and_", "or_"]
BINUF = ["maximum", "minimum", "add", "multiply", "hypot", "logical_and", "logical_or", "greater"]
UNOPS = ["neg", "abs"]
UNUF = ["sqrt", "exp", "sin", "isnan", "sign", "floor", "square", "log", "logical_not"]
REDS = ["sum", "mean", "min", "max", "prod", "std", "var", "any", "all", "count"]


def _fv(v):
    return float("nan") if v == "nan" else v


def cases(tier, seed):
    rng = random.Random(seed * 7919 + 33)
    shape = (2, 3)
    for ch in A.all_chunkings(shape):
        for bits in range(64):
            for what in ("sum:None", "sum:0", "sum:1", "filled", "add"):
                yield {"space": "exhaustive", "kind": "ex", "what": what, "shape": list(shape), "dtype": "int64",
                       "chunks": [list(c) for c in ch], "bits": bits, "seed": 3}
    n = 3000 if tier == "quick" else 50000
    kinds = ["construct"] * 3 + ["mfunc"] * 4 + ["elem"] * 5 + ["reduce"] * 6 + ["filled"] * 2 + \
            ["getmaskarray", "getdata", "setfill", "average", "average", "nonzero", "where3"]
    for i in range(n):
        kind = rng.choice(kinds)
        shape = A.rand_shape(rng, maxnd=3, maxlen=6, allow_zero=rng.random() < 0.25)
        if kind in ("reduce", "average") and not shape and rng.random() < 0.8:
            shape = A.rand_shape(rng, maxnd=3, maxlen=6, minnd=1, allow_zero=False)
        d = {"kind": kind, "shape": list(shape), "dtype": rng.choice(DT), "seed": rng.randrange(2 ** 31),
             "chunks": [list(c) for c in A.rand_chunks(rng, shape)],
             "mchunks": [list(c) for c in A.rand_chunks(rng, shape)],
             "mk": rng.choice(MASKKINDS), "via": rng.choice(("ctor", "ctor", "from_array", "ctor_npmask")),
             "fv": rng.choice(FILLS), "threads": rng.random() < 0.1}
        if kind == "construct":
            d["data_np"] = rng.random() < 0.15
        elif kind == "mfunc":
            d["op"] = rng.choice(MFUNCS)
            d["in_masked"] = rng.random() < 0.4
            d["v"] = [rng.choice((-2, -1, 0, 1, 2, 0.5, 3)), rng.choice((-2, -1, 0, 1, 2, 0.5, 3))]
            d["vk"] = rng.choice(("scalar", "scalar", "dask", "numpy", "bcast", "masked", "masked"))
            d["ck"] = rng.choice(("dask", "dask", "numpy", "scalar"))
        elif kind == "elem":
            d["sub"] = rng.choice(("bin", "bin", "rbin", "binuf", "un", "unuf"))
            d["op"] = rng.choice({"bin": BINOPS, "rbin": BINOPS, "binuf": BINUF, "un": UNOPS, "unuf": UNUF}[d["sub"]])
            d["yk"] = rng.choice(("masked", "plain", "plain", "numpy", "npmasked", "scalar"))
            s2 = list(shape)
            for a in range(len(s2)):
                if rng.random() < 0.25:
                    s2[a] = 1
            s2 = s2[rng.randint(0, len(s2)):] if rng.random() < 0.5 else s2
            d["s2"] = s2
            d["c2"] = [list(c) for c in A.rand_chunks(rng, s2)]
            d["d2"] = rng.choice(DT)
            d["mk2"] = rng.choice(MASKKINDS[:-2])
            d["scalar"] = rng.choice((2, -1, 0, 0.5, True))
        elif kind == "reduce":
            d["op"] = rng.choice(REDS)
            nd = len(shape)
            r = rng.random()
            if r < 0.3 or nd == 0:
                d["axis"] = None
            elif r < 0.8:
                d["axis"] = rng.randrange(-nd, nd)
            else:
                d["axis"] = sorted(rng.sample(range(nd), rng.randint(1, nd)))
            d["keepdims"] = rng.random() < 0.35
            d["split_every"] = rng.choice((None, None, 2, 3))
            d["ddof"] = rng.choice((0, 0, 0, 1, 1, 2, 3)) if d["op"] in ("std", "var") else 0
        elif kind == "filled":
            d["call_fv"] = rng.choice(FILLS)
            d["plain"] = rng.random() < 0.1
        elif kind == "setfill":
            d["new_fv"] = rng.choice(FILLS[2:])
        elif kind == "average":
            nd = len(shape)
            d["axis"] = None if (nd == 0 or rng.random() < 0.3) else rng.randrange(-nd, nd)
            d["wk"] = rng.choice(("none", "none", "same", "same_masked", "1d"))
            d["returned"] = rng.random() < 0.4
            d["keepdims"] = rng.random() < 0.3
        elif kind == "where3":
            d["d2"] = rng.choice(DT)
            d["mk2"] = rng.choice(MASKKINDS[:-2])
            d["mkc"] = rng.choice(MASKKINDS[:-2])
        yield d
    # ---- parameter-audit part (own stream; the stream above is unchanged) ---------------------
    xr = random.Random(seed * 7919 + 3333)
    for i in range(1500 if tier == "quick" else 25000):
        yield _extra_case(xr)


XKINDS = (["x_layout"] * 6 + ["x_construct"] * 3 + ["x_mfunc"] * 3 + ["x_like"] + ["x_reduce"] * 4 + ["x_state"] * 2 +
          ["x_elem"] * 2 + ["x_sib"] * 4)
SIBS = ["filled:fill_value", "masked_array:fill_value", "masked_inside:v2", "masked_greater:value", "masked_equal:value",
        "masked_values:rtol", "masked_values:atol", "fix_invalid:fill_value", "set_fill_value:fill_value", "count:axis",
        "var:ddof", "average:returned", "masked_where:condition"]


def _rand_slices(rng, shape, chunks):
    """per axis ["s", start, stop, step] or ["i", index]; bounds often ON block boundaries; at least one slice"""
    out = []
    for n, ch in zip(shape, chunks):
        bounds = [0]
        for c in ch:
            bounds.append(bounds[-1] + c)
        pool = [None, None] + bounds + [rng.randint(-n - 1, n + 1) for _ in range(2)] + [-b for b in bounds if b]
        if n and rng.random() < 0.2:
            out.append(["i", rng.randrange(-n, n)])
        else:
            out.append(["s", rng.choice(pool), rng.choice(pool), rng.choice((None, None, 1, 2, -1, -2, 3))])
    if all(o[0] == "i" for o in out):
        out[rng.randrange(len(out))] = ["s", None, None, None]
    return out


def _extra_case(rng):
    kind = rng.choice(XKINDS)
    shape = A.rand_shape(rng, maxnd=3, maxlen=6, minnd=1, allow_zero=kind in ("x_layout", "x_construct") and rng.random() < 0.12)
    d = {"kind": kind, "shape": list(shape), "dtype": rng.choice(DT), "seed": rng.randrange(2 ** 31),
         "mk": rng.choice(MASKKINDS), "via": rng.choice(("ctor", "ctor", "from_array", "ctor_npmask")),
         "fv": rng.choice(FILLS), "threads": rng.random() < 0.1}
    nd = len(shape)
    if kind == "x_reduce":
        d["op"] = rng.choice(REDS)
        d["cls"] = cls = rng.choice(("dtype", "big", "4d", "deep"))
        if cls == "big":          # a block of > 255 elements (also one that is not the last)
            L = rng.choice((300, 520, 700))
            shape = [L] if rng.random() < 0.5 else ([rng.randint(2, 3), L] if rng.random() < 0.5 else [L, rng.randint(2, 3)])
        elif cls == "4d":
            shape = rng.sample(range(1, 6), 4)
        elif cls == "deep":       # > split_every blocks along the reduced axis: intermediate combine levels
            shape = [rng.randint(9, 16)] + ([rng.randint(1, 3)] if rng.random() < 0.5 else [])
        else:
            d["op"] = rng.choice(("sum", "sum", "prod", "mean"))
            d["rdtype"] = rng.choice(("float32", "float64", "int64", "int16"))
            if d["op"] == "mean":      # Calibration: numpy.ma's mean(dtype=<int>) is sum/count = float64, NumPy proper (and dask) return the int
                d["rdtype"] = rng.choice(("float32", "float64"))
        d["shape"], nd = list(shape), len(shape)
        r = rng.random()
        d["axis"] = None if r < 0.3 else (rng.randrange(-nd, nd) if r < 0.8 or nd < 2 else sorted(rng.sample(range(nd), rng.randint(2, nd))))
        if cls == "deep":
            d["axis"] = rng.choice((0, None))
        d["keepdims"] = rng.random() < 0.3
        d["split_every"] = 2 if cls == "deep" else rng.choice((None, None, 2, 3))
        d["ddof"] = rng.choice((0, 1, 2, 3)) if d["op"] in ("std", "var") else 0
    shape = d["shape"]
    if kind == "x_reduce" and d["cls"] == "big":
        def big(n):
            if n < 256:
                return list(A.rand_comp(rng, n))
            a = rng.randint(256, n - 1)
            return rng.choice(([a, n - a], [n - a, a], [a, n - a - 1, 1]))
        d["chunks"] = [big(n) for n in shape]
        d["mchunks"] = [big(n) for n in shape]
    elif kind == "x_reduce" and d["cls"] == "deep":
        d["chunks"] = [[1] * shape[0]] + [list(A.rand_comp(rng, n)) for n in shape[1:]]
        d["mchunks"] = [list(c) for c in A.rand_chunks(rng, shape)]
    else:
        d["chunks"] = [list(c) for c in A.rand_chunks(rng, shape)]
        d["mchunks"] = [list(c) for c in A.rand_chunks(rng, shape)]
    if kind == "x_layout":
        d["op"] = op = rng.choice(("concatenate", "concatenate", "stack", "rechunk", "rechunk", "slice", "slice"))
        d["axis"] = rng.randrange(-nd, nd) if op != "stack" else rng.randrange(-nd - 1, nd + 1)
        d["others"] = [{"len": rng.randint(0, 4), "dtype": rng.choice((d["dtype"], d["dtype"], rng.choice(DT))),
                        "mk": rng.choice(MASKKINDS[:-2]), "yk": rng.choice(("masked", "masked", "plain")),
                        "fv": rng.choice((d["fv"], d["fv"], rng.choice(FILLS)))} for _ in range(rng.randint(1, 2))]
        d["sl"] = _rand_slices(rng, shape, d["chunks"])
        if d["dtype"].startswith("float") and rng.random() < 0.35:
            d["fv"] = "nan"            # the fill value class whose equality is special (nan != nan) through merges of blocks
        d["then_filled"] = rng.random() < 0.4
    elif kind == "x_construct":
        d["form"] = rng.choice(("masked-data+mask", "masked-data+mask", "keep_mask=False", "dtype=", "mask-list", "np-masked-data"))
        d["to"] = rng.choice(DT)
        d["mk2"] = rng.choice(("random", "chunk", "none", "all"))
    elif kind == "x_mfunc":
        d["op"] = rng.choice(("masked_values", "masked_values", "fix_invalid"))
        d["dtype"] = rng.choice(("float64", "float32", "float64", "int64"))
        d["in_masked"] = rng.random() < 0.5
        d["v"] = rng.choice((-1, 0, 1, 2, 0.5))
        d["rtol"] = rng.choice((None, 1e-2, 0.5, 0))
        d["atol"] = rng.choice((None, 1e-3, 0.4, 1.0))
        d["shrink"] = rng.choice((None, None, False))
        d["call_fv"] = rng.choice((None, 0, -1, 2.5, 300))
    elif kind == "x_like":
        d["op"] = rng.choice(("zeros_like", "ones_like"))
        d["to"] = rng.choice((None, None, "float32", "int16", "bool", "float64"))
    elif kind == "x_state":
        d["new_fv"] = rng.choice(FILLS[2:])
        d["follow"] = rng.choice(("filled", "rechunk", "slice", "abs"))
    elif kind == "x_elem":
        d["sub"] = rng.choice(("pow", "rpow", "npufunc1", "npufunc2"))
        d["op"] = rng.choice(UNUF) if d["sub"] == "npufunc1" else rng.choice(BINUF) if d["sub"] == "npufunc2" else "pow"
        d["yk"] = rng.choice(("masked", "plain", "scalar"))
        d["d2"] = rng.choice(("int64", "uint8", "float64"))
        d["mk2"] = rng.choice(MASKKINDS[:-2])
        d["scalar"] = rng.choice((2, 3, 0, 0.5))
    elif kind == "x_sib":
        d["sib"] = rng.choice(SIBS)
        if d["sib"].split(":")[0] in ("masked_values", "fix_invalid", "average", "var"):
            d["dtype"] = rng.choice(("float64", "float32"))
        d["p"] = [rng.choice(FILLS[2:]), rng.choice(FILLS[2:])]
    return d


# ---------------------------------------------------------------------------------------------
# inputs

def _mask_for(seed, shape, chunks, mk):
    """Returns (mask spec for numpy.ma, has_allmasked_chunk)."""
    r = np.random.default_rng(seed + 77)
    shape = tuple(shape)
    if mk == "nomask":
        return np.ma.nomask, False
    if mk == "scalarT":
        return True, bool(np.prod(shape)) if shape else True
    if mk == "scalarF":
        return False, False
    if mk == "all":
        return np.ones(shape, bool), bool(np.prod(shape)) if shape else True
    if mk == "none":
        return np.zeros(shape, bool), False
    m = r.random(shape) < 0.4
    allm = False
    if mk == "chunk":
        offs = [np.concatenate([[0], np.cumsum(c)]) for c in chunks]
        for idx in itertools.product(*[range(len(c)) for c in chunks]):
            sl = tuple(slice(int(offs[a][i]), int(offs[a][i + 1])) for a, i in enumerate(idx))
            if r.random() < 0.45:
                m = np.array(m)
                m[sl] = True
        m = np.asarray(m)
    if m.size:
        offs = [np.concatenate([[0], np.cumsum(c)]) for c in chunks]
        for idx in itertools.product(*[range(len(c)) for c in chunks]):
            sl = tuple(slice(int(offs[a][i]), int(offs[a][i + 1])) for a, i in enumerate(idx))
            blk = m[sl]
            if blk.size and blk.all():
                allm = True
    return m, allm


def _masked_input(seed, shape, dtype, chunks, mchunks, mk, via, fv=None, special=False):
    """(numpy masked array, dask masked array, has-all-masked-chunk).  Raises _Reject when numpy.ma refuses."""
    import dask.array as da

    x = A.rand_data(seed, shape, dtype, special=special)
    chunks = A.chunks_of_desc(chunks)
    mchunks = A.chunks_of_desc(mchunks)
    m, allm = _mask_for(seed, shape, chunks, mk)
    kw = {} if fv is None else {"fill_value": fv}
    try:
        mx = np.ma.masked_array(x, mask=m, **kw)
    except Exception as ex:  # noqa: BLE001
        raise _Reject("numpy.ma: %s: %s" % (type(ex).__name__, ex))
    if via == "from_array":
        dmx = da.from_array(mx, chunks=chunks)
    else:
        dx = da.from_array(x, chunks=chunks)
        if m is np.ma.nomask or isinstance(m, bool):
            dm = m
        elif via == "ctor_npmask":
            dm = m
        else:
            dm = da.from_array(m, chunks=mchunks)
        dmx = da.ma.masked_array(dx, mask=dm, **kw)
    return mx, dmx, allm


class _Reject(Exception):
    pass


# ---------------------------------------------------------------------------------------------
# comparison

def _cast_fill(fv, dtype):
    """A fill value as it is used: cast to the array dtype (numpy.ma keeps e.g. int64(999999) for an int8 array)."""
    with np.errstate(all="ignore"):
        try:
            return np.asarray(fv).astype(dtype)
        except Exception:  # noqa: BLE001
            return np.asarray(fv)


def _cmp(r, e, exact=True, n=1, scale=1.0, fill=False, dtype_mode="exact", only=None):
    """None or (symptom, message).  Mask, data where unmasked, dtype, optionally fill_value."""
    e_const = e is np.ma.masked
    r_const = r is np.ma.masked
    rm, em = np.ma.getmaskarray(r), np.ma.getmaskarray(e)
    if rm.shape != em.shape:
        return ("shape", "shape %s vs expected %s" % (rm.shape, em.shape))
    if not np.array_equal(rm, em):
        return ("mask", "mask %s vs expected %s" % (rm.tolist(), em.tolist()))
    rd, ed = np.asarray(np.ma.getdata(r)), np.asarray(np.ma.getdata(e))
    if not (e_const or r_const) and rd.dtype != ed.dtype:
        if dtype_mode == "exact" or (dtype_mode == "kind" and not (rd.dtype.kind == ed.dtype.kind == "f")):
            return ("dtype", "dtype %s vs expected %s" % (rd.dtype, ed.dtype))
    keep = ~em if only is None else (~em & only)
    rk, ek = rd[keep], ed[keep]
    if rk.dtype != ek.dtype and rk.dtype.kind == ek.dtype.kind == "f":
        lo = min(rk.dtype, ek.dtype, key=lambda d: d.itemsize)   # tolerance of the narrower float
        rk, ek = rk.astype(lo), ek.astype(lo)
    m = compare_arrays(rk, ek, exact=exact, n=n, scale=scale, check_dtype=False)
    if m:
        return ("values", m[1])
    if fill:
        if not isinstance(r, np.ma.MaskedArray):
            return ("type", "result is %s, expected a MaskedArray" % type(r).__name__)
        rf, ef = _cast_fill(r.fill_value, rd.dtype), _cast_fill(e.fill_value, ed.dtype)
        if not np.array_equal(rf, ef, equal_nan=rf.dtype.kind in "fc"):
            return ("fill_value", "fill_value %r vs expected %r" % (r.fill_value, e.fill_value))
    return None


def _compute(r, case):
    return r.compute(scheduler="threads" if case.get("threads") else "sync")


def _flags(*flags):
    return "&".join(f for f in flags if f) or "-"


def run_case(case, ctx):
    with warnings.catch_warnings():
        warnings.simplefilter("ignore")
        with np.errstate(all="ignore"):
            try:
                _run(case, ctx)
            except _Reject as ex:
                ctx.reject(str(ex))


def _check(ctx, case, fam, op, flags, build_np, build_da, exact=True, n=1, scale=1.0, fill=False, only=None,
           dtype_mode="exact", outnames=None):
    """Reference first (raises -> rejected), then dask (raises -> violation); compare every output.
    Label = fam:op:flags:symptom; when the reference is the np.ma.masked constant the label is
    fam:*:ref=masked-constant:symptom (one mechanism, whatever the operation)."""
    import dask.array as da

    try:
        e = build_np()
    except Exception as ex:  # noqa: BLE001
        ctx.reject("numpy.ma: %s: %s" % (type(ex).__name__, ex))
        return None
    if e is np.ma.masked:
        ctx.count("reference_masked_constant")
        label = "%s:*:ref=masked-constant" % fam if fam == "elem" else "%s:%s:%s" % (fam, op, flags)
    else:
        label = "%s:%s:%s" % (fam, op, flags)
    try:
        r = build_da()
        if isinstance(r, tuple):
            rv = tuple(_compute(q, case) if isinstance(q, da.Array) else q for q in r)
        else:
            if not isinstance(r, da.Array):
                ctx.violation(label + ":result-not-a-dask-array", "got %r" % (type(r),))
                return None
            rv = _compute(r, case)
    except NotImplementedError as ex:
        ctx.unsupported(str(ex))
        return None
    except Exception as ex:  # noqa: BLE001
        ctx.exception(ex, prefix=label)
        return None
    ctx.count("compared")
    if isinstance(e, tuple) or isinstance(rv, tuple):
        if not (isinstance(e, tuple) and isinstance(rv, tuple) and len(e) == len(rv)):
            ctx.violation(label + ":arity", "result %r vs expected %r" % (type(rv), type(e)))
            return None
        pairs = list(zip(rv, e))
    else:
        pairs = [(rv, e)]
    for i, (a, b) in enumerate(pairs):
        m = _cmp(a, b, exact=exact, n=n, scale=scale, fill=fill, dtype_mode=dtype_mode, only=only)
        if m:
            out = (outnames[i] + "-") if outnames else ""
            ctx.violation("%s:%s%s" % (label, out, m[0]), m[1], result=repr(a)[:400], expected=repr(b)[:400])
            break
    if np.ma.getmaskarray(e if not isinstance(e, tuple) else e[0]).any():
        ctx.count("reference_has_masked_output")
    return rv


def _run(case, ctx):
    import dask.array as da

    kind = case["kind"]
    shape = tuple(case["shape"])
    chunks = A.chunks_of_desc(case["chunks"])
    ctx.nontrivial = A.has_split(chunks)
    zero = "zero-length" if 0 in shape else ""
    zd = "0-d" if not shape else ""

    if kind == "ex":
        bits = case["bits"]
        m = np.array([(bits >> i) & 1 for i in range(6)], bool).reshape(shape)
        x = A.rand_data(case["seed"], shape, "int64")
        mx = np.ma.masked_array(x, m)
        dmx = da.ma.masked_array(da.from_array(x, chunks=chunks), da.from_array(m, chunks=chunks))
        what = case["what"]
        ctx.op("ex:" + what)
        ctx.sig = ("ex", what, case["chunks"], bits)
        if what.startswith("sum"):
            ax = None if what.endswith("None") else int(what[-1])
            _check(ctx, case, "reduce", "sum", "complete(2,3)", lambda: np.sum(mx, axis=ax), lambda: da.sum(dmx, axis=ax))
        elif what == "filled":
            _check(ctx, case, "filled", "filled", "complete(2,3)", lambda: np.ma.filled(mx, 9), lambda: da.ma.filled(dmx, 9))
        else:
            y = A.rand_data(case["seed"] + 1, shape, "int64")
            _check(ctx, case, "elem", "add", "complete(2,3)", lambda: mx + y, lambda: dmx + da.from_array(y, chunks=(2, 3)))
        ctx.sample = {"kind": "ex", "what": what, "chunks": case["chunks"], "mask_bits": bits}
        return

    dtype, seed, mk, via = case["dtype"], case["seed"], case["mk"], case["via"]
    fv = _fv(case.get("fv"))
    if kind.startswith("x_"):
        ctx.sig = {k: v for k, v in case.items() if k not in ("seed", "threads")}
        _run_extra(case, ctx, kind, shape, chunks, dtype, seed, mk, via, fv, zero)
        return
    special = kind in ("mfunc", "filled") and dtype.startswith("float")
    ctx.sig = {k: v for k, v in case.items() if k not in ("seed", "threads")}

    if kind == "construct":
        ctx.op("construct:" + mk)
        x = A.rand_data(seed, shape, dtype, special=False)
        m, allm = _mask_for(seed, shape, chunks, mk)
        kw = {} if fv is None else {"fill_value": fv}
        dx = x if case.get("data_np") else da.from_array(x, chunks=chunks)
        if m is np.ma.nomask or isinstance(m, bool) or via == "ctor_npmask":
            dm = m
        else:
            dm = da.from_array(m, chunks=A.chunks_of_desc(case["mchunks"]))
            if A.has_split(A.chunks_of_desc(case["mchunks"])):
                ctx.nontrivial = True
        if allm:
            ctx.count("with_allmasked_chunk")
        flags = _flags("mask=" + ("scalar" if isinstance(m, bool) else "nomask" if m is np.ma.nomask else "array"),
                       "fill_value" if fv is not None else "", zero, zd)
        _check(ctx, case, "construct", "masked_array", flags, lambda: np.ma.masked_array(x, mask=m, **kw),
               lambda: da.ma.masked_array(dx, mask=dm, **kw), fill=True)
        ctx.sample = {"kind": kind, "mask": mk, "chunks": case["chunks"], "allmasked_chunk": allm}
        return

    if kind == "mfunc":
        op = case["op"]
        ctx.op("mfunc:" + op)
        if case["in_masked"]:
            mx, dmx, allm = _masked_input(seed, shape, dtype, case["chunks"], case["mchunks"], mk, via, special=special)
        else:
            x = A.rand_data(seed, shape, dtype, special=special)
            mx, dmx, allm = x, da.from_array(x, chunks=chunks), False
        if allm:
            ctx.count("with_allmasked_chunk")
        v1, v2 = case["v"]
        inp = "masked-input" if case["in_masked"] else "plain-input"
        if op == "masked_where":
            ck = case["ck"]
            if ck == "scalar":
                c = dc = bool(seed & 1)
            else:
                c = np.random.default_rng(seed + 5).random(shape) < 0.5
                dc = c if ck == "numpy" else da.from_array(c, chunks=A.chunks_of_desc(case["mchunks"]))
            _check(ctx, case, "mfunc", op, _flags(inp, "cond=" + ck, zero, zd), lambda: np.ma.masked_where(c, mx),
                   lambda: da.ma.masked_where(dc, dmx))
        elif op in ("masked_inside", "masked_outside"):
            _check(ctx, case, "mfunc", op, _flags(inp, zero, zd), lambda: getattr(np.ma, op)(mx, v1, v2),
                   lambda: getattr(da.ma, op)(dmx, v1, v2))
        elif op == "masked_invalid":
            _check(ctx, case, "mfunc", op, _flags(inp, zero, zd), lambda: np.ma.masked_invalid(mx),
                   lambda: da.ma.masked_invalid(dmx))
        elif op in ("masked_equal", "masked_values"):
            _check(ctx, case, "mfunc", op, _flags(inp, zero, zd), lambda: getattr(np.ma, op)(mx, v1),
                   lambda: getattr(da.ma, op)(dmx, v1))
        else:
            vk = case["vk"]
            if vk == "scalar" or not shape:
                vk, v, dv = "scalar", v1, v1
            else:
                vs = shape if vk != "bcast" else shape[1:]
                v = A.rand_data(seed + 9, vs, "int64")
                vc = A.chunks_of_desc(case["mchunks"])[len(shape) - len(vs):]
                dv = v if vk == "numpy" else da.from_array(v, chunks=vc)
                if vk == "masked":      # the value carries a mask of its own: numpy.ma ORs it into the result
                    vm = np.random.default_rng(seed + 10).random(vs) < 0.4
                    v = np.ma.masked_array(v, vm)
                    dv = da.ma.masked_array(dv, da.from_array(vm, chunks=vc))
            _check(ctx, case, "mfunc", op, _flags(inp, "value=" + vk, zero, zd), lambda: getattr(np.ma, op)(mx, v),
                   lambda: getattr(da.ma, op)(dmx, dv))
        ctx.sample = {"kind": kind, "op": op, "chunks": case["chunks"], "allmasked_chunk": allm}
        return

    mx, dmx, allm = _masked_input(seed, shape, dtype, case["chunks"], case["mchunks"], mk, via, fv=fv, special=special)
    if allm:
        ctx.count("with_allmasked_chunk")
    if mk == "nomask":
        ctx.count("with_nomask")
    ctx.sample = {"kind": kind, "op": case.get("op"), "mask": mk, "via": via, "chunks": case["chunks"], "allmasked_chunk": allm}

    if kind == "elem":
        sub, op, yk = case["sub"], case["op"], case["yk"]
        ctx.op("elem:" + op)
        if sub in ("un", "unuf"):
            f_np = (lambda X: getattr(operator, op)(X)) if sub == "un" else (lambda X: getattr(np, op)(X))
            f_da = (lambda X: getattr(operator, op)(X)) if sub == "un" else (lambda X: getattr(da, op)(X))
            _check(ctx, case, "elem", op, _flags(zero, zd), lambda: f_np(mx), lambda: f_da(dmx))
            return
        if sub == "rbin" and yk in ("numpy", "npmasked"):
            # Calibration: `numpy_masked_array <op> dask_array` is answered by MaskedArray.__op__ itself (it computes the
            # dask array and returns a numpy MaskedArray); dask code never decides the result.
            sub = "bin"
        s2 = tuple(case["s2"])
        if yk == "scalar":
            y = dy = case["scalar"]
            if not shape:
                # Calibration: for 0-d results dask enforces its (weak-scalar) lazy dtype on numpy.ma's (array-promoted)
                # result: a silent cast for signed types, an error for uint8 // 2 -> int64.  Same numpy.ma quirk as below.
                raise _Reject("0-d masked operand with a Python scalar: numpy.ma scalar-conversion quirk")
            if dtype == "uint8" and y == -1:
                # Calibration: NumPy proper raises OverflowError for uint8 <op> -1 (weak scalars); numpy.ma converts the
                # scalar to an int64 array first.  Same Python-scalar quirk as for the dtype.
                raise _Reject("numpy: Python integer -1 out of bounds for uint8 (numpy.ma scalar-conversion quirk)")
        elif yk in ("masked", "npmasked"):
            y, dy, allm2 = _masked_input(seed + 1, s2, case["d2"], case["c2"], case["c2"], case["mk2"], "ctor")
            if yk == "npmasked":
                dy = y
            if allm2:
                ctx.count("with_allmasked_chunk")
        else:
            y = A.rand_data(seed + 1, s2, case["d2"], special=False)
            dy = y if yk == "numpy" else da.from_array(y, chunks=A.chunks_of_desc(case["c2"]))
        if yk in ("masked", "plain") and A.has_split(A.chunks_of_desc(case["c2"])):
            ctx.nontrivial = True
        bc = "broadcast" if (yk != "scalar" and s2 != shape) else ""
        ykl = {"masked": "masked", "npmasked": "masked", "plain": "plain", "numpy": "plain", "scalar": "python-scalar"}[yk]

        def build(X, Y, mod):
            if sub == "bin":
                return getattr(operator, op)(X, Y)
            if sub == "rbin":
                return getattr(operator, op)(Y, X)
            return getattr(mod, op)(X, Y)

        # Calibration: numpy.ma turns a Python scalar operand into a 0-d array before the ufunc, so its result dtype
        # follows array promotion (uint8 * 2 -> int64) while NumPy proper (and dask's metadata) use weak-scalar
        # promotion; the statement is about data and mask, so the dtype is not compared for Python-scalar operands.
        _check(ctx, case, "elem", op, _flags(bc, "y=" + ykl, zero, zd), lambda: build(mx, y, np),
               lambda: build(dmx, dy, da), dtype_mode="none" if yk == "scalar" else "exact")
        return

    if kind == "reduce":
        op, axis, keepdims, se, ddof = case["op"], case["axis"], case["keepdims"], case["split_every"], case["ddof"]
        ctx.op("reduce:" + op)
        if zero:
            # Calibration: reductions over zero-length axes are the generic reduction machinery's business (C22), not
            # numpy.ma semantics; the statement's quantifier does not list empty arrays.
            ctx.reject("zero-length axis: outside the masked-reduction domain")
            return
        ax = tuple(axis) if isinstance(axis, list) else axis
        kw = {"axis": ax, "keepdims": keepdims}
        if ddof:
            kw["ddof"] = ddof
        n = int(np.prod(shape)) if shape else 1
        exact = op in ("min", "max", "any", "all", "count") or (np.dtype(dtype).kind in "iub" and op in ("sum", "prod"))
        scale = 8.0 if op in ("sum", "mean") else 64.0
        if op == "prod":
            scale = float(np.max(np.abs(np.ma.getdata(mx).astype("float64")), initial=1.0)) ** n
        cnt = np.asarray(np.ma.count(mx, axis=ax))
        empty = "empty-cell" if (cnt == 0).any() else ""        # an output cell all of whose inputs are masked
        dd = "ddof>=count" if (ddof and (cnt - ddof <= 0).any()) else ""
        if dd and not np.ma.getmaskarray(mx).any():
            # Calibration: with nothing masked numpy.ma's var/std give nan for mask=nomask (ndarray code path) but `masked`
            # for an all-False mask ARRAY; the two are the same mask, so the reference does not define this corner.
            ctx.reject("ddof >= count with nothing masked: numpy.ma's answer depends on nomask vs all-False mask array")
            return
        if dd and cnt.ndim == 0 and int(cnt) - ddof < 0:
            # Calibration: for a scalar result numpy.ma only masks a division by zero (count == ddof); with count < ddof it
            # returns the quotient by a negative number, i.e. an unmasked NEGATIVE variance (-0.0 in the seed-7 witness,
            # var of 2 unmasked elements with ddof=3) where dask returns nan. A negative variance is an artefact of the
            # reference, not a value the statement can demand; axis-wise lanes (where numpy.ma masks count <= ddof) and
            # count == ddof stay in the domain.
            ctx.reject("ddof > count with scalar output: numpy.ma returns a negative variance")
            return
        if empty:
            ctx.count("reduce_with_fully_masked_cell")
        flags = _flags(empty, dd, "scalar-output" if (dd and cnt.ndim == 0) else "") if (empty or dd) else _flags(zd)
        if op == "count":
            _check(ctx, case, "reduce", "count", flags, lambda: np.ma.count(mx, **kw),
                   lambda: da.ma.count(dmx, split_every=se, **kw))
        else:
            # Calibration: numpy.ma's mean/std/var of float32 give float32 when the mask is nomask and float64 when a
            # mask array is present (sum / count); "same data and mask" cannot pin that, so only the dtype kind is
            # compared for these, with the float32 tolerance.
            _check(ctx, case, "reduce", "std-var" if op in ("std", "var") else op, flags, lambda: getattr(np, op)(mx, **kw),
                   lambda: getattr(da, op)(dmx, split_every=se, **kw), exact=exact, n=max(n, 1) * 4, scale=scale,
                   dtype_mode="kind" if op in ("mean", "std", "var") else "exact")
        return

    if kind == "filled":
        cfv = _fv(case["call_fv"])
        ctx.op("filled")
        if case.get("plain"):
            mx = np.asarray(np.ma.getdata(mx))
            dmx = da.from_array(mx, chunks=chunks)
        flags = _flags("call-fill_value" if cfv is not None else "", "array-fill_value" if fv is not None else "",
                       "plain-input" if case.get("plain") else "", zero, zd)
        _check(ctx, case, "filled", "filled", flags, lambda: np.ma.filled(mx, cfv), lambda: da.ma.filled(dmx, cfv))
        return

    if kind == "getmaskarray":
        ctx.op(kind)
        _check(ctx, case, kind, kind, _flags(zero, zd), lambda: np.ma.getmaskarray(mx), lambda: da.ma.getmaskarray(dmx))
        return

    if kind == "getdata":
        ctx.op(kind)
        # what lies under the mask is not compared: only the positions the reference leaves unmasked
        _check(ctx, case, kind, kind, _flags(zero, zd), lambda: np.ma.getdata(mx), lambda: da.ma.getdata(dmx),
               only=~np.ma.getmaskarray(mx))
        return

    if kind == "setfill":
        nfv = _fv(case["new_fv"])
        ctx.op("set_fill_value")

        def ref():
            c = _detached(mx)
            np.ma.set_fill_value(c, nfv)
            return c

        def dsk():
            res = da.ma.set_fill_value(dmx, nfv)
            if res is not None:
                raise AssertionError("set_fill_value returned %r" % (res,))
            return dmx

        _check(ctx, case, "set_fill_value", "set_fill_value", _flags(zero, zd), ref, dsk, fill=True)
        return

    if kind == "average":
        ctx.op("average")
        if zero:
            ctx.reject("zero-length axis: outside the masked-reduction domain")
            return
        axis, wk = case["axis"], case["wk"]
        w = dw = None
        if wk != "none" and shape:
            if wk == "1d":
                if axis is None:
                    wk = "same"
                else:
                    w = A.rand_data(seed + 3, (shape[axis],), "int64") % 4 + 1
                    dw = da.from_array(w, chunks=(chunks[axis],))
            if wk in ("same", "same_masked"):
                w = A.rand_data(seed + 3, shape, "int64") % 4 + 1
                dw = da.from_array(w, chunks=A.chunks_of_desc(case["mchunks"]))
                if wk == "same_masked":
                    wm = np.random.default_rng(seed + 4).random(shape) < 0.3
                    w = np.ma.masked_array(w, wm)
                    dw = da.ma.masked_array(dw, da.from_array(wm, chunks=chunks))
        else:
            wk = "none"
        kw = {"axis": axis, "weights": w, "returned": case["returned"], "keepdims": case["keepdims"]}
        dkw = dict(kw, weights=dw)
        n = int(np.prod(shape)) if shape else 1
        cnt = np.asarray(np.ma.count(mx if wk != "same_masked" else np.ma.masked_array(mx, np.ma.getmaskarray(w)), axis=axis))
        empty = "empty-cell" if (cnt == 0).any() else ""
        # one mechanism per label: without weights the masked-ness of the cells does not change the code path
        flags = "weights=none" if wk == "none" else _flags("weights=given", empty)
        _check(ctx, case, "average", "average", flags, lambda: np.ma.average(mx, **kw), lambda: da.ma.average(dmx, **dkw),
               exact=False, n=max(n, 1) * 4, scale=32.0, dtype_mode="kind",
               outnames=("average", "sum_of_weights") if case["returned"] else None)
        return

    if kind == "nonzero":
        ctx.op("nonzero")
        if zero:
            ctx.reject("zero-length axis: nonzero of an empty array is the generic reshape/compress machinery")
            return
        _check(ctx, case, "nonzero", "nonzero", _flags(zd), lambda: np.ma.nonzero(mx), lambda: da.ma.nonzero(dmx),
               outnames=["axis%d" % i for i in range(max(len(shape), 1))])
        return

    if kind == "where3":
        ctx.op("where")
        y, dy, _ = _masked_input(seed + 1, shape, case["d2"], case["chunks"], case["mchunks"], case["mk2"], "ctor")
        c = np.random.default_rng(seed + 5).random(shape) < 0.5
        cm, _ = _mask_for(seed + 6, shape, chunks, case["mkc"])
        mc = np.ma.masked_array(c, cm)
        dmc = da.ma.masked_array(da.from_array(c, chunks=A.chunks_of_desc(case["mchunks"])),
                                 cm if cm is np.ma.nomask else da.from_array(cm, chunks=chunks))
        _check(ctx, case, "where", "where", _flags(zero, zd), lambda: np.ma.where(mc, mx, y),
               lambda: da.ma.where(dmc, dmx, dy))
        return
    raise AssertionError(kind)


# ---------------------------------------------------------------------------------------------
# parameter-audit families (kinds x_*)

def _same_ma(x, y):
    """sibling equality that also sees the fill value and what lies under the mask"""
    if not S.same_value(x, y):
        return False
    if isinstance(x, np.ma.MaskedArray) and isinstance(y, np.ma.MaskedArray):
        fx, fy = np.asarray(x.fill_value), np.asarray(y.fill_value)
        if not np.array_equal(fx, fy, equal_nan=fx.dtype.kind in "fc"):
            return False
        dx, dy = np.ma.getdata(x), np.ma.getdata(y)
        return bool(np.array_equal(dx, dy, equal_nan=dx.dtype.kind in "fc"))
    return True


def _detached(mx):
    """A copy of a numpy masked array that shares nothing with it.  ``mx.copy()`` shares the 0-d array holding the fill value
    and ``np.ma.set_fill_value`` writes into it in place, so the reference would change the very array the dask graph reads
    (route from_array) - Calibration: the reference must not touch the input of the code under test."""
    return np.ma.masked_array(np.array(np.ma.getdata(mx), copy=True), mask=np.array(np.ma.getmaskarray(mx), copy=True),
                              fill_value=mx.fill_value)


def _index_of(sl):
    return tuple(slice(o[1], o[2], o[3]) if o[0] == "s" else o[1] for o in sl)


def _run_extra(case, ctx, kind, shape, chunks, dtype, seed, mk, via, fv, zero):
    import dask.array as da

    nd = len(shape)
    mchunks = A.chunks_of_desc(case["mchunks"])

    if kind == "x_construct":
        form = case["form"]
        ctx.op("construct:" + form)
        ctx.count("construct_forms")
        ctx.distinct("construct_form_kinds", form)
        x = A.rand_data(seed, shape, dtype, special=False)
        kw = {} if fv is None else {"fill_value": fv}
        flags = _flags(form, "fill_value" if fv is not None else "", zero)
        if form in ("masked-data+mask", "keep_mask=False"):
            mx, dmx, allm = _masked_input(seed, shape, dtype, case["chunks"], case["mchunks"], mk, via, fv=_fv(case["p_fv"]) if "p_fv" in case else None)
            m2, _ = _mask_for(seed + 2, shape, mchunks, case["mk2"])
            k2 = {"keep_mask": False} if form == "keep_mask=False" else {}
            _check(ctx, case, "construct", "masked_array", flags, lambda: np.ma.masked_array(mx, mask=m2, **kw, **k2),
                   lambda: da.ma.masked_array(dmx, mask=da.from_array(m2, chunks=mchunks), **kw, **k2), fill=True)
        elif form == "dtype=":
            m, allm = _mask_for(seed, shape, chunks, mk)
            dm = m if (m is np.ma.nomask or isinstance(m, bool)) else da.from_array(m, chunks=mchunks)
            to = case["to"]
            _check(ctx, case, "construct", "masked_array", flags, lambda: np.ma.masked_array(x, mask=m, dtype=to, **kw),
                   lambda: da.ma.masked_array(da.from_array(x, chunks=chunks), mask=dm, dtype=to, **kw), fill=True)
        elif form == "mask-list":
            if zero:
                # Calibration: a nested list cannot spell the shape (1, 0, 1) ([[]] is (1, 0)); numpy.ma happens to accept any
                # empty mask for empty data, dask checks the shapes
                raise _Reject("nested-list mask of a zero-length array does not carry the shape")
            m, allm = _mask_for(seed, shape, chunks, "random" if mk in ("nomask", "scalarT", "scalarF") else mk)
            _check(ctx, case, "construct", "masked_array", flags, lambda: np.ma.masked_array(x, mask=m.tolist(), **kw),
                   lambda: da.ma.masked_array(da.from_array(x, chunks=chunks), mask=m.tolist(), **kw), fill=True)
        else:   # a numpy masked array handed to the dask constructor
            m, allm = _mask_for(seed, shape, chunks, mk)
            try:
                mx = np.ma.masked_array(x, mask=m)
            except Exception as ex:  # noqa: BLE001
                raise _Reject("numpy.ma: %s" % ex)
            _check(ctx, case, "construct", "masked_array", flags, lambda: np.ma.masked_array(mx, **kw),
                   lambda: da.ma.masked_array(mx, chunks=chunks, **kw) if False else da.ma.masked_array(da.from_array(mx, chunks=chunks), **kw),
                   fill=True)
        return

    if kind == "x_mfunc":
        op = case["op"]
        ctx.op("mfunc:" + op)
        r = np.random.default_rng(seed + 21)
        x = A.rand_data(seed, shape, dtype, special=(op == "fix_invalid" and dtype.startswith("float")))
        if dtype.startswith("float") and op == "masked_values":
            x = (x + r.choice([0, 0, 1e-6, 1e-3, 0.05, 0.3, -0.3], size=x.shape)).astype(dtype)
        m, allm = _mask_for(seed, shape, chunks, mk) if case["in_masked"] else (np.ma.nomask, False)
        mx = np.ma.masked_array(x, mask=m) if case["in_masked"] else x
        dx = da.from_array(x, chunks=chunks)
        if case["in_masked"]:
            dm = m if (m is np.ma.nomask or isinstance(m, bool)) else da.from_array(m, chunks=mchunks)
            dmx = da.ma.masked_array(dx, mask=dm)
        else:
            dmx = dx
        inp = "masked-input" if case["in_masked"] else "plain-input"
        if op == "masked_values":
            kw = {k: case[k] for k in ("rtol", "atol", "shrink") if case[k] is not None}
            if kw:
                ctx.count("masked_values_keywords")
                # how many cells does the keyword change?  (floor: the keyword must be visible in the data)
                try:
                    if not np.array_equal(np.ma.getmaskarray(np.ma.masked_values(mx, case["v"], **kw)),
                                          np.ma.getmaskarray(np.ma.masked_values(mx, case["v"]))):
                        ctx.count("masked_values_keyword_changes_mask")
                except Exception:  # noqa: BLE001
                    pass
            _check(ctx, case, "mfunc", op, _flags(inp, "tolerance-keywords" if kw else "defaults", zero),
                   lambda: np.ma.masked_values(mx, case["v"], **kw), lambda: da.ma.masked_values(dmx, case["v"], **kw))
        else:
            cfv = case["call_fv"]
            ctx.count("fix_invalid_cases")
            invalid = ~np.isfinite(x) if x.dtype.kind == "f" else np.zeros(x.shape, bool)
            if invalid.any():
                ctx.count("fix_invalid_with_invalid_cells")
            fl = _flags(inp, "fill_value" if cfv is not None else "", zero)
            _check(ctx, case, "mfunc", op, fl, lambda: np.ma.fix_invalid(mx, fill_value=cfv),
                   lambda: da.ma.fix_invalid(dmx, fill_value=cfv))
            # the DATA at the invalid cells is the fill value (this is what fix_invalid is for): compared there only
            _check(ctx, case, "mfunc", op, fl + "&data-at-invalid", lambda: np.ma.getdata(np.ma.fix_invalid(mx, fill_value=cfv)),
                   lambda: da.ma.getdata(da.ma.fix_invalid(dmx, fill_value=cfv)), only=invalid)
        return

    if kind == "x_like":
        op, to = case["op"], case["to"]
        ctx.op("like:" + op)
        ctx.count("like_cases")
        if to is not None:
            ctx.count("like_dtype_keyword")
        mx, dmx, allm = _masked_input(seed, shape, dtype, case["chunks"], case["mchunks"], mk, via, fv=fv)
        kw = {} if to is None else {"dtype": to}
        _check(ctx, case, "like", "ones|zeros_like", _flags("dtype=" if to else "", zero), lambda: getattr(np.ma, op)(mx, **kw),
               lambda: getattr(da.ma, op)(dmx, **kw))
        return

    if kind == "x_layout":
        op = case["op"]
        ctx.op("layout:" + op)
        mx, dmx, allm = _masked_input(seed, shape, dtype, case["chunks"], case["mchunks"], mk, via, fv=fv)
        if allm:
            ctx.count("with_allmasked_chunk")
        ctx.count("layout_cases")
        ctx.distinct("layout_kinds", (op, fv is not None and fv != fv, len(chunks[0]) > 1 if chunks else False))
        then = (lambda X, mod: mod.ma.filled(X)) if case["then_filled"] else (lambda X, mod: X)
        tf = "then-filled" if case["then_filled"] else ""
        if tf:
            ctx.count("layout_then_filled_with_own_fill_value")
        if op in ("rechunk", "slice"):
            # numpy keeps the fill value through views; after filled() the own fill value shows in the data
            if fv is not None and fv != fv:
                ctx.count("layout_nan_fill_value")
            if op == "rechunk":
                if A.has_split(mchunks):
                    ctx.nontrivial = True
                _check(ctx, case, "layout", op, _flags(tf, zero), lambda: then(mx, np),
                       lambda: then(dmx.rechunk(mchunks), da), fill=not tf and not zero)
            else:
                idx = _index_of(case["sl"])
                ez = 0 in np.ma.getmaskarray(mx)[idx].shape    # Calibration: an empty result has no cell a fill value could show in
                _check(ctx, case, "layout", op, _flags(tf, zero), lambda: then(mx[idx], np), lambda: then(dmx[idx], da),
                       fill=not tf and not zero and not ez)
            return
        axis = case["axis"]
        parts_np, parts_da = [mx], [dmx]
        for k, o in enumerate(case["others"]):
            s2 = list(shape)
            if op == "concatenate":
                s2[axis % nd] = o["len"]
            c2 = [list(c) for c in A.rand_chunks(random.Random(seed + k), s2)]
            if o["yk"] == "plain":
                y = A.rand_data(seed + 31 + k, s2, o["dtype"], special=False)
                dy = da.from_array(y, chunks=A.chunks_of_desc(c2))
            else:
                y, dy, _ = _masked_input(seed + 31 + k, s2, o["dtype"], c2, c2, o["mk"], "ctor", fv=_fv(o["fv"]))
            parts_np.append(y)
            parts_da.append(dy)
        if any(A.has_split(p.chunks) for p in parts_da):
            ctx.nontrivial = True
        ctx.count("layout_concat_stack_inputs", len(parts_da))
        # the fill value of a concatenation is not defined by numpy.ma (it resets it, dask keeps a common one): data and mask only
        f_np = (lambda: np.ma.concatenate(parts_np, axis=axis)) if op == "concatenate" else (lambda: np.ma.stack(parts_np, axis=axis))
        f_da = (lambda: da.concatenate(parts_da, axis=axis)) if op == "concatenate" else (lambda: da.stack(parts_da, axis=axis))
        _check(ctx, case, "layout", op, _flags("mixed-plain" if any(o["yk"] == "plain" for o in case["others"]) else "", zero),
               f_np, f_da)
        return

    if kind == "x_reduce":
        op, axis, keepdims, se, ddof, cls = case["op"], case["axis"], case["keepdims"], case["split_every"], case["ddof"], case["cls"]
        ctx.op("reduce:" + op)
        mx, dmx, allm = _masked_input(seed, shape, dtype, case["chunks"], case["mchunks"], mk, via, fv=fv)
        if allm:
            ctx.count("with_allmasked_chunk")
        ctx.count("reduce_class_" + cls)
        ax = tuple(axis) if isinstance(axis, list) else axis
        kw = {"axis": ax, "keepdims": keepdims}
        if ddof:
            kw["ddof"] = ddof
        if cls == "dtype":
            kw["dtype"] = case["rdtype"]
        if cls == "big" and max(max(c) for c in chunks) > 255:
            ctx.count("reduce_block_gt_255")
        n = int(np.prod(shape)) if shape else 1
        exact = op in ("min", "max", "any", "all", "count") or (np.dtype(dtype).kind in "iub" and op in ("sum", "prod")
                                                                 and kw.get("dtype", "int64").startswith("int"))
        scale = 8.0 * max(n // 8, 1) if op in ("sum", "mean") else 64.0 * max(n // 8, 1)
        if op == "prod":
            if n > 40:
                raise _Reject("prod of a long axis overflows: outside the comparable domain")
            scale = float(np.max(np.abs(np.ma.getdata(mx).astype("float64")), initial=1.0)) ** n
        cnt = np.asarray(np.ma.count(mx, axis=ax))
        empty = "empty-cell" if (cnt == 0).any() else ""
        dd = "ddof>=count" if (ddof and (cnt - ddof <= 0).any()) else ""
        if dd and not np.ma.getmaskarray(mx).any():
            raise _Reject("ddof >= count with nothing masked (see Calibration)")
        if dd and cnt.ndim == 0 and int(cnt) - ddof < 0:
            raise _Reject("ddof > count with scalar output (see Calibration)")
        if empty:
            ctx.count("reduce_with_fully_masked_cell")
        flags = _flags(empty, dd, "scalar-output" if (dd and cnt.ndim == 0) else "") if (empty or dd) else _flags("dtype=" if cls == "dtype" else "")
        if op == "count":
            _check(ctx, case, "reduce", "count", flags, lambda: np.ma.count(mx, axis=ax, keepdims=keepdims),
                   lambda: da.ma.count(dmx, split_every=se, axis=ax, keepdims=keepdims))
        else:
            _check(ctx, case, "reduce", "std-var" if op in ("std", "var") else op, flags, lambda: getattr(np, op)(mx, **kw),
                   lambda: getattr(da, op)(dmx, split_every=se, **kw), exact=exact, n=max(n, 1) * 4, scale=scale,
                   dtype_mode="kind" if op in ("mean", "std", "var") else "exact")
        return

    if kind == "x_state":
        nfv = _fv(case["new_fv"])
        follow = case["follow"]
        ctx.op("state:set_fill_value+" + follow)
        ctx.count("state_followups")
        mx, dmx, allm = _masked_input(seed, shape, dtype, case["chunks"], case["mchunks"], mk, via, fv=fv)
        idx = tuple(slice(None, None, -1) for _ in shape)

        def after(X, mod):
            if follow == "filled":
                return mod.ma.filled(X)
            if follow == "rechunk":
                return mod.ma.filled(X.rechunk(mchunks)) if mod is da else np.ma.filled(X)
            if follow == "slice":
                return mod.ma.filled(X[idx])
            return mod.ma.filled(abs(X))       # (not `X + 0`: Python-scalar operands are a numpy.ma dtype quirk, see Calibration)

        def ref():
            c = _detached(mx)
            before = after(c, np)            # numpy.ma evaluates eagerly: an expression built before keeps the old fill value
            np.ma.set_fill_value(c, nfv)
            return before, after(c, np)

        def dsk():
            before = after(dmx, da)          # lazily built BEFORE the fill value of dmx is changed in place
            da.ma.set_fill_value(dmx, nfv)
            return before, after(dmx, da)

        _check(ctx, case, "set_fill_value", "set_fill_value", "followed-by-op", ref, dsk, outnames=("built-before", "built-after"))
        return

    if kind == "x_elem":
        sub, op, yk = case["sub"], case["op"], case["yk"]
        ctx.op("elem:" + sub + ":" + op)
        ctx.count("elem_extra")
        mx, dmx, allm = _masked_input(seed, shape, dtype, case["chunks"], case["mchunks"], mk, via, fv=fv)
        if sub == "npufunc1":
            ctx.count("elem_numpy_ufunc_on_dask")
            _check(ctx, case, "elem", op, "numpy-ufunc-call", lambda: getattr(np, op)(mx), lambda: getattr(np, op)(dmx))
            return
        if yk == "scalar":
            if dtype == "bool" or (sub in ("pow", "rpow") and np.dtype(dtype).kind in "iu" and case["scalar"] == 0.5 and False):
                raise _Reject("bool ** scalar")
            y = dy = case["scalar"]
        elif yk == "masked":
            y, dy, _ = _masked_input(seed + 1, shape, case["d2"], case["mchunks"], case["mchunks"], case["mk2"], "ctor")
        else:
            y = A.rand_data(seed + 1, shape, case["d2"], special=False)
            dy = da.from_array(y, chunks=mchunks)
        if sub == "npufunc2":
            ctx.count("elem_numpy_ufunc_on_dask")
            _check(ctx, case, "elem", op, _flags("numpy-ufunc-call", "y=" + yk), lambda: getattr(np, op)(mx, y),
                   lambda: getattr(np, op)(dmx, dy), dtype_mode="none" if yk == "scalar" else "exact")
            return
        ctx.count("elem_pow")
        if sub == "pow":
            _check(ctx, case, "elem", "pow", _flags("y=" + yk), lambda: mx ** y, lambda: dmx ** dy,
                   dtype_mode="none" if yk == "scalar" else "exact")
        else:
            if yk != "scalar":
                raise _Reject("reversed pow only with a Python scalar base (numpy operand answers itself)")
            _check(ctx, case, "elem", "rpow", "y=scalar", lambda: y ** mx, lambda: dy ** dmx, dtype_mode="none")
        return

    if kind == "x_sib":
        fam, param = case["sib"].split(":")
        ctx.op("sib:" + case["sib"])
        ctx.distinct("sibling_kinds", case["sib"])
        p1, p2 = [_fv(v) for v in case["p"]]
        special = fam in ("fix_invalid",)
        x = A.rand_data(seed, shape, dtype, special=special)
        m, allm = _mask_for(seed, shape, chunks, mk)
        if isinstance(m, bool):
            m = np.full(shape, m)

        def base():
            dx = da.from_array(x, chunks=chunks)
            if m is np.ma.nomask:
                return da.ma.masked_array(dx)
            return da.ma.masked_array(dx, mask=da.from_array(m, chunks=mchunks))

        c = np.random.default_rng(seed + 5).random(shape) < 0.5

        def build(p, second):
            b = base()
            if fam == "filled":
                return da.ma.filled(b, p)
            if fam == "masked_array":
                return da.ma.masked_array(da.from_array(x, chunks=chunks), mask=None if m is np.ma.nomask else m, fill_value=p) \
                    if m is not np.ma.nomask else da.ma.masked_array(da.from_array(x, chunks=chunks), fill_value=p)
            if fam == "masked_inside":
                return da.ma.masked_inside(b, -1, 3 if second else 1)
            if fam == "masked_greater":
                return da.ma.masked_greater(b, 2 if second else 0)
            if fam == "masked_equal":
                return da.ma.masked_equal(b, 2 if second else 1)
            if fam == "masked_values":
                kw = {param: (0.5 if second else 1e-3)}
                return da.ma.masked_values(b, 1.2, **kw)
            if fam == "fix_invalid":
                return da.ma.fix_invalid(b, fill_value=p)
            if fam == "set_fill_value":
                da.ma.set_fill_value(b, p)
                return b
            if fam == "count":
                return da.ma.count(b, axis=(len(shape) - 1 if second else 0), keepdims=True)
            if fam == "var":
                return da.var(b, axis=0, ddof=1 if second else 0)
            if fam == "average":
                return da.ma.average(b, axis=0, returned=second)
            if fam == "masked_where":
                return da.ma.masked_where(da.from_array(~c if second else c, chunks=chunks), b)
            raise AssertionError(fam)

        try:
            a = build(p1, False)
        except NotImplementedError as ex:
            ctx.unsupported(str(ex))
            return
        except Exception as ex:  # noqa: BLE001
            # numpy.ma refuses the same fill value for this dtype -> reference-side refusal
            try:
                np.ma.masked_array(x, fill_value=p1)
            except Exception as ex2:  # noqa: BLE001
                ctx.reject("numpy.ma: %s" % ex2)
                return
            ctx.exception(ex, prefix="sib:%s" % fam)
            return
        sch = "threads" if case.get("threads") else "sync"
        S.check(ctx, fam, param, a, (lambda: build(p2, True)), same=_same_ma, together=S.want_together(case, fraction=0.5),
                compute=lambda coll: coll.compute(scheduler=sch),
                compute_many=lambda colls: __import__("dask").compute(*colls, scheduler=sch),
                describe={"first": repr(p1), "second": repr(p2)})
        return
    raise AssertionError(kind)
