"""C33 — masked array operations equal numpy.ma.

Monitor: numpy.ma differential.  Each case rebuilds small data, a mask and a
chunking from a JSON description, runs the same masked operation through
dask.array / dask.array.ma (real code, sync scheduler, a seeded tenth on threads)
and through numpy.ma on the same inputs and compares

* the mask (np.ma.getmaskarray of both sides; a plain ndarray counts as "nothing masked",
  np.ma.masked as a fully masked 0-d value),
* the data at the UNMASKED positions only (what lies under the mask is not compared),
* the dtype (skipped when the reference is the np.ma.masked constant),
* the fill_value only for construction (`masked_array(..., fill_value=)`) and `set_fill_value`.

Exact comparison except for floating sum/mean/prod/std/var/average, which use the
reassociation tolerance of vf.mon.compare.float_tol.

Inputs: masks of the flavours nomask / scalar True|False / random / all-False array / all
True / WHOLE CHUNKS MASKED (per block of the data's chunking), data chunked independently
from the mask, masked inputs built either with da.ma.masked_array(dask data, dask mask) or
with da.from_array(numpy masked array).

Calibration (false alarms of the first version, corrected)
* default fill_value: numpy.ma keeps e.g. int64(999999) for an int8 array and casts on use, dask passes dtype= and gets
  int8(63): fill values are compared after casting to the array dtype (as `filled()` uses them).
* Python-scalar operands: numpy.ma converts the scalar to a 0-d array before the ufunc, so `masked_uint8 * 2` is int64 in
  numpy.ma but uint8 under NumPy's weak-scalar rules (which dask's metadata follows), and `masked_uint8 * -1` does not
  raise in numpy.ma while NumPy proper does: dtype not compared for Python-scalar operands, uint8 with -1 rejected.
* 0-d masked operand with a Python scalar: rejected (dask enforces the weak-scalar dtype on numpy.ma's int64 result;
  thorough run: `elem:floordiv:y=python-scalar&0-d:ValueError` for uint8 // 2).
* std/var with ddof >= count and NOTHING masked: numpy.ma gives nan for nomask and `masked` for an all-False mask array
  (thorough run: `reduce:std-var:ddof>=count:mask` with mask flavour nomask): rejected; with something masked the
  reference is unambiguous and stays in the domain.
* `numpy MaskedArray <op> dask array` never reaches dask (MaskedArray.__op__ computes it): reversed binary operators
  with a numpy operand are run in the forward direction.
* numpy.ma mean/std/var of float32 are float64 with a mask array and float32 with nomask: only the dtype kind is
  compared for mean/std/var/average, values with the float32 tolerance.
* lazy dtype/shape metadata is not part of the statement: not checked (a lazy/computed dtype disagreement for
  Python-scalar operands is listed as a side observation in findings_proposed/C33.md).
* reductions / average / nonzero over zero-length axes belong to the generic reduction machinery (C22), not to numpy.ma
  semantics: rejected for these families (zero-length axes stay in for construction, masked_*, elementwise, filled).
* the label of a fully masked 0-d reference (`np.ma.masked`) does not carry the operation: one mechanism.
"""
from __future__ import annotations

import itertools
import operator
import random
import warnings

import numpy as np

from ..gen import arrays as A
from ..mon.compare import compare_arrays

PROP = "C33"
RULE = ("cases = (operation family, data shape/dtype/seed, data chunking, mask flavour "
        "(nomask|scalar|random|all-false|all-true|whole chunks masked), mask chunking, construction route, fill value, "
        "operation parameters). Families: construct (masked_array), masked_where/inside/outside/invalid/equal/values/"
        "greater../less../not_equal, elementwise masked x {masked, plain dask, numpy, scalar} with broadcasting, reductions "
        "(sum mean min max prod std var any all count; axis, keepdims, split_every), filled, getdata, getmaskarray, "
        "set_fill_value, average, nonzero, where. Complete part: every chunking of a (2,3) array x every mask over its 6 "
        "cells under sum(axis=0/1/None), filled and masked + plain. non-trivial = some operand axis split into >= 2 chunks; "
        "distinct = distinct (family, op, shapes, dtype, chunks, mask flavour, parameters).")
ASSUMPTIONS = ["numpy.ma (NumPy 2.x) defines the expected data, mask, dtype and fill value",
               "sync scheduler (threads for a tenth)"]
BUDGET = {"quick": 150, "thorough": 600}
FLOORS = {"quick": {"evaluations": 2600, "distinct_nontrivial": 1700,
                    "counters": {"compared": 2300, "with_allmasked_chunk": 550, "reference_has_masked_output": 900,
                                 "reduce_with_fully_masked_cell": 90, "with_nomask": 80, "reference_masked_constant": 60},
                    "max_skipped_fraction": 0.3},
          "thorough": {"evaluations": 24000, "distinct_nontrivial": 13000,
                       "counters": {"compared": 20000, "with_allmasked_chunk": 10000, "reference_has_masked_output": 9000,
                                    "reduce_with_fully_masked_cell": 1600, "with_nomask": 1500},
                       "max_skipped_fraction": 0.3}}
EXHAUSTIVE_SPACE = ("all 4x2=8 chunkings of a (2,3) array x all 64 masks under sum(axis=None|0|1), filled() and "
                    "masked + plain")
CLAIM = ("Every generated masked-array expression was computed by the real dask.array(.ma) and by numpy.ma on the same data, "
         "mask and fill value; mask, data at unmasked positions, dtype (and fill_value for construction/set_fill_value) "
         "were compared. held = no mismatch and no dask exception inside the domain on the executions observed.")
LEVEL_NOTE = ("numpy.ma is the reference; data under the mask is not compared; fill_value compared only for construction "
              "and set_fill_value; only the da.ma functions that exist in dask/array/ma.py")
TECHNIQUE = "runtime monitoring: numpy.ma differential oracle over generated masks/chunkings and a complete small mask space"
PENDING = {
    "elem:*:ref=masked-constant:ValueError@array/core.py:_enforce_dtype":
        "elementwise op on a fully masked 0-d non-float64 array raises (numpy.ma returns the float64 `masked` singleton, "
        "_enforce_dtype refuses the cast)",
    "average:average:weights=none:sum_of_weights-values":
        "da.ma.average(returned=True) without weights returns the number of ALL elements, numpy.ma the number of unmasked ones",
    "average:average:weights=given&empty-cell:sum_of_weights-mask":
        "da.ma.average(weights=, returned=True): sum of weights of a fully masked cell is 0.0, numpy.ma returns it masked",
    "reduce:std-var:ddof>=count&scalar-output:mask":
        "var/std over all axes with ddof >= number of unmasked elements gives nan, numpy.ma gives masked",
    "reduce:count:0-d:AxisError@array/ma.py:_chunk_count":
        "da.ma.count of a 0-d array whose mask is nomask passes axis=() to np.ma.count, which rejects it",
}

DT = ["bool", "int8", "int32", "int64", "uint8", "float32", "float64"]
MASKKINDS = ["nomask", "random", "random", "chunk", "chunk", "chunk", "all", "none", "scalarT", "scalarF"]
FILLS = [None, None, 0, 1, -1, 7, 2.5, True, "nan", 300]
MFUNCS = ["masked_where", "masked_inside", "masked_outside", "masked_invalid", "masked_equal", "masked_values",
          "masked_greater", "masked_greater_equal", "masked_less", "masked_less_equal", "masked_not_equal"]
BINOPS = ["add", "sub", "mul", "truediv", "floordiv", "mod", "lt", "le", "eq", "ne", "gt", "ge", "and_", "or_"]
BINUF = ["maximum", "minimum", "add", "multiply", "hypot", "logical_and", "logical_or", "greater"]
UNOPS = ["neg", "abs"]
UNUF = ["sqrt", "exp", "sin", "isnan", "sign", "floor", "square", "log", "logical_not"]
REDS = ["sum", "mean", "min", "max", "prod", "std", "var", "any", "all", "count"]


def _fv(v):
    return float("nan") if v == "nan" else v


def cases(tier, seed):
    rng = random.Random(seed * 7919 + 33)
    shape = (2, 3)
    for ch in A.all_chunkings(shape):
        for bits in range(64):
            for what in ("sum:None", "sum:0", "sum:1", "filled", "add"):
                yield {"space": "exhaustive", "kind": "ex", "what": what, "shape": list(shape), "dtype": "int64",
                       "chunks": [list(c) for c in ch], "bits": bits, "seed": 3}
    n = 3000 if tier == "quick" else 50000
    kinds = ["construct"] * 3 + ["mfunc"] * 4 + ["elem"] * 5 + ["reduce"] * 6 + ["filled"] * 2 + \
            ["getmaskarray", "getdata", "setfill", "average", "average", "nonzero", "where3"]
    for i in range(n):
        kind = rng.choice(kinds)
        shape = A.rand_shape(rng, maxnd=3, maxlen=6, allow_zero=rng.random() < 0.25)
        if kind in ("reduce", "average") and not shape and rng.random() < 0.8:
            shape = A.rand_shape(rng, maxnd=3, maxlen=6, minnd=1, allow_zero=False)
        d = {"kind": kind, "shape": list(shape), "dtype": rng.choice(DT), "seed": rng.randrange(2 ** 31),
             "chunks": [list(c) for c in A.rand_chunks(rng, shape)],
             "mchunks": [list(c) for c in A.rand_chunks(rng, shape)],
             "mk": rng.choice(MASKKINDS), "via": rng.choice(("ctor", "ctor", "from_array", "ctor_npmask")),
             "fv": rng.choice(FILLS), "threads": rng.random() < 0.1}
        if kind == "construct":
            d["data_np"] = rng.random() < 0.15
        elif kind == "mfunc":
            d["op"] = rng.choice(MFUNCS)
            d["in_masked"] = rng.random() < 0.4
            d["v"] = [rng.choice((-2, -1, 0, 1, 2, 0.5, 3)), rng.choice((-2, -1, 0, 1, 2, 0.5, 3))]
            d["vk"] = rng.choice(("scalar", "scalar", "dask", "numpy", "bcast", "masked", "masked"))
            d["ck"] = rng.choice(("dask", "dask", "numpy", "scalar"))
        elif kind == "elem":
            d["sub"] = rng.choice(("bin", "bin", "rbin", "binuf", "un", "unuf"))
            d["op"] = rng.choice({"bin": BINOPS, "rbin": BINOPS, "binuf": BINUF, "un": UNOPS, "unuf": UNUF}[d["sub"]])
            d["yk"] = rng.choice(("masked", "plain", "plain", "numpy", "npmasked", "scalar"))
            s2 = list(shape)
            for a in range(len(s2)):
                if rng.random() < 0.25:
                    s2[a] = 1
            s2 = s2[rng.randint(0, len(s2)):] if rng.random() < 0.5 else s2
            d["s2"] = s2
            d["c2"] = [list(c) for c in A.rand_chunks(rng, s2)]
            d["d2"] = rng.choice(DT)
            d["mk2"] = rng.choice(MASKKINDS[:-2])
            d["scalar"] = rng.choice((2, -1, 0, 0.5, True))
        elif kind == "reduce":
            d["op"] = rng.choice(REDS)
            nd = len(shape)
            r = rng.random()
            if r < 0.3 or nd == 0:
                d["axis"] = None
            elif r < 0.8:
                d["axis"] = rng.randrange(-nd, nd)
            else:
                d["axis"] = sorted(rng.sample(range(nd), rng.randint(1, nd)))
            d["keepdims"] = rng.random() < 0.35
            d["split_every"] = rng.choice((None, None, 2, 3))
            d["ddof"] = rng.choice((0, 0, 0, 1, 1, 2, 3)) if d["op"] in ("std", "var") else 0
        elif kind == "filled":
            d["call_fv"] = rng.choice(FILLS)
            d["plain"] = rng.random() < 0.1
        elif kind == "setfill":
            d["new_fv"] = rng.choice(FILLS[2:])
        elif kind == "average":
            nd = len(shape)
            d["axis"] = None if (nd == 0 or rng.random() < 0.3) else rng.randrange(-nd, nd)
            d["wk"] = rng.choice(("none", "none", "same", "same_masked", "1d"))
            d["returned"] = rng.random() < 0.4
            d["keepdims"] = rng.random() < 0.3
        elif kind == "where3":
            d["d2"] = rng.choice(DT)
            d["mk2"] = rng.choice(MASKKINDS[:-2])
            d["mkc"] = rng.choice(MASKKINDS[:-2])
        yield d


# ---------------------------------------------------------------------------------------------
# inputs

def _mask_for(seed, shape, chunks, mk):
    """Returns (mask spec for numpy.ma, has_allmasked_chunk)."""
    r = np.random.default_rng(seed + 77)
    shape = tuple(shape)
    if mk == "nomask":
        return np.ma.nomask, False
    if mk == "scalarT":
        return True, bool(np.prod(shape)) if shape else True
    if mk == "scalarF":
        return False, False
    if mk == "all":
        return np.ones(shape, bool), bool(np.prod(shape)) if shape else True
    if mk == "none":
        return np.zeros(shape, bool), False
    m = r.random(shape) < 0.4
    allm = False
    if mk == "chunk":
        offs = [np.concatenate([[0], np.cumsum(c)]) for c in chunks]
        for idx in itertools.product(*[range(len(c)) for c in chunks]):
            sl = tuple(slice(int(offs[a][i]), int(offs[a][i + 1])) for a, i in enumerate(idx))
            if r.random() < 0.45:
                m = np.array(m)
                m[sl] = True
        m = np.asarray(m)
    if m.size:
        offs = [np.concatenate([[0], np.cumsum(c)]) for c in chunks]
        for idx in itertools.product(*[range(len(c)) for c in chunks]):
            sl = tuple(slice(int(offs[a][i]), int(offs[a][i + 1])) for a, i in enumerate(idx))
            blk = m[sl]
            if blk.size and blk.all():
                allm = True
    return m, allm


def _masked_input(seed, shape, dtype, chunks, mchunks, mk, via, fv=None, special=False):
    """(numpy masked array, dask masked array, has-all-masked-chunk).  Raises _Reject when numpy.ma refuses."""
    import dask.array as da

    x = A.rand_data(seed, shape, dtype, special=special)
    chunks = A.chunks_of_desc(chunks)
    mchunks = A.chunks_of_desc(mchunks)
    m, allm = _mask_for(seed, shape, chunks, mk)
    kw = {} if fv is None else {"fill_value": fv}
    try:
        mx = np.ma.masked_array(x, mask=m, **kw)
    except Exception as ex:  # noqa: BLE001
        raise _Reject("numpy.ma: %s: %s" % (type(ex).__name__, ex))
    if via == "from_array":
        dmx = da.from_array(mx, chunks=chunks)
    else:
        dx = da.from_array(x, chunks=chunks)
        if m is np.ma.nomask or isinstance(m, bool):
            dm = m
        elif via == "ctor_npmask":
            dm = m
        else:
            dm = da.from_array(m, chunks=mchunks)
        dmx = da.ma.masked_array(dx, mask=dm, **kw)
    return mx, dmx, allm


class _Reject(Exception):
    pass


# ---------------------------------------------------------------------------------------------
# comparison

def _cast_fill(fv, dtype):
    """A fill value as it is used: cast to the array dtype (numpy.ma keeps e.g. int64(999999) for an int8 array)."""
    with np.errstate(all="ignore"):
        try:
            return np.asarray(fv).astype(dtype)
        except Exception:  # noqa: BLE001
            return np.asarray(fv)


def _cmp(r, e, exact=True, n=1, scale=1.0, fill=False, dtype_mode="exact", only=None):
    """None or (symptom, message).  Mask, data where unmasked, dtype, optionally fill_value."""
    e_const = e is np.ma.masked
    r_const = r is np.ma.masked
    rm, em = np.ma.getmaskarray(r), np.ma.getmaskarray(e)
    if rm.shape != em.shape:
        return ("shape", "shape %s vs expected %s" % (rm.shape, em.shape))
    if not np.array_equal(rm, em):
        return ("mask", "mask %s vs expected %s" % (rm.tolist(), em.tolist()))
    rd, ed = np.asarray(np.ma.getdata(r)), np.asarray(np.ma.getdata(e))
    if not (e_const or r_const) and rd.dtype != ed.dtype:
        if dtype_mode == "exact" or (dtype_mode == "kind" and not (rd.dtype.kind == ed.dtype.kind == "f")):
            return ("dtype", "dtype %s vs expected %s" % (rd.dtype, ed.dtype))
    keep = ~em if only is None else (~em & only)
    rk, ek = rd[keep], ed[keep]
    if rk.dtype != ek.dtype and rk.dtype.kind == ek.dtype.kind == "f":
        lo = min(rk.dtype, ek.dtype, key=lambda d: d.itemsize)   # tolerance of the narrower float
        rk, ek = rk.astype(lo), ek.astype(lo)
    m = compare_arrays(rk, ek, exact=exact, n=n, scale=scale, check_dtype=False)
    if m:
        return ("values", m[1])
    if fill:
        if not isinstance(r, np.ma.MaskedArray):
            return ("type", "result is %s, expected a MaskedArray" % type(r).__name__)
        rf, ef = _cast_fill(r.fill_value, rd.dtype), _cast_fill(e.fill_value, ed.dtype)
        if not np.array_equal(rf, ef, equal_nan=rf.dtype.kind in "fc"):
            return ("fill_value", "fill_value %r vs expected %r" % (r.fill_value, e.fill_value))
    return None


def _compute(r, case):
    return r.compute(scheduler="threads" if case.get("threads") else "sync")


def _flags(*flags):
    return "&".join(f for f in flags if f) or "-"


def run_case(case, ctx):
    with warnings.catch_warnings():
        warnings.simplefilter("ignore")
        with np.errstate(all="ignore"):
            try:
                _run(case, ctx)
            except _Reject as ex:
                ctx.reject(str(ex))


def _check(ctx, case, fam, op, flags, build_np, build_da, exact=True, n=1, scale=1.0, fill=False, only=None,
           dtype_mode="exact", outnames=None):
    """Reference first (raises -> rejected), then dask (raises -> violation); compare every output.
    Label = fam:op:flags:symptom; when the reference is the np.ma.masked constant the label is
    fam:*:ref=masked-constant:symptom (one mechanism, whatever the operation)."""
    import dask.array as da

    try:
        e = build_np()
    except Exception as ex:  # noqa: BLE001
        ctx.reject("numpy.ma: %s: %s" % (type(ex).__name__, ex))
        return None
    if e is np.ma.masked:
        ctx.count("reference_masked_constant")
        label = "%s:*:ref=masked-constant" % fam if fam == "elem" else "%s:%s:%s" % (fam, op, flags)
    else:
        label = "%s:%s:%s" % (fam, op, flags)
    try:
        r = build_da()
        if isinstance(r, tuple):
            rv = tuple(_compute(q, case) if isinstance(q, da.Array) else q for q in r)
        else:
            if not isinstance(r, da.Array):
                ctx.violation(label + ":result-not-a-dask-array", "got %r" % (type(r),))
                return None
            rv = _compute(r, case)
    except NotImplementedError as ex:
        ctx.unsupported(str(ex))
        return None
    except Exception as ex:  # noqa: BLE001
        ctx.exception(ex, prefix=label)
        return None
    ctx.count("compared")
    if isinstance(e, tuple) or isinstance(rv, tuple):
        if not (isinstance(e, tuple) and isinstance(rv, tuple) and len(e) == len(rv)):
            ctx.violation(label + ":arity", "result %r vs expected %r" % (type(rv), type(e)))
            return None
        pairs = list(zip(rv, e))
    else:
        pairs = [(rv, e)]
    for i, (a, b) in enumerate(pairs):
        m = _cmp(a, b, exact=exact, n=n, scale=scale, fill=fill, dtype_mode=dtype_mode, only=only)
        if m:
            out = (outnames[i] + "-") if outnames else ""
            ctx.violation("%s:%s%s" % (label, out, m[0]), m[1], result=repr(a)[:400], expected=repr(b)[:400])
            break
    if np.ma.getmaskarray(e if not isinstance(e, tuple) else e[0]).any():
        ctx.count("reference_has_masked_output")
    return rv


def _run(case, ctx):
    import dask.array as da

    kind = case["kind"]
    shape = tuple(case["shape"])
    chunks = A.chunks_of_desc(case["chunks"])
    ctx.nontrivial = A.has_split(chunks)
    zero = "zero-length" if 0 in shape else ""
    zd = "0-d" if not shape else ""

    if kind == "ex":
        bits = case["bits"]
        m = np.array([(bits >> i) & 1 for i in range(6)], bool).reshape(shape)
        x = A.rand_data(case["seed"], shape, "int64")
        mx = np.ma.masked_array(x, m)
        dmx = da.ma.masked_array(da.from_array(x, chunks=chunks), da.from_array(m, chunks=chunks))
        what = case["what"]
        ctx.op("ex:" + what)
        ctx.sig = ("ex", what, case["chunks"], bits)
        if what.startswith("sum"):
            ax = None if what.endswith("None") else int(what[-1])
            _check(ctx, case, "reduce", "sum", "complete(2,3)", lambda: np.sum(mx, axis=ax), lambda: da.sum(dmx, axis=ax))
        elif what == "filled":
            _check(ctx, case, "filled", "filled", "complete(2,3)", lambda: np.ma.filled(mx, 9), lambda: da.ma.filled(dmx, 9))
        else:
            y = A.rand_data(case["seed"] + 1, shape, "int64")
            _check(ctx, case, "elem", "add", "complete(2,3)", lambda: mx + y, lambda: dmx + da.from_array(y, chunks=(2, 3)))
        ctx.sample = {"kind": "ex", "what": what, "chunks": case["chunks"], "mask_bits": bits}
        return

    dtype, seed, mk, via = case["dtype"], case["seed"], case["mk"], case["via"]
    fv = _fv(case.get("fv"))
    special = kind in ("mfunc", "filled") and dtype.startswith("float")
    ctx.sig = {k: v for k, v in case.items() if k not in ("seed", "threads")}

    if kind == "construct":
        ctx.op("construct:" + mk)
        x = A.rand_data(seed, shape, dtype, special=False)
        m, allm = _mask_for(seed, shape, chunks, mk)
        kw = {} if fv is None else {"fill_value": fv}
        dx = x if case.get("data_np") else da.from_array(x, chunks=chunks)
        if m is np.ma.nomask or isinstance(m, bool) or via == "ctor_npmask":
            dm = m
        else:
            dm = da.from_array(m, chunks=A.chunks_of_desc(case["mchunks"]))
            if A.has_split(A.chunks_of_desc(case["mchunks"])):
                ctx.nontrivial = True
        if allm:
            ctx.count("with_allmasked_chunk")
        flags = _flags("mask=" + ("scalar" if isinstance(m, bool) else "nomask" if m is np.ma.nomask else "array"),
                       "fill_value" if fv is not None else "", zero, zd)
        _check(ctx, case, "construct", "masked_array", flags, lambda: np.ma.masked_array(x, mask=m, **kw),
               lambda: da.ma.masked_array(dx, mask=dm, **kw), fill=True)
        ctx.sample = {"kind": kind, "mask": mk, "chunks": case["chunks"], "allmasked_chunk": allm}
        return

    if kind == "mfunc":
        op = case["op"]
        ctx.op("mfunc:" + op)
        if case["in_masked"]:
            mx, dmx, allm = _masked_input(seed, shape, dtype, case["chunks"], case["mchunks"], mk, via, special=special)
        else:
            x = A.rand_data(seed, shape, dtype, special=special)
            mx, dmx, allm = x, da.from_array(x, chunks=chunks), False
        if allm:
            ctx.count("with_allmasked_chunk")
        v1, v2 = case["v"]
        inp = "masked-input" if case["in_masked"] else "plain-input"
        if op == "masked_where":
            ck = case["ck"]
            if ck == "scalar":
                c = dc = bool(seed & 1)
            else:
                c = np.random.default_rng(seed + 5).random(shape) < 0.5
                dc = c if ck == "numpy" else da.from_array(c, chunks=A.chunks_of_desc(case["mchunks"]))
            _check(ctx, case, "mfunc", op, _flags(inp, "cond=" + ck, zero, zd), lambda: np.ma.masked_where(c, mx),
                   lambda: da.ma.masked_where(dc, dmx))
        elif op in ("masked_inside", "masked_outside"):
            _check(ctx, case, "mfunc", op, _flags(inp, zero, zd), lambda: getattr(np.ma, op)(mx, v1, v2),
                   lambda: getattr(da.ma, op)(dmx, v1, v2))
        elif op == "masked_invalid":
            _check(ctx, case, "mfunc", op, _flags(inp, zero, zd), lambda: np.ma.masked_invalid(mx),
                   lambda: da.ma.masked_invalid(dmx))
        elif op in ("masked_equal", "masked_values"):
            _check(ctx, case, "mfunc", op, _flags(inp, zero, zd), lambda: getattr(np.ma, op)(mx, v1),
                   lambda: getattr(da.ma, op)(dmx, v1))
        else:
            vk = case["vk"]
            if vk == "scalar" or not shape:
                vk, v, dv = "scalar", v1, v1
            else:
                vs = shape if vk != "bcast" else shape[1:]
                v = A.rand_data(seed + 9, vs, "int64")
                vc = A.chunks_of_desc(case["mchunks"])[len(shape) - len(vs):]
                dv = v if vk == "numpy" else da.from_array(v, chunks=vc)
                if vk == "masked":      # the value carries a mask of its own: numpy.ma ORs it into the result
                    vm = np.random.default_rng(seed + 10).random(vs) < 0.4
                    v = np.ma.masked_array(v, vm)
                    dv = da.ma.masked_array(dv, da.from_array(vm, chunks=vc))
            _check(ctx, case, "mfunc", op, _flags(inp, "value=" + vk, zero, zd), lambda: getattr(np.ma, op)(mx, v),
                   lambda: getattr(da.ma, op)(dmx, dv))
        ctx.sample = {"kind": kind, "op": op, "chunks": case["chunks"], "allmasked_chunk": allm}
        return

    mx, dmx, allm = _masked_input(seed, shape, dtype, case["chunks"], case["mchunks"], mk, via, fv=fv, special=special)
    if allm:
        ctx.count("with_allmasked_chunk")
    if mk == "nomask":
        ctx.count("with_nomask")
    ctx.sample = {"kind": kind, "op": case.get("op"), "mask": mk, "via": via, "chunks": case["chunks"], "allmasked_chunk": allm}

    if kind == "elem":
        sub, op, yk = case["sub"], case["op"], case["yk"]
        ctx.op("elem:" + op)
        if sub in ("un", "unuf"):
            f_np = (lambda X: getattr(operator, op)(X)) if sub == "un" else (lambda X: getattr(np, op)(X))
            f_da = (lambda X: getattr(operator, op)(X)) if sub == "un" else (lambda X: getattr(da, op)(X))
            _check(ctx, case, "elem", op, _flags(zero, zd), lambda: f_np(mx), lambda: f_da(dmx))
            return
        if sub == "rbin" and yk in ("numpy", "npmasked"):
            # Calibration: `numpy_masked_array <op> dask_array` is answered by MaskedArray.__op__ itself (it computes the
            # dask array and returns a numpy MaskedArray); dask code never decides the result.
            sub = "bin"
        s2 = tuple(case["s2"])
        if yk == "scalar":
            y = dy = case["scalar"]
            if not shape:
                # Calibration: for 0-d results dask enforces its (weak-scalar) lazy dtype on numpy.ma's (array-promoted)
                # result: a silent cast for signed types, an error for uint8 // 2 -> int64.  Same numpy.ma quirk as below.
                raise _Reject("0-d masked operand with a Python scalar: numpy.ma scalar-conversion quirk")
            if dtype == "uint8" and y == -1:
                # Calibration: NumPy proper raises OverflowError for uint8 <op> -1 (weak scalars); numpy.ma converts the
                # scalar to an int64 array first.  Same Python-scalar quirk as for the dtype.
                raise _Reject("numpy: Python integer -1 out of bounds for uint8 (numpy.ma scalar-conversion quirk)")
        elif yk in ("masked", "npmasked"):
            y, dy, allm2 = _masked_input(seed + 1, s2, case["d2"], case["c2"], case["c2"], case["mk2"], "ctor")
            if yk == "npmasked":
                dy = y
            if allm2:
                ctx.count("with_allmasked_chunk")
        else:
            y = A.rand_data(seed + 1, s2, case["d2"], special=False)
            dy = y if yk == "numpy" else da.from_array(y, chunks=A.chunks_of_desc(case["c2"]))
        if yk in ("masked", "plain") and A.has_split(A.chunks_of_desc(case["c2"])):
            ctx.nontrivial = True
        bc = "broadcast" if (yk != "scalar" and s2 != shape) else ""
        ykl = {"masked": "masked", "npmasked": "masked", "plain": "plain", "numpy": "plain", "scalar": "python-scalar"}[yk]

        def build(X, Y, mod):
            if sub == "bin":
                return getattr(operator, op)(X, Y)
            if sub == "rbin":
                return getattr(operator, op)(Y, X)
            return getattr(mod, op)(X, Y)

        # Calibration: numpy.ma turns a Python scalar operand into a 0-d array before the ufunc, so its result dtype
        # follows array promotion (uint8 * 2 -> int64) while NumPy proper (and dask's metadata) use weak-scalar
        # promotion; the statement is about data and mask, so the dtype is not compared for Python-scalar operands.
        _check(ctx, case, "elem", op, _flags(bc, "y=" + ykl, zero, zd), lambda: build(mx, y, np),
               lambda: build(dmx, dy, da), dtype_mode="none" if yk == "scalar" else "exact")
        return

    if kind == "reduce":
        op, axis, keepdims, se, ddof = case["op"], case["axis"], case["keepdims"], case["split_every"], case["ddof"]
        ctx.op("reduce:" + op)
        if zero:
            # Calibration: reductions over zero-length axes are the generic reduction machinery's business (C22), not
            # numpy.ma semantics; the statement's quantifier does not list empty arrays.
            ctx.reject("zero-length axis: outside the masked-reduction domain")
            return
        ax = tuple(axis) if isinstance(axis, list) else axis
        kw = {"axis": ax, "keepdims": keepdims}
        if ddof:
            kw["ddof"] = ddof
        n = int(np.prod(shape)) if shape else 1
        exact = op in ("min", "max", "any", "all", "count") or (np.dtype(dtype).kind in "iub" and op in ("sum", "prod"))
        scale = 8.0 if op in ("sum", "mean") else 64.0
        if op == "prod":
            scale = float(np.max(np.abs(np.ma.getdata(mx).astype("float64")), initial=1.0)) ** n
        cnt = np.asarray(np.ma.count(mx, axis=ax))
        empty = "empty-cell" if (cnt == 0).any() else ""        # an output cell all of whose inputs are masked
        dd = "ddof>=count" if (ddof and (cnt - ddof <= 0).any()) else ""
        if dd and not np.ma.getmaskarray(mx).any():
            # Calibration: with nothing masked numpy.ma's var/std give nan for mask=nomask (ndarray code path) but `masked`
            # for an all-False mask ARRAY; the two are the same mask, so the reference does not define this corner.
            ctx.reject("ddof >= count with nothing masked: numpy.ma's answer depends on nomask vs all-False mask array")
            return
        if dd and cnt.ndim == 0 and int(cnt) - ddof < 0:
            # Calibration: for a scalar result numpy.ma only masks a division by zero (count == ddof); with count < ddof it
            # returns the quotient by a negative number, i.e. an unmasked NEGATIVE variance (-0.0 in the seed-7 witness,
            # var of 2 unmasked elements with ddof=3) where dask returns nan. A negative variance is an artefact of the
            # reference, not a value the statement can demand; axis-wise lanes (where numpy.ma masks count <= ddof) and
            # count == ddof stay in the domain.
            ctx.reject("ddof > count with scalar output: numpy.ma returns a negative variance")
            return
        if empty:
            ctx.count("reduce_with_fully_masked_cell")
        flags = _flags(empty, dd, "scalar-output" if (dd and cnt.ndim == 0) else "") if (empty or dd) else _flags(zd)
        if op == "count":
            _check(ctx, case, "reduce", "count", flags, lambda: np.ma.count(mx, **kw),
                   lambda: da.ma.count(dmx, split_every=se, **kw))
        else:
            # Calibration: numpy.ma's mean/std/var of float32 give float32 when the mask is nomask and float64 when a
            # mask array is present (sum / count); "same data and mask" cannot pin that, so only the dtype kind is
            # compared for these, with the float32 tolerance.
            _check(ctx, case, "reduce", "std-var" if op in ("std", "var") else op, flags, lambda: getattr(np, op)(mx, **kw),
                   lambda: getattr(da, op)(dmx, split_every=se, **kw), exact=exact, n=max(n, 1) * 4, scale=scale,
                   dtype_mode="kind" if op in ("mean", "std", "var") else "exact")
        return

    if kind == "filled":
        cfv = _fv(case["call_fv"])
        ctx.op("filled")
        if case.get("plain"):
            mx = np.asarray(np.ma.getdata(mx))
            dmx = da.from_array(mx, chunks=chunks)
        flags = _flags("call-fill_value" if cfv is not None else "", "array-fill_value" if fv is not None else "",
                       "plain-input" if case.get("plain") else "", zero, zd)
        _check(ctx, case, "filled", "filled", flags, lambda: np.ma.filled(mx, cfv), lambda: da.ma.filled(dmx, cfv))
        return

    if kind == "getmaskarray":
        ctx.op(kind)
        _check(ctx, case, kind, kind, _flags(zero, zd), lambda: np.ma.getmaskarray(mx), lambda: da.ma.getmaskarray(dmx))
        return

    if kind == "getdata":
        ctx.op(kind)
        # what lies under the mask is not compared: only the positions the reference leaves unmasked
        _check(ctx, case, kind, kind, _flags(zero, zd), lambda: np.ma.getdata(mx), lambda: da.ma.getdata(dmx),
               only=~np.ma.getmaskarray(mx))
        return

    if kind == "setfill":
        nfv = _fv(case["new_fv"])
        ctx.op("set_fill_value")

        def ref():
            c = mx.copy()
            np.ma.set_fill_value(c, nfv)
            return c

        def dsk():
            res = da.ma.set_fill_value(dmx, nfv)
            if res is not None:
                raise AssertionError("set_fill_value returned %r" % (res,))
            return dmx

        _check(ctx, case, "set_fill_value", "set_fill_value", _flags(zero, zd), ref, dsk, fill=True)
        return

    if kind == "average":
        ctx.op("average")
        if zero:
            ctx.reject("zero-length axis: outside the masked-reduction domain")
            return
        axis, wk = case["axis"], case["wk"]
        w = dw = None
        if wk != "none" and shape:
            if wk == "1d":
                if axis is None:
                    wk = "same"
                else:
                    w = A.rand_data(seed + 3, (shape[axis],), "int64") % 4 + 1
                    dw = da.from_array(w, chunks=(chunks[axis],))
            if wk in ("same", "same_masked"):
                w = A.rand_data(seed + 3, shape, "int64") % 4 + 1
                dw = da.from_array(w, chunks=A.chunks_of_desc(case["mchunks"]))
                if wk == "same_masked":
                    wm = np.random.default_rng(seed + 4).random(shape) < 0.3
                    w = np.ma.masked_array(w, wm)
                    dw = da.ma.masked_array(dw, da.from_array(wm, chunks=chunks))
        else:
            wk = "none"
        kw = {"axis": axis, "weights": w, "returned": case["returned"], "keepdims": case["keepdims"]}
        dkw = dict(kw, weights=dw)
        n = int(np.prod(shape)) if shape else 1
        cnt = np.asarray(np.ma.count(mx if wk != "same_masked" else np.ma.masked_array(mx, np.ma.getmaskarray(w)), axis=axis))
        empty = "empty-cell" if (cnt == 0).any() else ""
        # one mechanism per label: without weights the masked-ness of the cells does not change the code path
        flags = "weights=none" if wk == "none" else _flags("weights=given", empty)
        _check(ctx, case, "average", "average", flags, lambda: np.ma.average(mx, **kw), lambda: da.ma.average(dmx, **dkw),
               exact=False, n=max(n, 1) * 4, scale=32.0, dtype_mode="kind",
               outnames=("average", "sum_of_weights") if case["returned"] else None)
        return

    if kind == "nonzero":
        ctx.op("nonzero")
        if zero:
            ctx.reject("zero-length axis: nonzero of an empty array is the generic reshape/compress machinery")
            return
        _check(ctx, case, "nonzero", "nonzero", _flags(zd), lambda: np.ma.nonzero(mx), lambda: da.ma.nonzero(dmx),
               outnames=["axis%d" % i for i in range(max(len(shape), 1))])
        return

    if kind == "where3":
        ctx.op("where")
        y, dy, _ = _masked_input(seed + 1, shape, case["d2"], case["chunks"], case["mchunks"], case["mk2"], "ctor")
        c = np.random.default_rng(seed + 5).random(shape) < 0.5
        cm, _ = _mask_for(seed + 6, shape, chunks, case["mkc"])
        mc = np.ma.masked_array(c, cm)
        dmc = da.ma.masked_array(da.from_array(c, chunks=A.chunks_of_desc(case["mchunks"])),
                                 cm if cm is np.ma.nomask else da.from_array(cm, chunks=chunks))
        _check(ctx, case, "where", "where", _flags(zero, zd), lambda: np.ma.where(mc, mx, y),
               lambda: da.ma.where(dmc, dmx, dy))
        return
    raise AssertionError(kind)
